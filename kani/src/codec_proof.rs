//! Family "codec_proof" (C17 Ob17.3 round trips, C18 Ob18.1 decoders on arbitrary bytes):
//! the proof codecs of plonky2/src/util/serialization/mod.rs, bottom-up, on a TINY hand-built
//! `CommonCircuitData<F, 2>`:
//!
//!   num_wires 3, num_routed_wires 1, num_constants 1, num_challenges 1, quotient_degree_factor 1,
//!   num_partial_products 0 (1 in the opening-set harnesses), no lookups, not hiding,
//!   degree_bits 1, rate_bits 0, cap_height 0, no FRI reduction, 1 query round, 0 public inputs.
//!
//!  * `rt_*`   `read_X(write_X(v))` equals `v` component by component and the reader consumed exactly
//!             the written bytes; `v` has the shape the common data prescribes, symbolic CANONICAL contents.
//!  * `dec_*`  `read_X` on ARBITRARY bytes of a concrete length: Ok or Err, never a panic / overflow /
//!             out-of-bounds access (Kani's default checks, dev profile); when Ok, the reader position is
//!             inside the buffer.
//!
//! Harnesses are generic over the config: `_p` = `PoseidonGoldilocksConfig` (HashOut: 4 limbs, 32 bytes,
//! `to_bytes` is a flat_map/collect that CBMC pays dearly for), `_k` = `KeccakGoldilocksConfig`
//! (`BytesHash<25>`: plain byte copies) - the generic proof codec above the hash codec is the same code.
//!
//! STATUS: on the (heavily loaded) development machine only the `dec_*` instantiations at the end of this
//! file were decided by CBMC within the tier limits and are registered in engines/k.py.  The generic
//! round-trip bodies (`rt_merkle_proof`, `rt_fri_query_step`, `rt_fri_initial_proof`, `rt_fri_proof`,
//! `rt_proof_with_pis`, the `rt_opening_set!` macro) are kept for a quieter machine but have NO
//! instantiation here: whole proofs, FRI proofs, initial tree proofs and the 8-element opening set round
//! trip did not finish within 600-900 s (every `(0..n).map(read).collect::<Result<Vec<_>,_>>()` makes the
//! reader position, the vector length and the loop bound symbolic for CBMC).
use core::mem::forget;

use plonky2::field::extension::quadratic::QuadraticExtension;
use plonky2::field::extension::FieldExtension;
use plonky2::field::goldilocks_field::GoldilocksField as F;
use plonky2::field::polynomial::PolynomialCoeffs;
use plonky2::fri::proof::{FriInitialTreeProof, FriProof, FriQueryRound, FriQueryStep};
use plonky2::fri::reduction_strategies::FriReductionStrategy;
use plonky2::fri::{FriConfig, FriParams};
use plonky2::hash::hash_types::{BytesHash, HashOut};
use plonky2::hash::merkle_proofs::MerkleProof;
use plonky2::hash::merkle_tree::MerkleCap;
use plonky2::plonk::circuit_data::{CircuitConfig, CommonCircuitData};
use plonky2::plonk::config::{GenericConfig, Hasher, KeccakGoldilocksConfig, PoseidonGoldilocksConfig};
use plonky2::plonk::proof::{OpeningSet, Proof, ProofWithPublicInputs};
use plonky2::util::serialization::{Buffer, Read, Write};

const P: u64 = 0xFFFF_FFFF_0000_0001;
type FE = QuadraticExtension<F>;
type HashOf<C> = <<C as GenericConfig<2>>::Hasher as Hasher<F>>::Hash;
type HasherOf<C> = <C as GenericConfig<2>>::Hasher;

fn fri_config() -> FriConfig {
    FriConfig {
        rate_bits: 0,
        cap_height: 0,
        proof_of_work_bits: 0,
        reduction_strategy: FriReductionStrategy::Fixed(Vec::new()),
        num_query_rounds: 1,
    }
}

fn tiny(num_partial_products: usize) -> CommonCircuitData<F, 2> {
    tiny_w(3, num_partial_products)
}

fn tiny_w(num_wires: usize, num_partial_products: usize) -> CommonCircuitData<F, 2> {
    CommonCircuitData {
        config: CircuitConfig {
            num_wires,
            num_routed_wires: 1,
            num_constants: 1,
            use_base_arithmetic_gate: true,
            security_bits: 1,
            num_challenges: 1,
            zero_knowledge: false,
            max_quotient_degree_factor: 1,
            fri_config: fri_config(),
        },
        fri_params: FriParams { config: fri_config(), hiding: false, degree_bits: 1, reduction_arity_bits: Vec::new() },
        gates: Vec::new(),
        selectors_info: plonky2::verif_hooks::empty_selectors_info(),
        quotient_degree_factor: 1,
        num_gate_constraints: 0,
        num_constants: 1,
        num_public_inputs: 0,
        k_is: Vec::new(),
        num_partial_products,
        num_lookup_polys: 0,
        num_lookup_selectors: 0,
        luts: Vec::new(),
    }
}

// encoded sizes for `tiny(0)` with Merkle proofs of `s` siblings and hashes of `h` bytes
const OPENING_SET_EXTS: usize = 1 + 1 + 3 + 1 + 1 + 0 + 1; // constants sigmas wires zs zs_next pp quotient
const fn initial_proof_len(h: usize, s: usize) -> usize {
    (2 + 3 + 1 + 1) * 8 + 4 * (1 + s * h)
}
const fn fri_proof_len(h: usize, s: usize) -> usize {
    initial_proof_len(h, s) + 2 * 16 + 8
}
const fn proof_len(h: usize, s: usize) -> usize {
    3 * h + OPENING_SET_EXTS * 16 + fri_proof_len(h, s)
}
const fn proof_with_pis_len(h: usize, s: usize, pis: usize) -> usize {
    proof_len(h, s) + 8 + 8 * pis
}

fn any_f() -> F {
    let x: u64 = kani::any();
    kani::assume(x < P);
    F(x)
}

fn any_fe() -> FE {
    FE::from_basefield_array([any_f(), any_f()])
}

fn any_f_vec(n: usize) -> Vec<F> {
    let mut v = Vec::with_capacity(n);
    let mut j = 0;
    while j < n {
        v.push(any_f());
        j += 1;
    }
    v
}

fn any_fe_vec(n: usize) -> Vec<FE> {
    let mut v = Vec::with_capacity(n);
    let mut j = 0;
    while j < n {
        v.push(any_fe());
        j += 1;
    }
    v
}

/// Harness-side view of a config: how to make an arbitrary (canonical) hash and compare two.
trait Cfg: GenericConfig<2, F = F> {
    const H: usize;
    fn any_hash() -> HashOf<Self>;
    /// equal at a nondeterministically chosen component (asserting it = equal everywhere)
    fn same_hash(a: &HashOf<Self>, b: &HashOf<Self>) -> bool;
}

impl Cfg for PoseidonGoldilocksConfig {
    const H: usize = 32;
    fn any_hash() -> HashOut<F> {
        HashOut { elements: [any_f(), any_f(), any_f(), any_f()] }
    }
    fn same_hash(a: &HashOut<F>, b: &HashOut<F>) -> bool {
        let i: usize = kani::any();
        kani::assume(i < 4);
        a.elements[i].0 == b.elements[i].0
    }
}

impl Cfg for KeccakGoldilocksConfig {
    const H: usize = 25;
    fn any_hash() -> BytesHash<25> {
        BytesHash(kani::any())
    }
    fn same_hash(a: &BytesHash<25>, b: &BytesHash<25>) -> bool {
        let i: usize = kani::any();
        kani::assume(i < 25);
        a.0[i] == b.0[i]
    }
}

fn any_merkle_proof<C: Cfg>(s: usize) -> MerkleProof<F, HasherOf<C>> {
    let mut v = Vec::with_capacity(s);
    let mut j = 0;
    while j < s {
        v.push(C::any_hash());
        j += 1;
    }
    MerkleProof { siblings: v }
}

fn any_cap<C: Cfg>() -> MerkleCap<F, HasherOf<C>> {
    let mut v = Vec::with_capacity(1);
    v.push(C::any_hash());
    MerkleCap(v)
}

fn same_fe_vec(a: &[FE], b: &[FE], n: usize) -> bool {
    if a.len() != n || b.len() != n {
        return false;
    }
    let i: usize = kani::any();
    if i < n {
        a[i].0[0].0 == b[i].0[0].0 && a[i].0[1].0 == b[i].0[1].0
    } else {
        true
    }
}

fn same_f_vec(a: &[F], b: &[F], n: usize) -> bool {
    if a.len() != n || b.len() != n {
        return false;
    }
    let i: usize = kani::any();
    if i < n {
        a[i].0 == b[i].0
    } else {
        true
    }
}

fn same_merkle_proof<C: Cfg>(a: &MerkleProof<F, HasherOf<C>>, b: &MerkleProof<F, HasherOf<C>>, s: usize) -> bool {
    if a.siblings.len() != s || b.siblings.len() != s {
        return false;
    }
    let i: usize = kani::any();
    if i < s {
        C::same_hash(&a.siblings[i], &b.siblings[i])
    } else {
        true
    }
}

fn same_cap<C: Cfg>(a: &MerkleCap<F, HasherOf<C>>, b: &MerkleCap<F, HasherOf<C>>) -> bool {
    a.0.len() == 1 && b.0.len() == 1 && C::same_hash(&a.0[0], &b.0[0])
}

fn any_opening_set(npp: usize) -> OpeningSet<F, 2> {
    any_opening_set_w(3, npp)
}

fn any_opening_set_w(nw: usize, npp: usize) -> OpeningSet<F, 2> {
    OpeningSet {
        constants: any_fe_vec(1),
        plonk_sigmas: any_fe_vec(1),
        wires: any_fe_vec(nw),
        plonk_zs: any_fe_vec(1),
        plonk_zs_next: any_fe_vec(1),
        partial_products: any_fe_vec(npp),
        quotient_polys: any_fe_vec(1),
        lookup_zs: Vec::new(),
        lookup_zs_next: Vec::new(),
    }
}

fn same_opening_set(a: &OpeningSet<F, 2>, b: &OpeningSet<F, 2>, npp: usize) -> bool {
    same_opening_set_w(a, b, 3, npp)
}

fn same_opening_set_w(a: &OpeningSet<F, 2>, b: &OpeningSet<F, 2>, nw: usize, npp: usize) -> bool {
    same_fe_vec(&a.constants, &b.constants, 1)
        && same_fe_vec(&a.plonk_sigmas, &b.plonk_sigmas, 1)
        && same_fe_vec(&a.wires, &b.wires, nw)
        && same_fe_vec(&a.plonk_zs, &b.plonk_zs, 1)
        && same_fe_vec(&a.plonk_zs_next, &b.plonk_zs_next, 1)
        && same_fe_vec(&a.partial_products, &b.partial_products, npp)
        && same_fe_vec(&a.quotient_polys, &b.quotient_polys, 1)
        && a.lookup_zs.len() == 0
        && a.lookup_zs_next.len() == 0
}

const ORACLE_WIDTHS: [usize; 4] = [2, 3, 1, 1];

fn any_initial_proof<C: Cfg>(s: usize) -> FriInitialTreeProof<F, HasherOf<C>> {
    let mut v = Vec::with_capacity(4);
    let mut j = 0;
    while j < 4 {
        v.push((any_f_vec(ORACLE_WIDTHS[j]), any_merkle_proof::<C>(s)));
        j += 1;
    }
    FriInitialTreeProof { evals_proofs: v }
}

fn same_initial_proof<C: Cfg>(a: &FriInitialTreeProof<F, HasherOf<C>>, b: &FriInitialTreeProof<F, HasherOf<C>>, s: usize) -> bool {
    if a.evals_proofs.len() != 4 || b.evals_proofs.len() != 4 {
        return false;
    }
    let j: usize = kani::any();
    kani::assume(j < 4);
    same_f_vec(&a.evals_proofs[j].0, &b.evals_proofs[j].0, ORACLE_WIDTHS[j])
        && same_merkle_proof::<C>(&a.evals_proofs[j].1, &b.evals_proofs[j].1, s)
}

fn any_fri_proof<C: Cfg>(s: usize) -> FriProof<F, HasherOf<C>, 2> {
    let mut rounds = Vec::with_capacity(1);
    rounds.push(FriQueryRound { initial_trees_proof: any_initial_proof::<C>(s), steps: Vec::new() });
    FriProof {
        commit_phase_merkle_caps: Vec::new(),
        query_round_proofs: rounds,
        final_poly: PolynomialCoeffs { coeffs: any_fe_vec(2) },
        pow_witness: any_f(),
    }
}

fn same_fri_proof<C: Cfg>(a: &FriProof<F, HasherOf<C>, 2>, b: &FriProof<F, HasherOf<C>, 2>, s: usize) -> bool {
    a.commit_phase_merkle_caps.len() == 0
        && a.query_round_proofs.len() == 1
        && b.query_round_proofs.len() == 1
        && a.query_round_proofs[0].steps.len() == 0
        && same_initial_proof::<C>(&a.query_round_proofs[0].initial_trees_proof, &b.query_round_proofs[0].initial_trees_proof, s)
        && same_fe_vec(&a.final_poly.coeffs, &b.final_poly.coeffs, 2)
        && a.pow_witness.0 == b.pow_witness.0
}

fn any_proof<C: Cfg>(s: usize) -> Proof<F, C, 2> {
    Proof {
        wires_cap: any_cap::<C>(),
        plonk_zs_partial_products_cap: any_cap::<C>(),
        quotient_polys_cap: any_cap::<C>(),
        openings: any_opening_set(0),
        opening_proof: any_fri_proof::<C>(s),
    }
}

fn same_proof<C: Cfg>(a: &Proof<F, C, 2>, b: &Proof<F, C, 2>, s: usize) -> bool {
    same_cap::<C>(&a.wires_cap, &b.wires_cap)
        && same_cap::<C>(&a.plonk_zs_partial_products_cap, &b.plonk_zs_partial_products_cap)
        && same_cap::<C>(&a.quotient_polys_cap, &b.quotient_polys_cap)
        && same_opening_set(&a.openings, &b.openings, 0)
        && same_fri_proof::<C>(&a.opening_proof, &b.opening_proof, s)
}

macro_rules! consumed_all {
    ($buf:expr, $b:expr) => {
        assert!($b.pos() == $buf.len(), "reader did not consume exactly the written bytes");
    };
}

// ---------------------------------------------------------------------------------------------
// round trips

macro_rules! rt_opening_set {
    ($name:ident, $nw:literal, $npp:literal) => {
        #[kani::proof]
        #[kani::unwind(5)]
        #[kani::stub(plonky2_util::branch_hint, crate::noop)]
        fn $name() {
            let cd = tiny_w($nw, $npp);
            let os = any_opening_set_w($nw, $npp);
            let mut buf: Vec<u8> = Vec::with_capacity(256);
            buf.write_opening_set(&os).unwrap();
            assert!(buf.len() == (6 + $nw + $npp) * 16);
            let mut b = Buffer::new(&buf);
            let r = b.read_opening_set::<F, PoseidonGoldilocksConfig, 2>(&cd).unwrap();
            assert!(same_opening_set_w(&r, &os, $nw, $npp), "opening set changed by the round trip");
            consumed_all!(buf, b);
            kani::cover!(true);
            forget((cd, os, r));
        }
    };
}

fn rt_merkle_proof<C: Cfg>(s: usize) {
    let p = any_merkle_proof::<C>(s);
    let mut buf: Vec<u8> = Vec::with_capacity(128);
    buf.write_merkle_proof(&p).unwrap();
    assert!(buf.len() == 1 + s * C::H);
    let mut b = Buffer::new(&buf);
    let r = b.read_merkle_proof::<F, HasherOf<C>>().unwrap();
    assert!(same_merkle_proof::<C>(&r, &p, s), "merkle proof changed by the round trip");
    consumed_all!(buf, b);
    kani::cover!(true);
    forget((p, r));
}

fn rt_fri_query_step<C: Cfg>(arity: usize, compressed: bool, s: usize) {
    let n = arity - compressed as usize;
    let st = FriQueryStep::<F, HasherOf<C>, 2> { evals: any_fe_vec(n), merkle_proof: any_merkle_proof::<C>(s) };
    let mut buf: Vec<u8> = Vec::with_capacity(192);
    buf.write_fri_query_step::<F, C, 2>(&st).unwrap();
    assert!(buf.len() == 16 * n + 1 + s * C::H);
    let mut b = Buffer::new(&buf);
    let r = b.read_fri_query_step::<F, C, 2>(arity, compressed).unwrap();
    assert!(same_fe_vec(&r.evals, &st.evals, n), "evals changed by the round trip");
    assert!(same_merkle_proof::<C>(&r.merkle_proof, &st.merkle_proof, s), "merkle proof changed by the round trip");
    consumed_all!(buf, b);
    kani::cover!(true);
    forget((st, r));
}

fn rt_fri_initial_proof<C: Cfg>(s: usize) {
    let cd = tiny(0);
    let p = any_initial_proof::<C>(s);
    let mut buf: Vec<u8> = Vec::with_capacity(256);
    buf.write_fri_initial_proof::<F, C, 2>(&p).unwrap();
    assert!(buf.len() == initial_proof_len(C::H, s));
    let mut b = Buffer::new(&buf);
    let r = b.read_fri_initial_proof::<F, C, 2>(&cd).unwrap();
    assert!(same_initial_proof::<C>(&r, &p, s), "initial tree proof changed by the round trip");
    consumed_all!(buf, b);
    kani::cover!(true);
    forget((cd, p, r));
}

fn rt_fri_proof<C: Cfg>(s: usize) {
    let cd = tiny(0);
    let p = any_fri_proof::<C>(s);
    let mut buf: Vec<u8> = Vec::with_capacity(320);
    buf.write_fri_proof::<F, C, 2>(&p).unwrap();
    assert!(buf.len() == fri_proof_len(C::H, s));
    let mut b = Buffer::new(&buf);
    let r = b.read_fri_proof::<F, C, 2>(&cd).unwrap();
    assert!(same_fri_proof::<C>(&r, &p, s), "FRI proof changed by the round trip");
    consumed_all!(buf, b);
    kani::cover!(true);
    forget((cd, p, r));
}

fn rt_proof_with_pis<C: Cfg>(s: usize, pis: usize) {
    let cd = tiny(0);
    let p = ProofWithPublicInputs::<F, C, 2> { proof: any_proof::<C>(s), public_inputs: any_f_vec(pis) };
    let mut buf: Vec<u8> = Vec::with_capacity(640);
    buf.write_proof_with_public_inputs(&p).unwrap();
    assert!(buf.len() == proof_with_pis_len(C::H, s, pis));
    let mut b = Buffer::new(&buf);
    let r = b.read_proof_with_public_inputs::<F, C, 2>(&cd).unwrap();
    assert!(same_proof::<C>(&r.proof, &p.proof, s), "proof changed by the round trip");
    assert!(same_f_vec(&r.public_inputs, &p.public_inputs, pis), "public inputs changed by the round trip");
    consumed_all!(buf, b);
    kani::cover!(true);
    forget((cd, p, r));
}

macro_rules! harness {
    ($name:ident, $unwind:literal, $body:expr) => {
        #[kani::proof]
        #[kani::unwind($unwind)]
        #[kani::stub(plonky2_util::branch_hint, crate::noop)]
        #[kani::stub(alloc::fmt::format, crate::fmt_stub)]
        #[kani::stub(std::backtrace::Backtrace::capture, crate::backtrace_stub)]
        fn $name() {
            $body
        }
    };
}

type PC = PoseidonGoldilocksConfig;
type KC = KeccakGoldilocksConfig;


// ---------------------------------------------------------------------------------------------
// decoders on arbitrary bytes

macro_rules! dec {
    ($name:ident, $len:expr, $unwind:literal, |$b:ident, $cd:ident| $call:expr) => {
        #[kani::proof]
        #[kani::unwind($unwind)]
        #[kani::stub(plonky2_util::branch_hint, crate::noop)]
        #[kani::stub(alloc::fmt::format, crate::fmt_stub)]
        #[kani::stub(std::backtrace::Backtrace::capture, crate::backtrace_stub)]
        fn $name() {
            let $cd = tiny(0);
            let bytes: [u8; $len] = kani::any();
            let mut $b = Buffer::new(&bytes);
            let r = $call;
            if r.is_ok() {
                assert!($b.pos() <= $len, "reader position past the end of the input");
            }
            kani::cover!(r.is_err(), "some input is rejected");
            forget(($cd, r));
        }
    };
}

dec!(dec_opening_set_len128, 128, 5, |b, cd| b.read_opening_set::<F, PC, 2>(&cd));
dec!(dec_opening_set_len0, 0, 5, |b, cd| b.read_opening_set::<F, PC, 2>(&cd));
dec!(dec_merkle_proof_k_len0, 0, 36, |b, cd| b.read_merkle_proof::<F, HasherOf<KC>>());
dec!(dec_merkle_proof_k_len1, 1, 36, |b, cd| b.read_merkle_proof::<F, HasherOf<KC>>());
dec!(dec_merkle_proof_p_len1, 1, 36, |b, cd| b.read_merkle_proof::<F, HasherOf<PC>>());

// ---------------------------------------------------------------------------------------------
// `from_bytes` of whole proofs on SHORT arbitrary inputs (0, 1, 7, 8, 9 bytes): the first Merkle cap
// cannot be read; Err (through anyhow), no panic.

macro_rules! short_block {
    ($ty:ty, $len:literal, $cd:ident) => {{
        let bytes: [u8; $len] = kani::any();
        let r = <$ty>::from_bytes(bytes.to_vec(), &$cd);
        assert!(r.is_err(), "from_bytes accepted an input shorter than one Merkle cap");
        forget(r);
    }};
}

macro_rules! dec_short {
    ($name:ident, $ty:ty) => {
        #[kani::proof]
        #[kani::unwind(36)]
        #[kani::stub(plonky2_util::branch_hint, crate::noop)]
        #[kani::stub(alloc::fmt::format, crate::fmt_stub)]
        #[kani::stub(std::backtrace::Backtrace::capture, crate::backtrace_stub)]
        fn $name() {
            let cd = tiny(0);
            short_block!($ty, 0, cd);
            short_block!($ty, 1, cd);
            short_block!($ty, 7, cd);
            short_block!($ty, 8, cd);
            short_block!($ty, 9, cd);
            kani::cover!(true);
            forget(cd);
        }
    };
}
dec_short!(dec_proof_from_bytes_short_p, ProofWithPublicInputs<F, PC, 2>);
