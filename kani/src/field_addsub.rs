//! Family "field_addsub" (property C14, Ob14.1 - Kani second opinion to engine M):
//! /repo/field/src/goldilocks_field.rs  Add, Sub, Neg, add_canonical_u64, sub_canonical_u64,
//! to_canonical_u64, from_noncanonical_i64 - exact for *all* operand representations (incl.
//! non-canonical u64 >= p), against u128/i128 arithmetic written here.  The compiled code is
//! executed, including the real `plonky2_util::assume` (its `debug_assert!` is checked) and the
//! dev-profile overflow checks (`sum += EPSILON`, `diff -= EPSILON`, `res_wrapped + EPSILON*carry`).
//!
//! `%` is only ever applied to sums/differences (cheap for the SAT back end), never to products.
use plonky2_field::goldilocks_field::GoldilocksField as F;
use plonky2_field::types::{Field, Field64, PrimeField64};

const P: u64 = 0xFFFF_FFFF_0000_0001;
const P128: u128 = P as u128;

/// Canonical value of a raw representative.
fn canon(x: u64) -> u128 {
    (x as u128) % P128
}

#[kani::proof]
#[kani::stub(plonky2_util::branch_hint, crate::noop)]
fn add_all() {
    let (a, b): (u64, u64) = (kani::any(), kani::any());
    let r = F(a) + F(b);
    assert!(canon(r.0) == (a as u128 + b as u128) % P128, "Add: wrong residue");
    // the double-overflow branch (both operands > p) is inside the quantified range
    kani::cover!(a > P && b > P && a.checked_add(b).is_none(), "double overflow case reachable");
}

#[kani::proof]
#[kani::stub(plonky2_util::branch_hint, crate::noop)]
fn add_assign_all() {
    let (a, b): (u64, u64) = (kani::any(), kani::any());
    let mut r = F(a);
    r += F(b);
    assert!(canon(r.0) == (a as u128 + b as u128) % P128, "AddAssign: wrong residue");
    kani::cover!(a > P && b > P);
}

#[kani::proof]
#[kani::stub(plonky2_util::branch_hint, crate::noop)]
fn sub_all() {
    let (a, b): (u64, u64) = (kani::any(), kani::any());
    let r = F(a) - F(b);
    // a - b + 2p > 0 since b < 2^64 < 2p
    assert!(canon(r.0) == (a as u128 + 2 * P128 - b as u128) % P128, "Sub: wrong residue");
    kani::cover!(a < 0xFFFF_FFFE && b > P, "double underflow case reachable");
}

#[kani::proof]
#[kani::stub(plonky2_util::branch_hint, crate::noop)]
fn sub_assign_all() {
    let (a, b): (u64, u64) = (kani::any(), kani::any());
    let mut r = F(a);
    r -= F(b);
    assert!(canon(r.0) == (a as u128 + 2 * P128 - b as u128) % P128, "SubAssign: wrong residue");
    kani::cover!(a < 0xFFFF_FFFE && b > P);
}

#[kani::proof]
#[kani::stub(plonky2_util::branch_hint, crate::noop)]
fn neg_all() {
    let a: u64 = kani::any();
    let r = -F(a);
    assert!(canon(r.0) == (2 * P128 - a as u128) % P128, "Neg: wrong residue");
    assert!(r.0 < P, "Neg: result not canonical");
    kani::cover!(a >= P, "non-canonical operand reachable");
}

#[kani::proof]
fn to_canonical_all() {
    let a: u64 = kani::any();
    let c = F(a).to_canonical_u64();
    assert!(c < P);
    assert!(c as u128 == canon(a), "to_canonical_u64: wrong residue");
    assert!(F(a).to_noncanonical_u64() == a);
    kani::cover!(a >= P);
}

/// `add_canonical_u64(rhs)`: documented precondition rhs < p; lhs arbitrary.
#[kani::proof]
fn add_canonical_u64_all() {
    let (a, b): (u64, u64) = (kani::any(), kani::any());
    kani::assume(b < P);
    let r = unsafe { F(a).add_canonical_u64(b) };
    assert!(canon(r.0) == (a as u128 + b as u128) % P128, "add_canonical_u64: wrong residue");
    kani::cover!(a.checked_add(b).is_none(), "carry case reachable");
}

#[kani::proof]
fn sub_canonical_u64_all() {
    let (a, b): (u64, u64) = (kani::any(), kani::any());
    kani::assume(b < P);
    let r = unsafe { F(a).sub_canonical_u64(b) };
    assert!(canon(r.0) == (a as u128 + P128 - b as u128) % P128, "sub_canonical_u64: wrong residue");
    kani::cover!(a < b, "borrow case reachable");
}

#[kani::proof]
fn from_noncanonical_i64_all() {
    let n: i64 = kani::any();
    // includes the debug_assert!(n < ORDER) of from_canonical_u64
    let r = F::from_noncanonical_i64(n);
    let want = (n as i128).rem_euclid(P as i128);
    assert!(r.0 < P, "from_noncanonical_i64: result not canonical");
    assert!(r.0 as i128 == want, "from_noncanonical_i64: wrong residue");
    kani::cover!(n == i64::MIN);
}

/// Equality / zero test are on canonical forms.
#[kani::proof]
fn eq_is_canonical_eq() {
    let (a, b): (u64, u64) = (kani::any(), kani::any());
    assert!((F(a) == F(b)) == (canon(a) == canon(b)));
    assert!(F(a).is_zero() == (canon(a) == 0));
    kani::cover!(a != b && F(a) == F(b), "distinct representations of one element");
}

// ---------------------------------------------------------------------------------------------
// thorough tier: the 128-bit reduction (engine M is primary for this; measured 322 s in the design
// probe).  Needs the inline-asm stub.  Spec without division:
//   n = hh*2^96 + hl*2^64 + lo,  2^64 = 2^32 - 1 = EPS (mod p),  2^96 = -1 (mod p)
//   => n = lo + hl*EPS - hh (mod p);  v = that + p  lies in [0, 4p)
#[kani::proof]
#[kani::stub(plonky2_util::branch_hint, crate::noop)]
#[kani::stub(plonky2_field::goldilocks_field::add_no_canonicalize_trashing_input, crate::add_no_canonicalize_model)]
fn reduce128_linear_spec() {
    const EPS: u128 = 0xFFFF_FFFF;
    let n: u128 = kani::any();
    let r = F::from_noncanonical_u128(n).to_canonical_u64() as u128;
    let lo = n & 0xFFFF_FFFF_FFFF_FFFF;
    let hl = (n >> 64) & EPS;
    let hh = n >> 96;
    let v = lo + hl * EPS + P128 - hh;
    assert!(v == r || v == r + P128 || v == r + 2 * P128 || v == r + 3 * P128, "reduce128: wrong residue");
    kani::cover!(hh > lo, "borrow case of reduce128 reachable");
}
