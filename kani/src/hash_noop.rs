//! Family "hash_noop" (property C12): the default `Hasher::hash_or_noop` (plonk/config.rs), which
//! decides whether a Merkle leaf is used verbatim as a digest or hashed. Checked for toy hashers
//! with digest sizes 25 (as `KeccakHash<25>`: not a multiple of 8) and 32 bytes whose
//! `hash_no_pad` returns a marker, so that only the generic default method is exercised:
//!   * leaves with `8 * width <= HASH_SIZE` are copied verbatim (little-endian canonical limbs,
//!     zero padded) - injectively;
//!   * every wider leaf goes through `hash_no_pad`.
use plonky2::field::goldilocks_field::GoldilocksField as F;
use plonky2::field::types::Field;
use plonky2::hash::hash_types::BytesHash;
use plonky2::hash::keccak::KeccakPermutation;
use plonky2::plonk::config::Hasher;

const P: u64 = 0xFFFF_FFFF_0000_0001;
const MARK: u8 = 0xAB;

macro_rules! toy {
    ($name:ident, $n:literal) => {
        #[derive(Copy, Clone, Debug, Eq, PartialEq)]
        struct $name;
        impl Hasher<F> for $name {
            const HASH_SIZE: usize = $n;
            type Hash = BytesHash<$n>;
            type Permutation = KeccakPermutation<F>;
            fn hash_no_pad(_input: &[F]) -> Self::Hash {
                BytesHash([MARK; $n])
            }
            fn two_to_one(left: Self::Hash, _right: Self::Hash) -> Self::Hash {
                left
            }
        }
    };
}
toy!(Toy25, 25);
toy!(Toy32, 32);

fn any_canonical() -> F {
    let x: u64 = kani::any();
    kani::assume(x < P);
    F::from_canonical_u64(x)
}

macro_rules! noop_harness {
    ($fname:ident, $hasher:ident, $n:literal, $width:literal) => {
        #[kani::proof]
        #[kani::unwind(40)]
        #[kani::stub(plonky2_util::branch_hint, crate::noop)]
        fn $fname() {
            let mut leaf: [F; $width] = [F::ZERO; $width];
            let mut raw: [u64; $width] = [0; $width];
            for i in 0..$width {
                let x: u64 = kani::any();
                kani::assume(x < P);
                raw[i] = x;
                leaf[i] = F::from_canonical_u64(x);
            }
            let out = <$hasher as Hasher<F>>::hash_or_noop(&leaf);
            if $width * 8 <= $n {
                // verbatim: byte k of the digest is byte k%8 of limb k/8, the rest zero
                let k: usize = kani::any();
                kani::assume(k < $n);
                let want = if k / 8 < $width { raw[k / 8].to_le_bytes()[k % 8] } else { 0 };
                assert!(out.0[k] == want, "no-op leaf digest is not the verbatim leaf");
            } else {
                let k: usize = kani::any();
                kani::assume(k < $n);
                assert!(out.0[k] == MARK, "a leaf wider than the digest was not hashed");
            }
            kani::cover!(true);
        }
    };
}

noop_harness!(noop25_w0, Toy25, 25, 0);
noop_harness!(noop25_w1, Toy25, 25, 1);
noop_harness!(noop25_w3, Toy25, 25, 3);
noop_harness!(noop25_w4, Toy25, 25, 4);
noop_harness!(noop25_w5, Toy25, 25, 5);
noop_harness!(noop32_w3, Toy32, 32, 3);
noop_harness!(noop32_w4, Toy32, 32, 4);
noop_harness!(noop32_w5, Toy32, 32, 5);
