//! Family "codec" (property C17, Ob17.1): plonky2/src/util/serialization/mod.rs
//! `Write for Vec<u8>` / `Read for Buffer`: for each primitive pair, `write_X(v)` followed by
//! `read_X()` returns `v` and consumes exactly the bytes written - for all values `v`
//! (container lengths concrete, contents symbolic).
use plonky2::field::extension::quadratic::QuadraticExtension;
use plonky2::field::extension::FieldExtension;
use plonky2::field::goldilocks_field::GoldilocksField as F;
use plonky2::fri::reduction_strategies::FriReductionStrategy;
use plonky2::fri::{FriConfig, FriParams};
use plonky2::hash::hash_types::HashOut;
use plonky2::hash::merkle_tree::MerkleCap;
use plonky2::hash::poseidon::PoseidonHash;
use plonky2::iop::ext_target::ExtensionTarget;
use plonky2::iop::target::{BoolTarget, Target};
use plonky2::plonk::circuit_data::CircuitConfig;
use plonky2::util::serialization::{Buffer, Read, Write};

const P: u64 = 0xFFFF_FFFF_0000_0001;
/// Output buffers are pre-allocated: growing a `Vec<u8>` through `realloc` under CBMC is very
/// expensive and is std's code, not plonky2's.  For the same reason every harness writes a byte
/// string of *concrete* length (enum variants are fixed per harness, never symbolic).
const CAP: usize = 160;

fn any_wire() -> Target {
    Target::wire(kani::any(), kani::any())
}

fn any_virtual() -> Target {
    Target::VirtualTarget { index: kani::any() }
}

fn any_fri_config(reduction_strategy: FriReductionStrategy) -> FriConfig {
    FriConfig {
        rate_bits: kani::any(),
        cap_height: kani::any(),
        proof_of_work_bits: kani::any(),
        reduction_strategy,
        num_query_rounds: kani::any(),
    }
}

/// `w` wrote `buf`; `b` (a reader over `buf`) must have consumed all of it.
macro_rules! consumed_all {
    ($buf:expr, $b:expr) => {
        assert!($b.pos() == $buf.len(), "reader did not consume exactly the written bytes");
    };
}

#[kani::proof]
#[kani::unwind(10)]
fn rt_bool_u8_u16_u32() {
    let (x0, x1, x2, x3): (bool, u8, u16, u32) = (kani::any(), kani::any(), kani::any(), kani::any());
    let mut buf: Vec<u8> = Vec::with_capacity(CAP);
    buf.write_bool(x0).unwrap();
    assert!(buf.len() == 1);
    buf.write_u8(x1).unwrap();
    assert!(buf.len() == 2);
    buf.write_u16(x2).unwrap();
    assert!(buf.len() == 4);
    buf.write_u32(x3).unwrap();
    assert!(buf.len() == 8);
    let mut b = Buffer::new(&buf);
    assert!(b.read_bool().unwrap() == x0);
    assert!(b.pos() == 1);
    assert!(b.read_u8().unwrap() == x1);
    assert!(b.pos() == 2);
    assert!(b.read_u16().unwrap() == x2);
    assert!(b.pos() == 4);
    assert!(b.read_u32().unwrap() == x3);
    consumed_all!(buf, b);
    kani::cover!(x0 && x3 == u32::MAX);
}

#[kani::proof]
#[kani::unwind(10)]
fn rt_usize() {
    let x: usize = kani::any();
    let mut buf: Vec<u8> = Vec::with_capacity(CAP);
    buf.write_usize(x).unwrap();
    assert!(buf.len() == 8);
    let mut b = Buffer::new(&buf);
    assert!(b.read_usize().unwrap() == x);
    consumed_all!(buf, b);
    kani::cover!(x > u32::MAX as usize, "a value that does not fit 32 bits");
}

macro_rules! rt_usize_vec {
    ($name:ident, $len:literal) => {
        #[kani::proof]
        #[kani::unwind(6)]
        fn $name() {
            let v: [usize; $len] = kani::any();
            let mut buf: Vec<u8> = Vec::with_capacity(CAP);
            buf.write_usize_vec(&v).unwrap();
            assert!(buf.len() == 8 + 8 * $len);
            let mut b = Buffer::new(&buf);
            let r = b.read_usize_vec().unwrap();
            assert!(r.len() == $len);
            let i: usize = kani::any();
            if i < $len {
                assert!(r[i] == v[i]);
            }
            consumed_all!(buf, b);
            kani::cover!(true);
            core::mem::forget(r);
        }
    };
}
rt_usize_vec!(rt_usize_vec_len0, 0);
rt_usize_vec!(rt_usize_vec_len1, 1);
rt_usize_vec!(rt_usize_vec_len2, 2);

/// Any representation in, the canonical one out (write_field canonicalises).
#[kani::proof]
#[kani::unwind(10)]
#[kani::stub(plonky2_util::branch_hint, crate::noop)]
fn rt_field() {
    let x: u64 = kani::any();
    let mut buf: Vec<u8> = Vec::with_capacity(CAP);
    buf.write_field(F(x)).unwrap();
    assert!(buf.len() == 8);
    let mut b = Buffer::new(&buf);
    let r: F = b.read_field().unwrap();
    assert!(r == F(x));
    assert!(r.0 == if x >= P { x - P } else { x }, "decoded limb is the canonical value");
    consumed_all!(buf, b);
    kani::cover!(x >= P, "non-canonical input representation");
}

#[kani::proof]
#[kani::unwind(10)]
#[kani::stub(plonky2_util::branch_hint, crate::noop)]
fn rt_field_ext2() {
    let (x0, x1): (u64, u64) = (kani::any(), kani::any());
    let x = QuadraticExtension::<F>::from_basefield_array([F(x0), F(x1)]);
    let mut buf: Vec<u8> = Vec::with_capacity(CAP);
    buf.write_field_ext::<F, 2>(x).unwrap();
    assert!(buf.len() == 16);
    let mut b = Buffer::new(&buf);
    let r = b.read_field_ext::<F, 2>().unwrap();
    assert!(r == x);
    consumed_all!(buf, b);
    kani::cover!(x0 >= P && x1 == 0);
}

macro_rules! rt_target {
    ($name:ident, $mk:expr, $bytes:literal) => {
        #[kani::proof]
        #[kani::unwind(10)]
        fn $name() {
            let t: Target = $mk;
            let mut buf: Vec<u8> = Vec::with_capacity(CAP);
            buf.write_target(t).unwrap();
            assert!(buf.len() == $bytes);
            let mut b = Buffer::new(&buf);
            assert!(b.read_target().unwrap() == t);
            consumed_all!(buf, b);
            kani::cover!(true);
        }
    };
}
rt_target!(rt_target_wire, any_wire(), 17);
rt_target!(rt_target_virtual, any_virtual(), 9);

#[kani::proof]
#[kani::unwind(10)]
fn rt_target_bool_and_ext() {
    let t = BoolTarget::new_unsafe(any_wire());
    let e = ExtensionTarget::<2>([any_virtual(), any_wire()]);
    let mut buf: Vec<u8> = Vec::with_capacity(CAP);
    buf.write_target_bool(t).unwrap();
    buf.write_target_ext::<2>(e).unwrap();
    assert!(buf.len() == 17 + 9 + 17);
    let mut b = Buffer::new(&buf);
    assert!(b.read_target_bool().unwrap() == t);
    assert!(b.read_target_ext::<2>().unwrap() == e);
    consumed_all!(buf, b);
    kani::cover!(true);
}

// write_target_vec / read_target_vec (len 0 and 2) are NOT covered: the reader's
// `(0..length).map(..).collect::<Result<Vec<_>, _>>()` did not finish within 200 s under CBMC.

fn any_hash() -> HashOut<F> {
    let e: [u64; 4] = kani::any();
    HashOut { elements: [F(e[0]), F(e[1]), F(e[2]), F(e[3])] }
}

/// HashOut <-> 32 bytes (to_bytes: 32-iteration flat_map; from_bytes: 4 chunks).
#[kani::proof]
#[kani::unwind(36)]
#[kani::stub(plonky2_util::branch_hint, crate::noop)]
fn rt_hash() {
    let h = any_hash();
    let mut buf: Vec<u8> = Vec::with_capacity(CAP);
    buf.write_hash::<F, PoseidonHash>(h).unwrap();
    assert!(buf.len() == 32);
    let mut b = Buffer::new(&buf);
    let r = b.read_hash::<F, PoseidonHash>().unwrap();
    let i: usize = kani::any();
    if i < 4 {
        assert!(r.elements[i] == h.elements[i]);
        assert!(r.elements[i].0 < P, "decoded limbs are canonical");
    }
    consumed_all!(buf, b);
    kani::cover!(h.elements[3].0 >= P);
}

macro_rules! rt_merkle_cap {
    ($name:ident, $h:literal, $n:literal) => {
        #[kani::proof]
        #[kani::unwind(36)]
        #[kani::stub(plonky2_util::branch_hint, crate::noop)]
        fn $name() {
            let mut v = Vec::with_capacity($n);
            let mut j = 0;
            while j < $n {
                v.push(any_hash());
                j += 1;
            }
            let cap = MerkleCap::<F, PoseidonHash>(v);
            let mut buf: Vec<u8> = Vec::with_capacity(CAP);
            buf.write_merkle_cap(&cap).unwrap();
            assert!(buf.len() == 32 * $n);
            let mut b = Buffer::new(&buf);
            let r = b.read_merkle_cap::<F, PoseidonHash>($h).unwrap();
            assert!(r.0.len() == $n);
            let (i, k): (usize, usize) = (kani::any(), kani::any());
            if i < $n && k < 4 {
                assert!(r.0[i].elements[k] == cap.0[i].elements[k]);
            }
            consumed_all!(buf, b);
            kani::cover!(true);
            core::mem::forget((r, cap));
        }
    };
}
rt_merkle_cap!(rt_merkle_cap_h0, 0, 1);

macro_rules! rt_strategy {
    ($name:ident, $mk:expr, $bytes:literal) => {
        #[kani::proof]
        #[kani::unwind(10)]
        fn $name() {
            let s: FriReductionStrategy = $mk;
            let mut buf: Vec<u8> = Vec::with_capacity(CAP);
            buf.write_fri_reduction_strategy(&s).unwrap();
            assert!(buf.len() == $bytes);
            let mut b = Buffer::new(&buf);
            let r = b.read_fri_reduction_strategy().unwrap();
            assert!(r == s);
            consumed_all!(buf, b);
            kani::cover!(true);
        }
    };
}
rt_strategy!(rt_fri_reduction_strategy_constant, FriReductionStrategy::ConstantArityBits(kani::any(), kani::any()), 17);
rt_strategy!(rt_fri_reduction_strategy_minsize_none, FriReductionStrategy::MinSize(None), 2);
rt_strategy!(rt_fri_reduction_strategy_minsize_some, FriReductionStrategy::MinSize(Some(kani::any())), 10);

#[kani::proof]
#[kani::unwind(6)]
fn rt_fri_reduction_strategy_fixed2() {
    let v: [usize; 2] = kani::any();
    let s = FriReductionStrategy::Fixed(v.to_vec());
    let mut buf: Vec<u8> = Vec::with_capacity(CAP);
    buf.write_fri_reduction_strategy(&s).unwrap();
    assert!(buf.len() == 1 + 8 + 16);
    let mut b = Buffer::new(&buf);
    let r = b.read_fri_reduction_strategy().unwrap();
    match &r {
        FriReductionStrategy::Fixed(w) => assert!(w.len() == 2 && w[0] == v[0] && w[1] == v[1]),
        _ => assert!(false, "variant changed"),
    }
    consumed_all!(buf, b);
    kani::cover!(true);
    core::mem::forget((r, s));
}

fn same_fri_config(a: &FriConfig, b: &FriConfig) -> bool {
    a.rate_bits == b.rate_bits
        && a.cap_height == b.cap_height
        && a.proof_of_work_bits == b.proof_of_work_bits
        && a.num_query_rounds == b.num_query_rounds
        && a.reduction_strategy == b.reduction_strategy
}

#[kani::proof]
#[kani::unwind(10)]
fn rt_fri_config() {
    let c = any_fri_config(FriReductionStrategy::ConstantArityBits(kani::any(), kani::any()));
    let mut buf: Vec<u8> = Vec::with_capacity(CAP);
    buf.write_fri_config(&c).unwrap();
    let mut b = Buffer::new(&buf);
    let r = b.read_fri_config().unwrap();
    assert!(same_fri_config(&r, &c));
    consumed_all!(buf, b);
    kani::cover!(c.proof_of_work_bits == 16 && c.rate_bits == 3);
}

#[kani::proof]
#[kani::unwind(6)]
fn rt_fri_params() {
    let v: [usize; 2] = kani::any();
    let p = FriParams {
        config: any_fri_config(FriReductionStrategy::MinSize(Some(kani::any()))),
        hiding: kani::any(),
        degree_bits: kani::any(),
        reduction_arity_bits: v.to_vec(),
    };
    let mut buf: Vec<u8> = Vec::with_capacity(CAP);
    buf.write_fri_params(&p).unwrap();
    let mut b = Buffer::new(&buf);
    let r = b.read_fri_params().unwrap();
    assert!(same_fri_config(&r.config, &p.config));
    assert!(r.hiding == p.hiding && r.degree_bits == p.degree_bits);
    assert!(r.reduction_arity_bits.len() == 2 && r.reduction_arity_bits[0] == v[0] && r.reduction_arity_bits[1] == v[1]);
    consumed_all!(buf, b);
    kani::cover!(p.hiding);
    core::mem::forget((r, p));
}

#[kani::proof]
#[kani::unwind(10)]
fn rt_circuit_config() {
    let c = CircuitConfig {
        num_wires: kani::any(),
        num_routed_wires: kani::any(),
        num_constants: kani::any(),
        use_base_arithmetic_gate: kani::any(),
        security_bits: kani::any(),
        num_challenges: kani::any(),
        zero_knowledge: kani::any(),
        max_quotient_degree_factor: kani::any(),
        fri_config: any_fri_config(FriReductionStrategy::ConstantArityBits(kani::any(), kani::any())),
    };
    let mut buf: Vec<u8> = Vec::with_capacity(CAP);
    buf.write_circuit_config(&c).unwrap();
    let mut b = Buffer::new(&buf);
    let r = b.read_circuit_config().unwrap();
    assert!(r.num_wires == c.num_wires && r.num_routed_wires == c.num_routed_wires);
    assert!(r.num_constants == c.num_constants && r.security_bits == c.security_bits);
    assert!(r.num_challenges == c.num_challenges && r.max_quotient_degree_factor == c.max_quotient_degree_factor);
    assert!(r.use_base_arithmetic_gate == c.use_base_arithmetic_gate && r.zero_knowledge == c.zero_knowledge);
    assert!(same_fri_config(&r.fri_config, &c.fri_config));
    consumed_all!(buf, b);
    kani::cover!(c.zero_knowledge && !c.use_base_arithmetic_gate);
}
