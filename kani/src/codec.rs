//! placeholder
