//! Family "util_perm" (property C15, obligation Ob15.1): /repo/util/src/lib.rs
//!
//!   reverse_index_bits, reverse_index_bits_in_place (small path, both sides of the `lb_n <= 6`
//!   split; the chunked path / transpose_in_place_square is out of reach, see below),
//!   log2_ceil, log2_strict, bits_u64, log_floor.
//!
//! Oracle: the mathematical definition written here (`bitrev`, power tables), no reference
//! implementation from /repo.
use plonky2_util::*;

/// `bits`-bit reversal of `i` (spec).  `bits == 0` is special-cased because `>> 64` is undefined.
fn bitrev(i: usize, bits: usize) -> usize {
    if bits == 0 {
        0
    } else {
        i.reverse_bits() >> (usize::BITS as usize - bits)
    }
}

// ---------------------------------------------------------------------------------------------
// reverse_index_bits / reverse_index_bits_in_place, T = u8, n = 2^k.
//
// All n bytes are symbolic, the inspected position i is symbolic: one run decides
// "for all contents, for all positions, out[i] == in[bitrev_k(i)]".  Kani's built-in checks decide
// that no `get_unchecked_mut`/`swap` leaves the slice.
//
// Unwind: the longest loop is `0..n` for n <= 64 (n+1 tests), and the 64-iteration inner loop for
// n > 64 (outer loop n/64 <= 4 iterations) -> max(n, 64) + 2.
macro_rules! rib {
    ($inplace:ident, $copy:ident, $k:literal, $n:literal, $unwind:literal) => {
        #[kani::proof]
        #[kani::unwind($unwind)]
        fn $inplace() {
            let a: [u8; $n] = kani::any();
            let mut b = a;
            reverse_index_bits_in_place(&mut b[..]);
            let i: usize = kani::any();
            kani::assume(i < $n);
            assert!(b[i] == a[bitrev(i, $k)], "in-place bit reversal: out[i] != in[bitrev(i)]");
            kani::cover!(i == $n - 1, "last position reachable");
        }

        #[kani::proof]
        #[kani::unwind($unwind)]
        fn $copy() {
            let a: [u8; $n] = kani::any();
            let out = reverse_index_bits(&a[..]);
            assert!(out.len() == $n, "reverse_index_bits: wrong output length");
            let i: usize = kani::any();
            kani::assume(i < $n);
            assert!(out[i] == a[bitrev(i, $k)], "bit reversal: out[i] != in[bitrev(i)]");
            kani::cover!(i == $n - 1, "last position reachable");
        }
    };
}

rib!(rib_in_place_n1, rib_copy_n1, 0, 1, 3);
rib!(rib_in_place_n2, rib_copy_n2, 1, 2, 4);
rib!(rib_in_place_n4, rib_copy_n4, 2, 4, 6);
rib!(rib_in_place_n8, rib_copy_n8, 3, 8, 10);
rib!(rib_in_place_n16, rib_copy_n16, 4, 16, 18);
rib!(rib_in_place_n32, rib_copy_n32, 5, 32, 34);
rib!(rib_in_place_n64, rib_copy_n64, 6, 64, 66);
rib!(rib_in_place_n128, rib_copy_n128, 7, 128, 66);
rib!(rib_in_place_n256, rib_copy_n256, 8, 256, 66);

// The chunked path of reverse_index_bits_in_place (`size_of::<T>() << lb_n > 2^16`, with
// transpose_in_place_square) is NOT covered here: it needs an array of more than 64 KiB; harnesses
// with 16 x 4104-byte, 32 x 2056-byte and 256 x 264-byte elements (one symbolic tag each, unwind up to
// 2060 for core's 8-byte swap loop) all ran out of memory at 12 GB in CBMC's propositional reduction.

// ---------------------------------------------------------------------------------------------
// Integer helpers, all arguments.

#[kani::proof]
fn log2_ceil_all() {
    let n: usize = kani::any();
    let c = log2_ceil(n);
    assert!(c <= 64);
    if n <= 1 {
        assert!(c == 0);
    } else {
        // c = ceil(log2 n):  2^(c-1) < n <= 2^c   (2^64 does not fit: c == 64 means n > 2^63)
        assert!(c >= 1);
        assert!((1u128 << (c - 1)) < n as u128);
        assert!((1u128 << c) >= n as u128);
    }
    kani::cover!(c == 64);
}

#[kani::proof]
fn log2_strict_pow2() {
    // For every power of two: exact logarithm, no panic.
    let k: u32 = kani::any();
    kani::assume(k < usize::BITS);
    let n = 1usize << k;
    assert!(log2_strict(n) == k as usize);
    kani::cover!(k == 63);
}

/// `log2_strict` panics on every non-power-of-two (incl. 0).  Kani cannot catch panics, so this is
/// split in two facts the engine checks together: (1) `should_panic`: the run is SUCCESSFUL only if
/// a panic is reachable and nothing but panics fails; (2) the cover after the call - "log2_strict
/// returned for a non-power-of-two" - must be UNSATISFIABLE (the engine is told to expect that).
#[kani::proof]
#[kani::should_panic]
fn log2_strict_rejects_non_pow2() {
    let n: usize = kani::any();
    kani::assume(!n.is_power_of_two());
    let _ = log2_strict(n);
    // Reached only if log2_strict returned for a non-power of two.
    kani::cover!(true, "log2_strict returned on a non-power-of-two");
}

#[kani::proof]
fn bits_u64_all() {
    let n: u64 = kani::any();
    let b = bits_u64(n);
    assert!(b <= 64);
    if n == 0 {
        assert!(b == 0);
    } else {
        // b = position of the highest set bit + 1:  2^(b-1) <= n < 2^b
        assert!((1u128 << (b - 1)) <= n as u128);
        assert!((n as u128) < (1u128 << b));
    }
    kani::cover!(b == 64);
}

// log_floor(n, base) for all n >= 1 and a concrete base.  Spec via a compile-time power table
// (u128, no overflow): POW[i] <= n < POW[i+1].  The loop runs floor(log_base(2^64)) + 1 <= 65
// times.
const fn pow_table(base: u64) -> [u128; 66] {
    let mut t = [0u128; 66];
    let mut i = 0;
    let mut cur: u128 = 1;
    while i < 66 {
        t[i] = cur;
        // saturate far above 2^64 so that the table stays monotone and never overflows
        cur = if cur > (1u128 << 64) { cur } else { cur * base as u128 };
        i += 1;
    }
    t
}

macro_rules! log_floor_base {
    ($name:ident, $base:expr) => {
        #[kani::proof]
        #[kani::unwind(67)]
        fn $name() {
            const POW: [u128; 66] = pow_table($base);
            let n: u64 = kani::any();
            kani::assume(n > 0);
            let i = log_floor(n, $base);
            assert!(i <= 64);
            assert!(POW[i] <= n as u128, "base^i <= n");
            assert!(POW[i + 1] > n as u128, "n < base^(i+1)");
            kani::cover!(n == u64::MAX);
        }
    };
}

log_floor_base!(log_floor_base2, 2);
log_floor_base!(log_floor_base3, 3);
log_floor_base!(log_floor_base4, 4);
log_floor_base!(log_floor_base5, 5);
log_floor_base!(log_floor_base6, 6);
log_floor_base!(log_floor_base7, 7);
log_floor_base!(log_floor_base10, 10);
log_floor_base!(log_floor_base_2p32, 1u64 << 32);
log_floor_base!(log_floor_base_max, u64::MAX);
