//! Family "decoders" (property C18, Ob18.1 - primitive readers):
//! plonky2/src/util/serialization/mod.rs  `Read for Buffer` on ARBITRARY byte strings of small
//! concrete lengths: every reader returns `Ok` or `Err`, never panics / overflows / reads out of
//! bounds (Kani's checks + dev-profile debug assertions), `Ok` exactly when enough bytes are
//! present (and the tag bytes are valid), and consumes exactly the encoded size.
use plonky2::field::goldilocks_field::GoldilocksField as F;
use plonky2::hash::poseidon::PoseidonHash;
use plonky2::iop::target::Target;
use plonky2::util::serialization::{Buffer, Read};

const P: u64 = 0xFFFF_FFFF_0000_0001;

// fixed-width scalars: for a buffer of LEN arbitrary bytes, read_X is Ok iff LEN >= size, value is
// the little-endian one, position advances by size (or stays on Err).
macro_rules! dec_scalars {
    ($name:ident, $len:literal) => {
        #[kani::proof]
        #[kani::unwind(12)]
        fn $name() {
            let bytes: [u8; $len] = kani::any();
            {
                let mut b = Buffer::new(&bytes);
                match b.read_u8() {
                    Ok(x) => assert!($len >= 1 && x == bytes[0] && b.pos() == 1),
                    Err(_) => assert!($len < 1 && b.pos() == 0),
                }
            }
            {
                let mut b = Buffer::new(&bytes);
                match b.read_bool() {
                    Ok(x) => assert!($len >= 1 && bytes[0] == x as u8 && b.pos() == 1),
                    Err(_) => assert!($len < 1 || bytes[0] > 1),
                }
            }
            {
                let mut b = Buffer::new(&bytes);
                match b.read_u16() {
                    Ok(x) => assert!($len >= 2 && x.to_le_bytes()[..] == bytes[..2] && b.pos() == 2),
                    Err(_) => assert!($len < 2 && b.pos() == 0),
                }
            }
            {
                let mut b = Buffer::new(&bytes);
                match b.read_u32() {
                    Ok(x) => assert!($len >= 4 && x.to_le_bytes()[..] == bytes[..4] && b.pos() == 4),
                    Err(_) => assert!($len < 4 && b.pos() == 0),
                }
            }
            {
                let mut b = Buffer::new(&bytes);
                match b.read_usize() {
                    Ok(x) => assert!($len >= 8 && (x as u64).to_le_bytes()[..] == bytes[..8] && b.pos() == 8),
                    Err(_) => assert!($len < 8 && b.pos() == 0),
                }
            }
            kani::cover!(true);
        }
    };
}
dec_scalars!(dec_scalars_len0, 0);
dec_scalars!(dec_scalars_len1, 1);
dec_scalars!(dec_scalars_len3, 3);
dec_scalars!(dec_scalars_len4, 4);
dec_scalars!(dec_scalars_len7, 7);
dec_scalars!(dec_scalars_len9, 9);

/// read_field on 8 ARBITRARY bytes: must not panic and must yield a canonical element.
/// (DESIGN section 7 item 1: `read_field` calls `F::from_canonical_u64`, whose only validation is a
/// `debug_assert!(n < ORDER)`.)
#[kani::proof]
#[kani::unwind(12)]
fn dec_read_field_arbitrary_len8() {
    let bytes: [u8; 8] = kani::any();
    let mut b = Buffer::new(&bytes);
    let r: Result<F, _> = b.read_field();
    if let Ok(x) = r {
        assert!(x.0 < P, "read_field returned a non-canonical element");
        assert!(b.pos() == 8);
    }
    kani::cover!(r.is_ok());
}

/// read_field restricted to canonical limbs, and short buffers: Ok(limb) / Err, never a panic.
macro_rules! dec_read_field_canonical {
    ($name:ident, $len:literal) => {
        #[kani::proof]
        #[kani::unwind(12)]
        fn $name() {
            let bytes: [u8; $len] = kani::any();
            if $len >= 8 {
                let mut limb = [0u8; 8];
                limb.copy_from_slice(&bytes[..8]);
                kani::assume(u64::from_le_bytes(limb) < P);
            }
            let mut b = Buffer::new(&bytes);
            let r: Result<F, _> = b.read_field();
            match r {
                Ok(x) => assert!($len >= 8 && x.0.to_le_bytes()[..] == bytes[..8] && b.pos() == 8),
                Err(_) => assert!($len < 8 && b.pos() == 0),
            }
            kani::cover!(true);
        }
    };
}
dec_read_field_canonical!(dec_read_field_canonical_len0, 0);
dec_read_field_canonical!(dec_read_field_canonical_len7, 7);
dec_read_field_canonical!(dec_read_field_canonical_len8, 8);
dec_read_field_canonical!(dec_read_field_canonical_len12, 12);

/// read_hash (HashOut, 32 bytes) on arbitrary bytes: no panic, canonical limbs.
#[kani::proof]
#[kani::unwind(36)]
fn dec_read_hash_arbitrary_len32() {
    let bytes: [u8; 32] = kani::any();
    let mut b = Buffer::new(&bytes);
    let r = b.read_hash::<F, PoseidonHash>();
    if let Ok(h) = r {
        let i: usize = kani::any();
        if i < 4 {
            assert!(h.elements[i].0 < P, "read_hash returned a non-canonical limb");
        }
        assert!(b.pos() == 32);
    }
    kani::cover!(r.is_ok());
}

/// read_hash with canonical limbs / short input.
macro_rules! dec_read_hash_canonical {
    ($name:ident, $len:literal) => {
        #[kani::proof]
        #[kani::unwind(36)]
        fn $name() {
            let bytes: [u8; $len] = kani::any();
            if $len >= 32 {
                let mut k = 0;
                while k < 4 {
                    let mut limb = [0u8; 8];
                    limb.copy_from_slice(&bytes[8 * k..8 * k + 8]);
                    kani::assume(u64::from_le_bytes(limb) < P);
                    k += 1;
                }
            }
            let mut b = Buffer::new(&bytes);
            let r = b.read_hash::<F, PoseidonHash>();
            match r {
                Ok(h) => {
                    assert!($len >= 32 && b.pos() == 32);
                    let i: usize = kani::any();
                    if i < 4 {
                        assert!(h.elements[i].0.to_le_bytes()[..] == bytes[8 * i..8 * i + 8]);
                    }
                }
                Err(_) => assert!($len < 32 && b.pos() == 0),
            }
            kani::cover!(true);
        }
    };
}
dec_read_hash_canonical!(dec_read_hash_canonical_len31, 31);
dec_read_hash_canonical!(dec_read_hash_canonical_len32, 32);

/// read_target on LEN arbitrary bytes: Ok iff tag byte valid and enough bytes; 17 / 9 bytes consumed.
macro_rules! dec_read_target {
    ($name:ident, $len:literal) => {
        #[kani::proof]
        #[kani::unwind(12)]
        fn $name() {
            let bytes: [u8; $len] = kani::any();
            let mut b = Buffer::new(&bytes);
            match b.read_target() {
                Ok(Target::Wire(_)) => assert!($len >= 17 && bytes[0] == 1 && b.pos() == 17),
                Ok(Target::VirtualTarget { .. }) => assert!($len >= 9 && bytes[0] == 0 && b.pos() == 9),
                Err(_) => assert!($len == 0 || bytes[0] > 1 || (bytes[0] == 1 && $len < 17) || (bytes[0] == 0 && $len < 9)),
            }
            kani::cover!(true);
        }
    };
}
dec_read_target!(dec_read_target_len0, 0);
dec_read_target!(dec_read_target_len1, 1);
dec_read_target!(dec_read_target_len8, 8);
dec_read_target!(dec_read_target_len9, 9);
dec_read_target!(dec_read_target_len16, 16);
dec_read_target!(dec_read_target_len17, 17);

// NOTE: `read_usize_vec` with an arbitrary (unvalidated) length prefix panics with `capacity overflow`
// (Vec::with_capacity(len)). It is only reachable from circuit-data / gate decoders, not from the proof
// decoders C18 is about, so it is recorded in DESIGN.md as an observation and not checked here.

/// The same with the prefix restricted to what the input can hold: Ok iff prefix <= 1.
#[kani::proof]
#[kani::unwind(5)]
fn dec_read_usize_vec_small_prefix_len16() {
    let bytes: [u8; 16] = kani::any();
    let mut pre = [0u8; 8];
    pre.copy_from_slice(&bytes[..8]);
    let n = u64::from_le_bytes(pre);
    kani::assume(n <= 3);
    let mut b = Buffer::new(&bytes);
    let r = b.read_usize_vec();
    match &r {
        Ok(v) => assert!(n <= 1 && v.len() == n as usize && b.pos() == 8 + 8 * n as usize),
        Err(_) => assert!(n >= 2),
    }
    kani::cover!(r.is_ok() && n == 1);
    core::mem::forget(r);
}
