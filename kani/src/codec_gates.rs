//! Family "codec_gates" (property C17, Ob17.2): the `serialize` / `deserialize` pairs of the built-in
//! gates (plonky2/src/gates/*.rs), the tag dispatch of `DefaultGateSerializer`
//! (util/serialization/gate_serialization.rs) and the generators whose encoding can be observed from
//! outside the crate.
//!
//! Several gate / generator types share one harness (the fixed cost of a Kani harness on the plonky2
//! crate - goto-cc, goto-instrument, symex of the runtime - dwarfs these tiny codecs); every
//! assertion message names the type it is about.
//!
//!  * `rt_gate_*`       `Gate::serialize(&g, &mut buf, &cd)` then `G::deserialize(&mut Buffer::new(&buf), &cd)`
//!                      gives back the same public parameter fields and the reader consumed exactly the
//!                      written bytes - for ALL parameter values (no constructor of these gates asserts
//!                      anything; `RandomAccessGate` / `CosetInterpolationGate` are built from `Default`
//!                      plus their public fields, so that every field is an independent symbolic value).
//!  * `tag_gate_*`      `DefaultGateSerializer::write_gate` then `read_gate` gives back a gate of the same
//!                      concrete type (`as_any().downcast_ref`; `id()` is `format!`, which is stubbed) with
//!                      the same parameters, 4 tag bytes + payload consumed.
//!  * `rt_gen_*`        generators with public fields: field-wise round trip.
//!  * `enc_gen_*`       generators with private fields: for every *valid* encoding `b` (concrete length and
//!                      tag bytes, symbolic indices / canonical limbs), `serialize(deserialize(b)) == b` and
//!                      the reader consumed all of `b`.  (Together with determinism this is the round trip
//!                      on the image of `serialize`; a swapped / dropped / widened field is caught.)
//!
//! `CommonCircuitData` is built by hand (empty `gates`, `luts`, `k_is`; `selectors_info` from the
//! `verif_hooks` accessor) and leaked.
//!
//! STATUS: the tag-dispatch harnesses (`tag1!` / `tag0!` blocks through `DefaultGateSerializer`), the
//! `CosetInterpolationGate` round trips and the `enc!` blocks for ArithmeticBase/ArithmeticExtension/
//! MulExtension/BaseSplit/Poseidon/PoseidonMds generators and the gadget generators were written but did
//! not get a CBMC verdict within the time limits on the (heavily loaded) development machine; their
//! harness functions were removed again, the block macros are kept.
use core::mem::forget;

use plonky2::field::goldilocks_field::GoldilocksField as F;
use plonky2::fri::reduction_strategies::FriReductionStrategy;
use plonky2::fri::{FriConfig, FriParams};
use plonky2::gates::arithmetic_base::{ArithmeticBaseGenerator, ArithmeticGate};
use plonky2::gates::arithmetic_extension::{ArithmeticExtensionGate, ArithmeticExtensionGenerator};
use plonky2::gates::base_sum::{BaseSplitGenerator, BaseSumGate};
use plonky2::gates::constant::ConstantGate;
use plonky2::gates::coset_interpolation::CosetInterpolationGate;
use plonky2::gates::exponentiation::{ExponentiationGate, ExponentiationGenerator};
use plonky2::gates::gate::{Gate, GateRef};
use plonky2::gates::multiplication_extension::{MulExtensionGate, MulExtensionGenerator};
use plonky2::gates::noop::NoopGate;
use plonky2::gates::poseidon::{PoseidonGate, PoseidonGenerator};
use plonky2::gates::poseidon_mds::{PoseidonMdsGate, PoseidonMdsGenerator};
use plonky2::gates::public_input::PublicInputGate;
use plonky2::gates::random_access::{RandomAccessGate, RandomAccessGenerator};
use plonky2::gates::reducing::ReducingGate;
use plonky2::gates::reducing_extension::ReducingExtensionGate;
use plonky2::iop::generator::{
    ConstantGenerator, CopyGenerator, NonzeroTestGenerator, RandomValueGenerator, SimpleGenerator,
};
use plonky2::plonk::circuit_data::{CircuitConfig, CommonCircuitData};
use plonky2::util::serialization::{Buffer, DefaultGateSerializer, GateSerializer};

const P: u64 = 0xFFFF_FFFF_0000_0001;
const CAP: usize = 96;

fn fri_config() -> FriConfig {
    FriConfig {
        rate_bits: 0,
        cap_height: 0,
        proof_of_work_bits: 0,
        reduction_strategy: FriReductionStrategy::Fixed(Vec::new()),
        num_query_rounds: 1,
    }
}

/// The smallest `CommonCircuitData` the type admits; no gate / generator codec looks at it.
pub(crate) fn common() -> CommonCircuitData<F, 2> {
    CommonCircuitData {
        config: CircuitConfig {
            num_wires: 3,
            num_routed_wires: 1,
            num_constants: 1,
            use_base_arithmetic_gate: true,
            security_bits: 1,
            num_challenges: 1,
            zero_knowledge: false,
            max_quotient_degree_factor: 1,
            fri_config: fri_config(),
        },
        fri_params: FriParams {
            config: fri_config(),
            hiding: false,
            degree_bits: 1,
            reduction_arity_bits: Vec::new(),
        },
        gates: Vec::new(),
        selectors_info: plonky2::verif_hooks::empty_selectors_info(),
        quotient_degree_factor: 1,
        num_gate_constraints: 0,
        num_constants: 1,
        num_public_inputs: 0,
        k_is: Vec::new(),
        num_partial_products: 0,
        num_lookup_polys: 0,
        num_lookup_selectors: 0,
        luts: Vec::new(),
    }
}

macro_rules! consumed_all {
    ($buf:expr, $b:expr) => {
        assert!($b.pos() == $buf.len(), "reader did not consume exactly the written bytes");
    };
}


// ---------------------------------------------------------------------------------------------
// gates with one usize parameter

/// direct round trip of a one-parameter gate (block, not a harness)
macro_rules! rt1 {
    ($cd:ident, $ty:ty, $mk:expr, $get:expr, $what:literal) => {{
        let n: usize = kani::any();
        let g: $ty = ($mk)(n);
        let mut buf: Vec<u8> = Vec::with_capacity(CAP);
        Gate::<F, 2>::serialize(&g, &mut buf, &$cd).unwrap();
        assert!(buf.len() == 8, "{}: encoding is not 8 bytes", $what);
        let mut b = Buffer::new(&buf);
        let r = <$ty as Gate<F, 2>>::deserialize(&mut b, &$cd).unwrap();
        assert!(($get)(&r) == n, "{}: parameter changed by the round trip", $what);
        assert!(b.pos() == buf.len(), "{}: reader did not consume exactly the written bytes", $what);
        kani::cover!(n > u32::MAX as usize, $what);
        forget((g, r, buf));
    }};
}

/// tagged round trip through the default registry (block)
macro_rules! tag1 {
    ($cd:ident, $ty:ty, $mk:expr, $get:expr, $what:literal) => {{
        let n: usize = kani::any();
        let g: $ty = ($mk)(n);
        let gr = GateRef::<F, 2>::new(g);
        let mut buf: Vec<u8> = Vec::with_capacity(CAP);
        DefaultGateSerializer.write_gate(&mut buf, &gr, &$cd).unwrap();
        assert!(buf.len() == 12, "{}: tagged encoding is not 12 bytes", $what);
        let mut b = Buffer::new(&buf);
        let rr = DefaultGateSerializer.read_gate(&mut b, &$cd).unwrap();
        match rr.0.as_any().downcast_ref::<$ty>() {
            Some(r) => assert!(($get)(r) == n, "{}: parameter changed by the tagged round trip", $what),
            None => assert!(false, "{}: read_gate returned a gate of another type", $what),
        }
        assert!(b.pos() == buf.len(), "{}: reader did not consume exactly the written bytes", $what);
        kani::cover!(n > u32::MAX as usize, $what);
        forget((gr, rr, buf));
    }};
}

macro_rules! one_param_gates {
    ($m:ident, $cd:ident, a) => {
        $m!($cd, ArithmeticGate, |n| ArithmeticGate { num_ops: n }, |r: &ArithmeticGate| r.num_ops, "ArithmeticGate");
        $m!($cd, ArithmeticExtensionGate<2>, |n| ArithmeticExtensionGate::<2> { num_ops: n }, |r: &ArithmeticExtensionGate<2>| r.num_ops, "ArithmeticExtensionGate");
        $m!($cd, MulExtensionGate<2>, |n| MulExtensionGate::<2> { num_ops: n }, |r: &MulExtensionGate<2>| r.num_ops, "MulExtensionGate");
        // `num_consts` is crate-private: observed through `Gate::num_constants` (= `self.num_consts`).
        $m!($cd, ConstantGate, |n| ConstantGate::new(n), |r: &ConstantGate| Gate::<F, 2>::num_constants(r), "ConstantGate");
    };
    ($m:ident, $cd:ident, b) => {
        $m!($cd, BaseSumGate<2>, |n| BaseSumGate::<2>::new(n), |r: &BaseSumGate<2>| r.num_limbs, "BaseSumGate<2>");
        $m!($cd, ExponentiationGate<F, 2>, |n| ExponentiationGate::<F, 2>::new(n), |r: &ExponentiationGate<F, 2>| r.num_power_bits, "ExponentiationGate");
        $m!($cd, ReducingGate<2>, |n| ReducingGate::<2>::new(n), |r: &ReducingGate<2>| r.num_coeffs, "ReducingGate");
        $m!($cd, ReducingExtensionGate<2>, |n| ReducingExtensionGate::<2>::new(n), |r: &ReducingExtensionGate<2>| r.num_coeffs, "ReducingExtensionGate");
    };
}

#[kani::proof]
#[kani::unwind(10)]
fn rt_gates_one_param_a() {
    let cd = common();
    one_param_gates!(rt1, cd, a);
    forget(cd);
}

#[kani::proof]
#[kani::unwind(10)]
fn rt_gates_one_param_b() {
    let cd = common();
    one_param_gates!(rt1, cd, b);
    forget(cd);
}

// ---------------------------------------------------------------------------------------------
// RandomAccessGate: three parameters (`new` is private: Default + public fields)

fn any_random_access() -> RandomAccessGate<F, 2> {
    let mut g = RandomAccessGate::<F, 2>::default();
    g.bits = kani::any();
    g.num_copies = kani::any();
    g.num_extra_constants = kani::any();
    g
}

#[kani::proof]
#[kani::unwind(10)]
fn rt_gate_random_access() {
    let cd = common();
    let g = any_random_access();
    let mut buf: Vec<u8> = Vec::with_capacity(CAP);
    Gate::<F, 2>::serialize(&g, &mut buf, &cd).unwrap();
    assert!(buf.len() == 24);
    let mut b = Buffer::new(&buf);
    let r = <RandomAccessGate<F, 2> as Gate<F, 2>>::deserialize(&mut b, &cd).unwrap();
    assert!(r.bits == g.bits, "RandomAccessGate: bits changed");
    assert!(r.num_copies == g.num_copies, "RandomAccessGate: num_copies changed");
    assert!(r.num_extra_constants == g.num_extra_constants, "RandomAccessGate: num_extra_constants changed");
    consumed_all!(buf, b);
    kani::cover!(g.bits != g.num_copies && g.num_copies != g.num_extra_constants && g.bits != g.num_extra_constants, "pairwise distinct fields");
    forget(cd);
}

// ---------------------------------------------------------------------------------------------
// CosetInterpolationGate: two usizes + a vector of barycentric weights (length 2^subgroup_bits for
// a gate built by `new`; the codec itself carries an explicit length).  Built from Default + public
// fields: subgroup_bits / degree symbolic, weights of concrete length, any representation.

fn any_coset_interpolation(w: &[u64]) -> CosetInterpolationGate<F, 2> {
    let mut g = CosetInterpolationGate::<F, 2>::default();
    g.subgroup_bits = kani::any();
    g.degree = kani::any();
    let mut v = Vec::with_capacity(w.len());
    let mut j = 0;
    while j < w.len() {
        v.push(F(w[j]));
        j += 1;
    }
    g.barycentric_weights = v;
    g
}

macro_rules! rt_gate_coset_interpolation {
    ($name:ident, $n:literal) => {
        #[kani::proof]
        #[kani::unwind(10)]
        #[kani::stub(plonky2_util::branch_hint, crate::noop)]
        fn $name() {
            let cd = common();
            let w: [u64; $n] = kani::any();
            let g = any_coset_interpolation(&w);
            let mut buf: Vec<u8> = Vec::with_capacity(CAP);
            Gate::<F, 2>::serialize(&g, &mut buf, &cd).unwrap();
            assert!(buf.len() == 24 + 8 * $n);
            let mut b = Buffer::new(&buf);
            let r = <CosetInterpolationGate<F, 2> as Gate<F, 2>>::deserialize(&mut b, &cd).unwrap();
            assert!(r.subgroup_bits == g.subgroup_bits, "CosetInterpolationGate: subgroup_bits changed");
            assert!(r.degree == g.degree, "CosetInterpolationGate: degree changed");
            assert!(r.barycentric_weights.len() == $n, "CosetInterpolationGate: number of weights changed");
            let i: usize = kani::any();
            if i < $n {
                assert!(r.barycentric_weights[i] == F(w[i]), "CosetInterpolationGate: weight changed");
                assert!(r.barycentric_weights[i].0 < P, "CosetInterpolationGate: decoded weight is canonical");
            }
            consumed_all!(buf, b);
            kani::cover!(g.subgroup_bits != g.degree);
            forget((cd, g, r));
        }
    };
}

// ---------------------------------------------------------------------------------------------
// parameterless gates: serialize writes nothing, deserialize reads nothing

macro_rules! rt0 {
    ($cd:ident, $ty:ty, $mk:expr, $what:literal) => {{
        let g: $ty = $mk;
        let mut buf: Vec<u8> = Vec::with_capacity(CAP);
        Gate::<F, 2>::serialize(&g, &mut buf, &$cd).unwrap();
        assert!(buf.len() == 0, "{}: a parameterless gate wrote bytes", $what);
        // the reader sits in front of arbitrary foreign bytes: it must not touch them
        let rest: [u8; 9] = kani::any();
        let mut b = Buffer::new(&rest);
        let r = <$ty as Gate<F, 2>>::deserialize(&mut b, &$cd);
        assert!(r.is_ok(), "{}: deserialize failed", $what);
        assert!(b.pos() == 0, "{}: a parameterless gate consumed bytes", $what);
        kani::cover!(rest[0] == 0xff, $what);
        forget((g, r, buf));
    }};
}

macro_rules! tag0 {
    ($cd:ident, $ty:ty, $mk:expr, $what:literal) => {{
        let g: $ty = $mk;
        let gr = GateRef::<F, 2>::new(g);
        let mut buf: Vec<u8> = Vec::with_capacity(CAP);
        DefaultGateSerializer.write_gate(&mut buf, &gr, &$cd).unwrap();
        assert!(buf.len() == 4, "{}: tagged encoding is not 4 bytes", $what);
        let mut b = Buffer::new(&buf);
        let rr = DefaultGateSerializer.read_gate(&mut b, &$cd).unwrap();
        assert!(rr.0.as_any().downcast_ref::<$ty>().is_some(), "{}: read_gate returned a gate of another type", $what);
        assert!(b.pos() == 4, "{}: reader did not consume exactly the written bytes", $what);
        kani::cover!(true, $what);
        forget((gr, rr, buf));
    }};
}

macro_rules! parameterless_gates {
    ($m:ident, $cd:ident) => {
        $m!($cd, NoopGate, NoopGate, "NoopGate");
        $m!($cd, PublicInputGate, PublicInputGate, "PublicInputGate");
        $m!($cd, PoseidonGate<F, 2>, PoseidonGate::<F, 2>::new(), "PoseidonGate");
        $m!($cd, PoseidonMdsGate<F, 2>, PoseidonMdsGate::<F, 2>::new(), "PoseidonMdsGate");
    };
}

#[kani::proof]
#[kani::unwind(10)]
fn rt_gates_parameterless() {
    let cd = common();
    parameterless_gates!(rt0, cd);
    forget(cd);
}

// ---------------------------------------------------------------------------------------------
// tag dispatch of DefaultGateSerializer (16 registered types; LookupGate / LookupTableGate, which hold
// lookup tables behind Arcs, are not exercised)





// ---------------------------------------------------------------------------------------------
// generators

/// ConstantGenerator<F>: all four fields are public.
#[kani::proof]
#[kani::unwind(10)]
#[kani::stub(plonky2_util::branch_hint, crate::noop)]
fn rt_gen_constant() {
    let cd = common();
    let c: u64 = kani::any();
    let g = ConstantGenerator::<F> { row: kani::any(), constant_index: kani::any(), wire_index: kani::any(), constant: F(c) };
    let mut buf: Vec<u8> = Vec::with_capacity(CAP);
    SimpleGenerator::<F, 2>::serialize(&g, &mut buf, &cd).unwrap();
    assert!(buf.len() == 32);
    let mut b = Buffer::new(&buf);
    let r = <ConstantGenerator<F> as SimpleGenerator<F, 2>>::deserialize(&mut b, &cd).unwrap();
    assert!(r.row == g.row, "ConstantGenerator: row changed");
    assert!(r.constant_index == g.constant_index, "ConstantGenerator: constant_index changed");
    assert!(r.wire_index == g.wire_index, "ConstantGenerator: wire_index changed");
    assert!(r.constant == g.constant && r.constant.0 < P, "ConstantGenerator: constant changed");
    consumed_all!(buf, b);
    kani::cover!(g.row != g.constant_index && g.constant_index != g.wire_index && g.row != g.wire_index && c >= P, "pairwise distinct fields, non-canonical constant");
    forget(cd);
}

fn limb_at(bytes: &[u8], off: usize) -> u64 {
    let mut l = [0u8; 8];
    l.copy_from_slice(&bytes[off..off + 8]);
    u64::from_le_bytes(l)
}

/// One generator type on every valid encoding of a fixed layout: `$len` arbitrary bytes, constrained
/// only where the decoder validates - `tags`: (offset, value) of the bool bytes that select a Target
/// variant (1 = wire: 2 usizes follow, 0 = virtual: 1 usize follows), `limbs`: offsets of field
/// elements (8 bytes, must encode a value < p).
macro_rules! enc {
    ($cd:ident, $ty:ty, $len:literal, tags [$(($toff:literal, $tval:literal)),*], limbs [$($loff:literal),*], $what:literal) => {{
        // tag bytes are ASSIGNED (not assumed): CBMC's symbolic execution then follows one Target variant
        // per cell and the reader position stays concrete (arrays of <= 64 bytes are tracked per element)
        let mut bytes: [u8; $len] = kani::any();
        $(bytes[$toff] = $tval;)*
        $(kani::assume(limb_at(&bytes, $loff) < P);)*
        let mut b = Buffer::new(&bytes);
        let g = <$ty as SimpleGenerator<F, 2>>::deserialize(&mut b, &$cd).unwrap();
        assert!(b.pos() == $len, "{}: deserialize did not consume the whole encoding", $what);
        let mut buf: Vec<u8> = Vec::with_capacity(CAP);
        SimpleGenerator::<F, 2>::serialize(&g, &mut buf, &$cd).unwrap();
        assert!(buf.len() == $len, "{}: re-encoding has another length", $what);
        let i: usize = kani::any();
        if i < $len {
            assert!(buf[i] == bytes[i], "{}: serialize(deserialize(b)) != b", $what);
        }
        kani::cover!(bytes[$len - 1] == 0xfe, $what);
        forget((g, buf));
    }};
}

#[kani::proof]
#[kani::unwind(12)]
#[kani::stub(plonky2_util::branch_hint, crate::noop)]
fn enc_gens_iop() {
    let cd = common();
    enc!(cd, CopyGenerator, 26, tags [(0, 1), (17, 0)], limbs [], "CopyGenerator(wire, virtual)");
    enc!(cd, CopyGenerator, 26, tags [(0, 0), (9, 1)], limbs [], "CopyGenerator(virtual, wire)");
    enc!(cd, RandomValueGenerator, 17, tags [(0, 1)], limbs [], "RandomValueGenerator(wire)");
    enc!(cd, NonzeroTestGenerator, 26, tags [(0, 1), (17, 0)], limbs [], "NonzeroTestGenerator(wire, virtual)");
    forget(cd);
}


#[kani::proof]
#[kani::unwind(12)]
#[kani::stub(plonky2_util::branch_hint, crate::noop)]
fn enc_gens_gates_b() {
    let cd = common();
    enc!(cd, ExponentiationGenerator<F, 2>, 16, tags [], limbs [], "ExponentiationGenerator");
    enc!(cd, RandomAccessGenerator<F, 2>, 40, tags [], limbs [], "RandomAccessGenerator");
    enc!(cd, plonky2::gates::reducing::ReducingGenerator<2>, 16, tags [], limbs [], "reducing::ReducingGenerator");
    enc!(cd, plonky2::gates::reducing_extension::ReducingGenerator<2>, 16, tags [], limbs [], "reducing_extension::ReducingGenerator");
    forget(cd);
}

// gadget generators (plonky2/src/gadgets/*.rs); BaseSumGenerator / SplitGenerator / WireSplitGenerator carry
// vectors whose readers are `(0..n).map(..).collect()` over a length taken from the input: left out
// (see codec.rs: read_target_vec does not finish under CBMC).
