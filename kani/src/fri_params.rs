//! Family "fri_params" (property C05; Ob5.3, Ob5.4, and the FriParams part of Ob1.4).
//!
//!   plonky2/src/fri/verifier.rs::fri_verify_proof_of_work      (Ob5.3)
//!   plonky2/src/fri/reduction_strategies.rs::reduction_arity_bits, min_size_arity_bits*  (Ob5.4)
//!   plonky2/src/fri/mod.rs::FriConfig::fri_params, FriParams::{total_arities, lde_bits, lde_size,
//!                                                  final_poly_bits, final_poly_len}
//!
//! `fri_verify_proof_of_work` is `pub(crate)`.  Public route: `verify_fri_proof` on the *degenerate*
//! instance (no oracles, no opening batches, zero query rounds, no reduction, degree_bits = 0, a
//! one-coefficient final polynomial).  On it shape validation succeeds, every later loop runs zero
//! times, so `verify_fri_proof(..).is_ok()`  <=>  the proof-of-work check passed.
use plonky2::field::extension::quadratic::QuadraticExtension;
use plonky2::field::goldilocks_field::GoldilocksField as F;
use plonky2::field::polynomial::PolynomialCoeffs;
use plonky2::field::types::Field;
use plonky2::fri::proof::{FriChallenges, FriProof};
use plonky2::fri::reduction_strategies::FriReductionStrategy;
use plonky2::fri::structure::{FriInstanceInfo, FriOpenings};
use plonky2::fri::verifier::verify_fri_proof;
use plonky2::fri::{FriConfig, FriParams};
use plonky2::plonk::config::PoseidonGoldilocksConfig;

const P: u64 = 0xFFFF_FFFF_0000_0001;
type FE = QuadraticExtension<F>;

// ---------------------------------------------------------------------------------------------
// Ob5.3  proof of work: accepted  <=>  the canonical response has >= proof_of_work_bits leading zeros
#[kani::proof]
#[kani::unwind(4)]
#[kani::stub(plonky2_util::branch_hint, crate::noop)]
#[kani::stub(alloc::fmt::format, crate::fmt_stub)]
#[kani::stub(std::backtrace::Backtrace::capture, crate::backtrace_stub)]
fn pow_check_semantics() {
    let response: u64 = kani::any(); // any representation, incl. non-canonical
    let pow_bits: u32 = kani::any();
    kani::assume(pow_bits <= 64);
    let config = FriConfig {
        rate_bits: 0,
        cap_height: 0,
        proof_of_work_bits: pow_bits,
        reduction_strategy: FriReductionStrategy::Fixed(Vec::new()),
        num_query_rounds: 0,
    };
    let params = FriParams { config, hiding: false, degree_bits: 0, reduction_arity_bits: Vec::new() };
    let instance = FriInstanceInfo::<F, 2> { oracles: Vec::new(), batches: Vec::new() };
    let openings = FriOpenings::<F, 2> { batches: Vec::new() };
    let challenges = FriChallenges::<F, 2> {
        fri_alpha: FE::ZERO,
        fri_betas: Vec::new(),
        fri_pow_response: F(response),
        fri_query_indices: Vec::new(),
    };
    let proof = FriProof::<F, <PoseidonGoldilocksConfig as plonky2::plonk::config::GenericConfig<2>>::Hasher, 2> {
        commit_phase_merkle_caps: Vec::new(),
        query_round_proofs: Vec::new(),
        final_poly: PolynomialCoeffs::new(vec![FE::ZERO]),
        pow_witness: F::ZERO,
    };
    let res = verify_fri_proof::<F, PoseidonGoldilocksConfig, 2>(&instance, &openings, &challenges, &[], &proof, &params);
    let accepted = res.is_ok();
    let canonical = if response >= P { response - P } else { response };
    assert!(accepted == (canonical.leading_zeros() >= pow_bits), "proof-of-work acceptance != leading-zero test");
    kani::cover!(accepted && pow_bits == 40, "an accepted response with 40 pow bits exists");
    kani::cover!(!accepted && pow_bits == 1, "a rejected response exists");
    // drop glue of anyhow::Error / the nested Vecs is irrelevant and expensive
    core::mem::forget(res);
    core::mem::forget((params, instance, openings, challenges, proof));
}

// ---------------------------------------------------------------------------------------------
// Ob5.4  arity schedules

fn sum(v: &[usize]) -> usize {
    let mut s = 0;
    let mut i = 0;
    while i < v.len() {
        s += v[i];
        i += 1;
    }
    s
}

// Fixed(v) returns v, whatever the other parameters.  (Concrete lengths: a symbolic-length `to_vec`
// alone took > 120 s.)
macro_rules! arity_fixed {
    ($name:ident, $len:literal) => {
        #[kani::proof]
        #[kani::unwind(5)]
        fn $name() {
            let v: [usize; $len] = kani::any();
            let s = FriReductionStrategy::Fixed(v.to_vec());
            let out = s.reduction_arity_bits(kani::any(), kani::any(), kani::any(), kani::any());
            assert!(out.len() == $len);
            let i: usize = kani::any();
            if i < $len {
                assert!(out[i] == v[i]);
            }
            kani::cover!($len == 0 || i == $len - 1);
            core::mem::forget((s, out));
        }
    };
}
arity_fixed!(arity_fixed_is_identity_len0, 0);
arity_fixed!(arity_fixed_is_identity_len3, 3);

/// ConstantArityBits(a, f), all degree_bits <= 10, rate_bits <= 3, cap_height <= 4, 1 <= a <= 4,
/// f <= 10, under the precondition  a <= f + 1  (without it the function's own
/// `assert!(degree_bits >= arity_bits)` / the subtraction `degree_bits + rate_bits - arity_bits`
/// can panic, e.g. (a, f) = (4, 0), degree_bits = 1, rate_bits = 3, cap_height = 0: the loop is entered
/// with degree_bits < arity_bits).  Postconditions, from the doc comment of the variant:
///   every entry == a;  sum <= degree_bits;  with d' = degree_bits - sum:
///   stopped because  d' <= f  or  a further a-reduction would make the last tree lower than cap_height;
///   did not stop early (the state before the last reduction satisfied neither);
///   the last FRI tree (d' + rate_bits bits) is not lower than cap_height if any reduction was done.
#[kani::proof]
#[kani::unwind(13)]
fn arity_constant_postconditions() {
    let (a, f): (usize, usize) = (kani::any(), kani::any());
    let (d, r, c, q): (usize, usize, usize, usize) = (kani::any(), kani::any(), kani::any(), kani::any());
    kani::assume(a >= 1 && a <= 4 && f <= 10 && d <= 10 && r <= 3 && c <= 4);
    kani::assume(a <= f + 1);
    let out = FriReductionStrategy::ConstantArityBits(a, f).reduction_arity_bits(d, r, c, q);
    let n = out.len();
    assert!(n <= 10);
    let i: usize = kani::any();
    if i < n {
        assert!(out[i] == a, "every reduction has the configured arity");
    }
    let total = n * a;
    assert!(total <= d, "sum of arities <= degree_bits");
    let d1 = d - total;
    // termination condition is exact
    assert!(d1 <= f || d1 + r < a + c, "stopped although a further reduction was allowed");
    if n > 0 {
        let before = d1 + a;
        assert!(before > f && before + r >= a + c, "a reduction was applied although the rule forbids it");
        assert!(d1 + r >= c, "last FRI tree lower than cap_height");
    }
    kani::cover!(n == 5, "five reductions reachable");
    kani::cover!(n == 0 && d > f, "stopped by the cap_height rule before the first reduction");
}

/// FriConfig::fri_params with the same strategy: derived lengths are consistent, no underflow.
#[kani::proof]
#[kani::unwind(13)]
fn fri_params_derived_lengths() {
    let (a, f): (usize, usize) = (kani::any(), kani::any());
    let (d, r, c, q): (usize, usize, usize, usize) = (kani::any(), kani::any(), kani::any(), kani::any());
    kani::assume(a >= 1 && a <= 4 && f <= 10 && d <= 10 && r <= 3 && c <= 4);
    kani::assume(a <= f + 1);
    let hiding: bool = kani::any();
    let config = FriConfig {
        rate_bits: r,
        cap_height: c,
        proof_of_work_bits: kani::any(),
        reduction_strategy: FriReductionStrategy::ConstantArityBits(a, f),
        num_query_rounds: q,
    };
    let p = config.fri_params(d, hiding);
    assert!(p.degree_bits == d && p.hiding == hiding && p.config == config);
    assert!(p.total_arities() == sum(&p.reduction_arity_bits));
    assert!(p.total_arities() <= d);
    assert!(p.lde_bits() == d + r);
    assert!(p.lde_size() == 1usize << (d + r));
    assert!(p.final_poly_bits() + p.total_arities() == d);
    assert!(p.final_poly_len() == 1usize << p.final_poly_bits());
    assert!(config.num_cap_elements() == 1usize << c);
    kani::cover!(p.reduction_arity_bits.len() == 3);
    core::mem::forget((p, config));
}

/// FriParams getters on an arbitrary schedule of length 3 (entries may be 0) with sum <= degree_bits.
#[kani::proof]
#[kani::unwind(5)]
fn fri_params_getters_fixed() {
    let v: [usize; 3] = kani::any();
    kani::assume(v[0] <= 8 && v[1] <= 8 && v[2] <= 8);
    let (d, r): (usize, usize) = (kani::any(), kani::any());
    kani::assume(d <= 24 && r <= 8);
    let total = v[0] + v[1] + v[2];
    kani::assume(total <= d);
    let p = FriParams {
        config: FriConfig {
            rate_bits: r,
            cap_height: kani::any(),
            proof_of_work_bits: kani::any(),
            reduction_strategy: FriReductionStrategy::Fixed(Vec::new()),
            num_query_rounds: kani::any(),
        },
        hiding: kani::any(),
        degree_bits: d,
        reduction_arity_bits: v.to_vec(),
    };
    assert!(p.total_arities() == total);
    assert!(p.lde_bits() == d + r && p.lde_size() == 1usize << (d + r));
    assert!(p.final_poly_bits() == d - total);
    assert!(p.final_poly_len() == 1usize << (d - total));
    kani::cover!(total == d && d == 24);
    core::mem::forget(p);
}

// MinSize(opt_max): exhaustive recursive search.  degree_bits, rate_bits and the arity cap are concrete
// per harness (they fix the shape of the recursion: with a symbolic rate_bits CBMC cannot see that
// `(degree_bits + rate_bits - sum) - rate_bits` is concrete and unwinds every loop to the bound - even
// degree_bits = 1 timed out), num_queries <= 128 and cap_height are symbolic (num_queries only enters
// the size estimates that steer the choice).  Postconditions: entries in 1..=max, the sequence is
// non-increasing (as the search's own comment claims), sum <= degree_bits, no panic
// (`assert!(current_layer_bits >= rate_bits)`, the subtractions).
macro_rules! arity_min_size {
    ($name:ident, $d:literal, $r:literal, $opt:expr, $max:literal, $unwind:literal) => {
        #[kani::proof]
        #[kani::unwind($unwind)]
        fn $name() {
            let q: usize = kani::any();
            kani::assume(q <= 128);
            let c: usize = kani::any();
            let out = FriReductionStrategy::MinSize($opt).reduction_arity_bits($d, $r, c, q);
            let n = out.len();
            assert!(n <= $d);
            assert!(sum(&out) <= $d, "sum of arities <= degree_bits");
            let i: usize = kani::any();
            if i < n {
                assert!(out[i] >= 1 && out[i] <= $max, "arity out of range");
                if i + 1 < n {
                    assert!(out[i] >= out[i + 1], "arities not non-increasing");
                }
            }
            kani::cover!(n >= 1 || $d == 0, "a non-empty schedule is reachable");
            core::mem::forget(out);
        }
    };
}

arity_min_size!(arity_min_size_d0_r3_none, 0, 3, None, 4, 4);
arity_min_size!(arity_min_size_d1_r3_none, 1, 3, None, 4, 5);
arity_min_size!(arity_min_size_d2_r1_none, 2, 1, None, 4, 6);
arity_min_size!(arity_min_size_d3_r3_none, 3, 3, None, 4, 7);
arity_min_size!(arity_min_size_d4_r3_none, 4, 3, None, 4, 8);
arity_min_size!(arity_min_size_d3_r0_max1, 3, 0, Some(1), 1, 7);
arity_min_size!(arity_min_size_d4_r3_max2, 4, 3, Some(2), 2, 8);
