"""Which engine families decide which property. (engine, family[, "thorough"])"""

TB_COMMON = [
    "rustc (nightly, repo toolchain) front end: MIR dump / monomorphisation of the generic code",
    "p = 2^64-2^32+1 is prime (Pratt certificate checked at start-up)",
    "SMT solvers z3 5.1.0 (primary), z3 4.8.12 / cvc5 1.0 (cross-check)",
]

REG = {}
