"""Which engine families decide which property. (engine, family[, "thorough"])"""

TB_COMMON = [
    "rustc (repo nightly toolchain): monomorphisation of the real generic code at the term-recording field SymF / MIR dump",
    "p = 2^64-2^32+1 is prime; GF(p) is a field (zero-product law instances, denominators non-zero)",
    "encoder: hash-consed term arena + canonical fraction normal form over GF(p) (symf/src/poly.rs) + SMT-LIB emission",
    "SMT solver z3 5.1.0 (primary), z3 4.8.12 and cvc5 1.0 (cross-check of unsat answers)",
]

REG = {
    "C07": {
        "families": [("S", "gates")],
        "explanation": (
            "Bounded symbolic verification of mechanisms (DESIGN.md section 5, C07). The real Gate impls are executed "
            "over a term-recording field: (7.1) each gate's own generators() fill a one-row PartitionWitness from symbolic "
            "inputs and eval_unfiltered on that row must be 0 for all inputs; (7.2) for every generator-written wire, "
            "row[w]+=delta with all constraints 0 implies delta=0 (solver query with the zero-product law); (7.3) "
            "eval_unfiltered_base_batch (batch 1 and 3) and the circuit built by eval_unfiltered_circuit (real builder, "
            "real generate_partial_witness) equal eval_unfiltered on fully symbolic rows, with the declared constraint "
            "count. Integer-valued gate inputs (limb sums, power bits, access indices, swap flag) are enumerated "
            "concretely; everything else ranges over all field values. sat models are replayed natively on "
            "GoldilocksField through the same generic harness code."),
        "trusted_base": TB_COMMON,
        "assumptions": [
            "gate parameterisations as listed per obligation (bounds field); other parameter values are outside the claim",
            "LookupGate / LookupTableGate have no gate constraints (pinned by the lookup argument, C08) and are not in C07's run",
            "declared degree() is not checked in this run",
        ],
    },
}
