"""Which engine families decide which property. (engine, family[, "thorough"])"""

TB_COMMON = [
    "rustc (repo nightly toolchain): monomorphisation of the real generic code at the term-recording field SymF / MIR dump",
    "p = 2^64-2^32+1 is prime; GF(p) is a field (zero-product law instances, denominators non-zero)",
    "encoder: hash-consed term arena + canonical fraction normal form over GF(p) (symf/src/poly.rs) + SMT-LIB emission",
    "SMT solver z3 5.1.0 (primary), z3 4.8.12 and cvc5 1.0 (cross-check of unsat answers)",
]

REG = {
    "C07": {
        "families": [("S", "gates")],
        "explanation": (
            "Bounded symbolic verification of mechanisms (DESIGN.md section 5, C07). The real Gate impls are executed "
            "over a term-recording field: (7.1) each gate's own generators() fill a one-row PartitionWitness from symbolic "
            "inputs and eval_unfiltered on that row must be 0 for all inputs; (7.2) for every generator-written wire, "
            "row[w]+=delta with all constraints 0 implies delta=0 (solver query with the zero-product law); (7.3) "
            "eval_unfiltered_base_batch (batch 1 and 3) and the circuit built by eval_unfiltered_circuit (real builder, "
            "real generate_partial_witness) equal eval_unfiltered on fully symbolic rows, with the declared constraint "
            "count. Integer-valued gate inputs (limb sums, power bits, access indices, swap flag) are enumerated "
            "concretely; everything else ranges over all field values. sat models are replayed natively on "
            "GoldilocksField through the same generic harness code."),
        "trusted_base": TB_COMMON,
        "assumptions": [
            "gate parameterisations as listed per obligation (bounds field); other parameter values are outside the claim",
            "LookupGate / LookupTableGate have no gate constraints (pinned by the lookup argument, C08) and are not in C07's run",
            "declared degree() is not checked in this run",
        ],
    },
    "C14": {
        "families": [("M", "field_kernels")],
        "explanation": (
            "Bounded symbolic verification of mechanisms (DESIGN.md section 5, C14). Engine M translates the rustc MIR "
            "(dumped from /repo's working tree in this run, overflow checks on) of the Goldilocks kernels into SMT-LIB over "
            "mathematical integers with explicit wrap-around and asks, for ALL operand representations (full 2^64 / 2^96 / "
            "2^128 / i64 ranges, non-canonical included): result congruent to the mathematical value mod p and < 2^64; no "
            "checked-arithmetic overflow; no argument of plonky2_util::assume() false; reduce160's documented precondition "
            "at each call site. Symbolic u64*u64 products are opaque and shared with the specification. The translator is "
            "validated on every run against the natively compiled functions; sat models are replayed natively."),
        "trusted_base": TB_COMMON + ["Intel SDM model of the `add; sbb` inline asm in add_no_canonicalize_trashing_input",
                                     "MIR-to-SMT translator mir/translate.py (validated per run against native execution on boundary + seeded random operands)"],
        "assumptions": ["AVX2/AVX-512 packed fields are outside (intrinsics not encodable)",
                        "generic extension-field algebra (Ob14.5/14.6) is decided by engine S when its family is registered"],
    },
    "C13": {
        "families": [("M", "poseidon_kernels")],
        "explanation": (
            "Bounded symbolic verification of mechanisms (DESIGN.md section 5, C13), integer-kernel part: the MIR of the "
            "Goldilocks frequency-domain mds_layer (mds_multiply_freq, fft/ifft blocks), the generic mds_row_shf / default "
            "mds_layer, mds_partial_layer_fast (u160 accumulator, add_u160_u128, reduce_u160) and constant_layer is encoded "
            "over integers; for all 12xu64 states (non-canonical included) each equals its algebraic definition mod p and no "
            "i64/u64/u128 overflow or assume() violation is possible."),
        "trusted_base": TB_COMMON + ["MIR-to-SMT translator mir/translate.py (validated per run against native execution)"],
        "assumptions": ["SIMD Poseidon (hash/arch) and Keccak are outside",
                        "that the round constants are the published ones is not checked"],
    },
}
