"""Which engine families decide which property. (engine, family[, "thorough"])"""

TB_COMMON = [
    "rustc (repo nightly toolchain): monomorphisation of the real generic code at the term-recording field SymF / MIR dump",
    "p = 2^64-2^32+1 is prime; GF(p) is a field (zero-product law instances, denominators non-zero)",
    "encoder: hash-consed term arena + canonical fraction normal form over GF(p) (symf/src/poly.rs) + SMT-LIB emission",
    "SMT solver z3 5.1.0 (primary), z3 4.8.12 and cvc5 1.0 (cross-check of unsat answers)",
]

REG = {
    "C07": {
        "families": [("S", "gates")],
        "explanation": (
            "Bounded symbolic verification of mechanisms (DESIGN.md section 5, C07). The real Gate impls are executed "
            "over a term-recording field: (7.1) each gate's own generators() fill a one-row PartitionWitness from symbolic "
            "inputs and eval_unfiltered on that row must be 0 for all inputs; (7.2) for every generator-written wire, "
            "row[w]+=delta with all constraints 0 implies delta=0 (solver query with the zero-product law); (7.3) "
            "eval_unfiltered_base_batch (batch 1 and 3) and the circuit built by eval_unfiltered_circuit (real builder, "
            "real generate_partial_witness) equal eval_unfiltered on fully symbolic rows, with the declared constraint "
            "count. Integer-valued gate inputs (limb sums, power bits, access indices, swap flag) are enumerated "
            "concretely; everything else ranges over all field values. sat models are replayed natively on "
            "GoldilocksField through the same generic harness code."),
        "trusted_base": TB_COMMON,
        "assumptions": [
            "gate parameterisations as listed per obligation (bounds field); other parameter values are outside the claim",
            "LookupGate / LookupTableGate have no gate constraints (pinned by the lookup argument, C08) and are not in C07's run",
            "declared degree() is not checked in this run",
        ],
    },
    "C14": {
        "families": [("M", "field_kernels"), ("K", "field_addsub"), ("S", "algebra", None, r"^C14\.")],
        "explanation": (
            "Bounded symbolic verification of mechanisms (DESIGN.md section 5, C14). Engine M translates the rustc MIR "
            "(dumped from /repo's working tree in this run, overflow checks on) of the Goldilocks kernels into SMT-LIB over "
            "mathematical integers with explicit wrap-around and asks, for ALL operand representations (full 2^64 / 2^96 / "
            "2^128 / i64 ranges, non-canonical included): result congruent to the mathematical value mod p and < 2^64; no "
            "checked-arithmetic overflow; no argument of plonky2_util::assume() false; reduce160's documented precondition "
            "at each call site. Symbolic u64*u64 products are opaque and shared with the specification. The translator is "
            "validated on every run against the natively compiled functions; sat models are replayed natively."),
        "trusted_base": TB_COMMON + ["Intel SDM model of the `add; sbb` inline asm in add_no_canonicalize_trashing_input",
                                     "MIR-to-SMT translator mir/translate.py (validated per run against native execution on boundary + seeded random operands)"],
        "assumptions": ["AVX2/AVX-512 packed fields are outside (intrinsics not encodable)",
                        "generic extension-field algebra (Ob14.5/14.6) is decided by engine S when its family is registered"],
    },
    "C13": {
        "families": [("M", "poseidon_kernels"), ("S", "transcript", None, r"^C13\.")],
        "explanation": (
            "Bounded symbolic verification of mechanisms (DESIGN.md section 5, C13), integer-kernel part: the MIR of the "
            "Goldilocks frequency-domain mds_layer (mds_multiply_freq, fft/ifft blocks), the generic mds_row_shf / default "
            "mds_layer, mds_partial_layer_fast (u160 accumulator, add_u160_u128, reduce_u160) and constant_layer is encoded "
            "over integers; for all 12xu64 states (non-canonical included) each equals its algebraic definition mod p and no "
            "i64/u64/u128 overflow or assume() violation is possible."),
        "trusted_base": TB_COMMON + ["MIR-to-SMT translator mir/translate.py (validated per run against native execution)"],
        "assumptions": ["SIMD Poseidon (hash/arch) and Keccak are outside",
                        "that the round constants are the published ones is not checked"],
    },
    "C05": {
        "families": [("S", "fri"), ("K", "fri_params")],
        "explanation": (
            "Bounded symbolic verification of mechanisms (DESIGN.md section 5, C03/C05). The real verify_fri_proof is "
            "executed in accept-path mode over a term-recording field on a proof whose every element (openings, leaf "
            "values, Merkle siblings, commit-phase evaluations and caps, final-polynomial coefficients, initial caps) is a "
            "symbol; Poseidon is a free function symbol with collision-free digest lanes (ideal-hash model); challenges "
            "are held fixed at seeded constants, query indices are concrete. For every element position e: "
            "Accept(pi) and Accept(pi[e += delta]) imply delta = 0 (solver: congruences mod p + uninterpreted hash with "
            "injectivity instances). A position the verifier does not check makes the query satisfiable; it is then "
            "confirmed natively: an honest proof of the same shape from the real prover, the element altered, the real "
            "verifier called with the honest challenges held fixed. Kani decides the grinding check (leading zeros of the "
            "pow response for all u64 responses), the arity schedules of the three reduction strategies (sum of arities <= "
            "degree bits, ConstantArityBits postconditions, no panic) and FriParams' derived lengths for small parameters."),
        "trusted_base": TB_COMMON + ["Kani 0.68 / CBMC 6.11 model of the compiled code (dev profile)"],
        "assumptions": ["shapes and parameter ranges as listed per obligation; FRI proximity-gap soundness itself is the published analysis, not re-proved",
                        "batch FRI (batch_fri/verifier.rs) is not in this run"],
    },
    "C03": {
        "families": [("S", "fri"), ("S", "plonkv", None, r"^C03\."), ("S", "transcript", None, r"^C04\.S\.transcript\.plonk\.")],
        "explanation": (
            "Bounded symbolic verification of mechanisms (DESIGN.md section 5, C03): element-by-element binding of the FRI "
            "part of a proof. The real verify_fri_proof runs in accept-path mode on a fully symbolic proof (ideal-hash "
            "model, challenges held fixed); for every element position e, Accept(pi) and Accept(pi[e += delta]) imply "
            "delta = 0; the initial caps (which the plonk verifier takes from the verifier data) are pinned in the same "
            "way. Counterexamples are confirmed natively on an honest proof from the real prover. The re-randomisation of "
            "challenges by any change (transcript binding) is C04's subject."),
        "trusted_base": TB_COMMON,
        "assumptions": ["plonk-level openings / public inputs / shape validation are not in this run yet",
                        "shapes as listed per obligation"],
    },
    "C15": {
        "families": [("K", "util_perm"), ("S", "algebra", None, r"^C15\.")],
        "explanation": (
            "Bounded model checking (Kani/CBMC) of the compiled index/permutation helpers: reverse_index_bits and "
            "reverse_index_bits_in_place for every n = 2^k, k = 0..8, all contents and a symbolic position "
            "(out[i] == in[bitrev(i)], no out-of-bounds unsafe access), log2_ceil / log2_strict / bits_u64 over all "
            "arguments, log_floor for listed bases."),
        "trusted_base": ["Kani 0.68 / CBMC 6.11 (cadical) model of the compiled code (dev profile, unwinding assertions on)"],
        "assumptions": ["the chunked big-element path of reverse_index_bits_in_place / transpose_in_place_square exceeded memory under CBMC and is outside",
                        "FFT / polynomial algebra obligations (engine S) are not in this run yet"],
    },
    "C17": {
        "families": [("K", "codec"), ("K", "codec_gates"), ("K", "codec_proof"), ("S", "codec")],
        "explanation": (
            "Bounded model checking (Kani/CBMC) of the paired Write/Read primitives of util/serialization: write_X then "
            "read_X returns the same value and consumes exactly the written bytes for bool, u8..usize, usize vectors "
            "(len <= 2), field and extension elements, both Target variants, FRI reduction strategies, FriConfig and "
            "CircuitConfig, for all values; serialize/deserialize of eleven gate types for all parameter values and of eight "
            "generator types for all valid encodings (family codec_gates); composite proof readers on arbitrary bytes "
            "(family codec_proof). Engine S family codec: six concrete circuits (arithmetic / random access with bits != "
            "copies / exponentiation / base-2 splits, a narrow 3-challenge configuration, zero-knowledge, lookup tables over "
            "several rows, a recursive verifier) are encoded and decoded with the real writers / readers natively: circuit, "
            "prover, verifier and common data, proof and compressed proof decode to equal values, the digest is unchanged, "
            "the restored circuit proves and each side accepts the other's proofs (concrete executions, not solver results)."),
        "trusted_base": ["Kani 0.68 / CBMC 6.11 (cadical) model of the compiled code (dev profile, unwinding assertions on)"],
        "assumptions": ["whole-proof round trips and tag dispatch through dyn Gate under the model checker are outside (measured: no verdict within the limits)",
                        "the default generator serializer requires an algebraic hasher: Keccak configurations are outside",
                        "the whole-circuit facts are concrete executions on six circuits"],
    },
    "C18": {
        "families": [("K", "decoders"), ("K", "codec_proof", None, r"\.dec_"), ("S", "plonkv", None, r"\.shape\.")],
        "explanation": (
            "Bounded model checking (Kani/CBMC) of the primitive proof-decoder routines on ARBITRARY byte strings of the "
            "listed lengths: read_bool/u8/u32/usize, read_field, read_hash, read_target return Ok or Err exactly as "
            "specified and never panic, overflow or index out of bounds (dev profile, debug assertions on); composite readers "
            "(opening set, Merkle proof, short whole-proof inputs). Engine S: the real verifier on proofs of altered shape "
            "(every single-vector length change of a proof value is rejected: symbolic contents on the accept path, natively "
            "an honest proof; a panic counts as non-rejection); structurally malformed compressed proofs on verify_compressed / "
            "decompress (18 shapes x 2 entry points) and edited encodings (query-index bit flips of the compressed encoding; "
            "for the plain encoding all 64 bit flips and 9 boundary values of the public-input count, truncations, sampled "
            "bit flips): Err, never a panic, nothing but the original statement accepted (concrete structures)."),
        "trusted_base": ["Kani 0.68 / CBMC 6.11 (cadical) model of the compiled code (dev profile, unwinding assertions on)"] + TB_COMMON,
        "assumptions": ["whole-proof decoders on fully arbitrary bytes are beyond the model checker; the edited-encoding obligations are concrete executions",
                        "read_usize_vec (unvalidated length prefix) is reachable only from circuit-data decoders, outside C18's proof-decoder scope (DESIGN.md section 7)"],
    },
    "C02": {
        "families": [("S", "plonk", None, r"^C02\."), ("S", "plonkv", None, r"\.identity\.|\.pin\.Pih|\.accept-path"),
                     ("S", "gates", None, r"\.pin\.|\.determined|pins-public-input-hash")],
        "explanation": (
            "Bounded symbolic verification of mechanisms (DESIGN.md section 5, C02). (a) The real eval_vanishing_poly on a "
            "circuit built by the real CircuitBuilder equals, for all openings/challenges/points (symbolic extension "
            "elements), a reference vanishing expression written from the plonky2 paper: alpha-combination, in order, of "
            "L_0(Z_i-1), the chunked partial-product checks and the selector-filtered gate constraints; a dropped or altered "
            "term is a sat query replayed natively. (b) check_partial_products telescopes to the permutation grand-product "
            "step and the prover's partial products satisfy it (polynomial identities, all sizes listed). (c) The real "
            "verify_with_challenges in accept-path mode: its acceptance condition implies the vanishing identity for EVERY "
            "challenge index and pins each lane of the public-input hash. (d) Every built-in gate's constraints pin each "
            "generated wire (single perturbation) and, for small gates, all generated wires jointly (under-constraint "
            "detection with the zero-product law)."),
        "trusted_base": TB_COMMON + ["reference vanishing expression in symf/src/plonk.rs (oracle written by the checker's author from the paper)"],
        "assumptions": ["probabilistic soundness (Schwartz-Zippel over the challenges, FRI proximity) is the published analysis and not re-proved",
                        "lookup terms of the vanishing expression are not in this run (C08)",
                        "sigma polynomials / copy-class cycle structure (get_sigma_map) and the adversarial-prover catalogue are not encoded"],
    },
    "C01": {
        "families": [("S", "plonk", None, r"^C01\."), ("S", "gates", None, r"\.honest|\.lockstep\.base_batch1$")],
        "explanation": (
            "Bounded symbolic verification of mechanisms (DESIGN.md section 5, C01): completeness mechanisms. (a) The prover-"
            "side eval_vanishing_poly_base_batch equals the verifier-side eval_vanishing_poly on base-field points of the LDE "
            "coset for all openings and challenges (so an honest quotient satisfies the verifier's identity). (b) Every "
            "gate's own generators produce rows satisfying that gate's constraints for all inputs. (c) Gadget semantics: for "
            "each arithmetic/select/random-access/exponentiation/split gadget and each constant-folding special case of "
            "CircuitBuilder::arithmetic, a one-gadget circuit is built by the real builder, the witness generated by the "
            "real generate_partial_witness from symbolic inputs, and the output target equals the mathematical function "
            "for all inputs (integer-valued inputs enumerated). (d) The prover's partial products satisfy the checks."),
        "trusted_base": TB_COMMON,
        "assumptions": ["the prover pipeline as a whole (FFT, Merkle, FRI prover, blinding, Keccak config) is exercised only by the repository's own tests",
                        "configuration sweep (rates, cap heights, zero-knowledge) is outside; standard recursion config / a tiny config only"],
    },
    "C04": {
        "families": [("S", "transcript", None, r"^C04\.")],
        "explanation": (
            "Bounded symbolic verification of mechanisms (DESIGN.md section 5, C04). The real "
            "ProofWithPublicInputs::get_challenges (circuit from the real builder, with and without a lookup table) and "
            "StarkProofWithPublicInputs::get_challenges (sample Fibonacci STARK, with and without auxiliary polynomials) are "
            "executed on proofs whose every element is a distinct symbol; the Poseidon permutation is a free function symbol "
            "(random-oracle idealisation: Perm_k(s) = Perm_k(t) iff s = t lane-wise). For every component v and challenge "
            "group c drawn after it in the protocol order: c(t) = c(t[v += delta]) implies delta = 0; no challenge's term "
            "mentions a component that comes later; every FRI / degree / configuration parameter the protocol should bind "
            "changes the challenges when altered. Counterexamples replay natively with the real Poseidon."),
        "trusted_base": TB_COMMON + ["protocol-order table in symf/src/transcript.rs (oracle)"],
        "assumptions": ["verifier-side transcripts only (the prover interleaves the same observes with heavy computation; prover/verifier agreement is what the existing end-to-end tests establish)",
                        "recursive (in-circuit) challengers and compressed-proof get_challenges are outside"],
    },
    "C09": {
        "families": [("S", "stark", None, r"^C09\.")],
        "explanation": (
            "Bounded symbolic verification of mechanisms (DESIGN.md section 5, C09) on sample STARK definitions written in "
            "the harness (Fibonacci with public inputs, a degree-3 STARK with first/last-row constraints, a lookup STARK): "
            "ConstraintConsumer accumulators == sum alpha^k filter_k c_k for every call sequence up to length 4; "
            "eval_l_0_and_l_last == Lagrange definition (log_n 0..5, symbolic x); eval_vanishing_poly == reference "
            "constraint list; row semantics on the real subgroup (satisfying trace gives 0 on every row, every single-cell "
            "and public-input perturbation is caught, the wrap-around exemption is respected); the real "
            "verify_stark_proof_with_challenges in accept-path mode: its vanishing stage is equivalent to the reference "
            "identity for every challenge index and pins every opening / public input / quotient chunk; FRI "
            "representatives pinned under the ideal-hash model. Native replay with the real starky prover."),
        "trusted_base": TB_COMMON + ["sample STARK definitions and reference expressions in symf/src/stark.rs (oracles)"],
        "assumptions": ["the STARK prover (compute_quotient_polys) and large traces are outside; probabilistic soundness is not re-proved"],
    },
    "C10": {
        "families": [("S", "stark", None, r"^C10\.")],
        "explanation": (
            "Bounded symbolic verification of mechanisms (DESIGN.md section 5, C10): eval_packed_lookups_generic and "
            "eval_cross_table_lookup_checks equal reference LogUp / CTL constraint lists on symbolic frames; the prover's "
            "lookup_helper_columns and cross_table_lookup_data outputs satisfy them on every row of small traces (symbolic "
            "cells, symbolic challenge); a looking value / tuple absent from the table gives a non-zero final sum "
            "(polynomial identity); verify_cross_table_lookups in accept-path mode is sound, complete and pins every input; "
            "the total degree of the evaluator's output in the openings and Lagrange selectors does not exceed the declared "
            "constraint degree for the layouts the prover produces; a looking table repeated non-consecutively gets one "
            "running sum that satisfies the constraints."),
        "trusted_base": TB_COMMON + ["sample STARK / CTL definitions and reference constraint lists in symf/src/stark.rs (oracles)"],
        "assumptions": ["multi-table verifier plumbing (CtlCheckVars::from_proof, num_ctl_helpers_zs_all, get_ctl_data) is outside"],
    },
    "C11": {
        "families": [("S", "stark", None, r"^C11\.")],
        "explanation": (
            "Bounded symbolic verification, ARITHMETIC SLICE ONLY (DESIGN.md section 5, C11): the in-circuit twins "
            "(RecursiveConstraintConsumer, eval_l_0_and_l_last_circuit, eval_vanishing_poly_circuit, each sample STARK's "
            "eval_ext_circuit, eval_ext_lookups_circuit, eval_cross_table_lookup_checks_circuit) are built with the real "
            "CircuitBuilder, their witness generated by the real generate_partial_witness from symbolic inputs, and the "
            "resulting values equal the native evaluators' for all inputs."),
        "trusted_base": TB_COMMON,
        "assumptions": ["in-circuit hashing, Merkle verification, the recursive challenger and the proof-of-work check are NOT decided symbolically; they are exercised by the e2e obligations only: for a Fibonacci STARK under two configurations and a degree-3 lookup STARK, an accepted proof and ~18 single-element corruptions each, verify_stark_proof_circuit is satisfiable (outer prove + verify) exactly when verify_stark_proof accepts (concrete executions)",
                        "variable-degree-bits logic and cross-table lookups in the recursive verifier are outside"],
    },
    "C08": {
        "families": [("S", "lookup")],
        "explanation": (
            "Bounded symbolic verification of mechanisms (DESIGN.md section 5, C08) on circuits with lookups built by the "
            "real CircuitBuilder (narrow and standard configurations; one and two tables; table sizes below, equal to and "
            "above the slot count; repeated, unused and partially filled rows): check_lookup_constraints (verifier) == "
            "check_lookup_constraints_batch (prover) and the full vanishing expression with lookups agree; both == a "
            "reference LogUp constraint list in protocol order; on the real witness (real generators, set_lookup_wires, "
            "compute_lookup_polys with symbolic challenges) every constraint is 0 on every row; a looked pair outside the "
            "table (or in another table) gives a non-zero final sum in closed form; slot arithmetic, placement, padding and "
            "multiplicities of the lookup rows; and whether the constraints determine the running sums."),
        "trusted_base": TB_COMMON + ["reference LogUp constraint list in symf/src/lookup.rs (oracle)"],
        "assumptions": ["tables are concrete (u16 by type), looked-up inputs concrete; recursive twins of the lookup constraints not compared"],
    },
    "C12": {
        "families": [("S", "merkle", None, r"^C12\."), ("K", "hash_noop")],
        "explanation": (
            "Bounded symbolic verification of mechanisms (DESIGN.md section 5, C12) with the Poseidon permutation as a free "
            "function symbol (ideal-hash model): MerkleTree::new on symbolic leaves (n = 1..16, every cap height, leaf "
            "widths 1/4/5/9 incl. the hash_or_noop no-op path): cap == level-by-level reference, prove(i) verifies for every "
            "i; binding: two accepted openings of the same cap at the same position coincide; every leaf element, sibling "
            "lane and cap lane is pinned; acceptance at a mirrored position forces equal subtree digests; the same for "
            "batch trees over several heights. Native replay on real trees with the real Poseidon."),
        "trusted_base": TB_COMMON,
        "assumptions": ["sequential maybe_rayon build (the harness builds plonky2 without the `parallel` feature): thread schedules are C19's subject and outside",
                        "collision resistance is the ideal-hash idealisation; Keccak hasher outside"],
    },
    "C16": {
        "families": [("S", "merkle", None, r"^C16\.")],
        "explanation": (
            "Bounded symbolic verification of mechanisms (DESIGN.md section 5, C16): decompress_merkle_proofs(compress_"
            "merkle_proofs(..)) == the original proofs for real trees over symbolic leaves (heights 0..3, representative "
            "index tuples incl. repeats, same pair, same coset); Proof::compress -> get_inferred_elements -> "
            "CompressedProof::decompress returns the original proof field by field on four FRI shapes with real Merkle "
            "trees over symbols, for index tuples with distinct indices, equal indices, same coset at layer 0 and collisions "
            "only at deeper layers; the inferred element equals the verifier's folded value and is really dropped."),
        "trusted_base": TB_COMMON,
        "assumptions": ["verify_compressed end to end (challenge recomputation by hashing) is outside; challenges are seeded constants"],
    },
    "C06": {
        "families": [("S", "recursion", None, r"^C06\.")],
        "explanation": (
            "Bounded symbolic verification, ARITHMETIC SLICE ONLY (DESIGN.md section 5, C06): eval_vanishing_poly_circuit "
            "== eval_vanishing_poly (tiny circuit fully symbolic; a multi-gate common data with 135 base-embedded wires), "
            "check_partial_products_circuit / eval_l_0_circuit / reduce_with_powers(_ext)_circuit / ReducingFactorTarget == "
            "native; in-circuit fri_combine_initial and compute_evaluation (CosetInterpolationGate) == native for small "
            "shapes and every coset position; polynomial evaluation target == Horner; and the real private "
            "verify_proof_with_challenges circuit for the tiny common data: the equalities it connects imply the native "
            "vanishing identity for EVERY challenge index. All circuits are built by the real CircuitBuilder and their "
            "witness generated by the real generate_partial_witness from symbolic inputs (proof assigned with "
            "set_proof_with_pis_target)."),
        "trusted_base": TB_COMMON,
        "assumptions": ["in-circuit hashing, Merkle verification, the recursive challenger / get_challenges and the proof-of-work check are NOT decided symbolically; they are exercised by the e2e obligations only: for two inner configurations, an accepted proof and ~35 single-element corruptions of it (each kind of proof component, verifier data included), the verify_proof circuit is satisfiable (outer prove + verify) exactly when the native verifier accepts (concrete executions)",
                        "assumed: evaluation point != 1 (documented in eval_l_0_circuit), beta not an interpolation point, subgroup_x != opening point"],
    },
    "C20": {
        "families": [("S", "recursion", None, r"^C20\.")],
        "explanation": (
            "Bounded symbolic verification, ARITHMETIC SLICE ONLY (DESIGN.md section 5, C20): select_proof_with_pis / "
            "select_verifier_data / select_hash / select_ext: for b in {0,1} every one of the 292 targets of the selected "
            "proof structure equals the corresponding input of the selected proof (real builder, real generators, proofs "
            "assigned with set_proof_with_pis_target, all inputs distinct symbols); check_cyclic_proof_verifier_data in "
            "accept-path mode for cap heights 0..2: sound, complete, every one of the 4+4*2^cap positions pinned, a "
            "too-short public-input vector is rejected without panic."),
        "trusted_base": TB_COMMON,
        "assumptions": ["NOT covered: the conditional / cyclic verifier circuits as a whole (they embed the full recursive verifier), dummy proofs and dummy circuits, outer prove/verify"],
    },
}
