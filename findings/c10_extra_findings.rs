//! C10, findings on the UNMODIFIED code: honest cross-table-lookup systems (looking multiset ==
//! looked multiset) that cannot be proven-and-verified. Every test below asserts acceptance of an
//! honest system and FAILS on the unmodified code. Public API only.

use std::panic::{catch_unwind, AssertUnwindSafe};

use anyhow::{anyhow, Result};
use hashbrown::HashMap;
use plonky2::field::extension::FieldExtension;
use plonky2::field::goldilocks_field::GoldilocksField;
use plonky2::field::packed::PackedField;
use plonky2::field::polynomial::PolynomialValues;
use plonky2::field::types::Field;
use plonky2::fri::oracle::PolynomialBatch;
use plonky2::iop::challenger::Challenger;
use plonky2::iop::ext_target::ExtensionTarget;
use plonky2::plonk::circuit_builder::CircuitBuilder;
use plonky2::plonk::config::{GenericConfig, PoseidonGoldilocksConfig};
use plonky2::util::timing::TimingTree;
use starky::config::StarkConfig;
use starky::constraint_consumer::{ConstraintConsumer, RecursiveConstraintConsumer};
use starky::cross_table_lookup::{
    get_ctl_data, verify_cross_table_lookups, CrossTableLookup, CtlCheckVars, TableWithColumns,
};
use starky::evaluation_frame::StarkFrame;
use starky::lookup::{get_grand_product_challenge_set, Column, Filter};
use starky::proof::StarkProofWithPublicInputs;
use starky::prover::prove_with_commitment;
use starky::stark::Stark;
use starky::verifier::verify_stark_proof_with_challenges;

const D: usize = 2;
type C = PoseidonGoldilocksConfig;
type F = GoldilocksField;
type H = <C as GenericConfig<D>>::Hasher;

/// Width of every table.
const W: usize = 4;
const ROWS: usize = 32;

/// A table without constraints of its own: only the cross-table lookups constrain it.
#[derive(Copy, Clone)]
struct TinyStark {
    degree: usize,
}

impl Stark<F, D> for TinyStark {
    type EvaluationFrame<FE, P, const D2: usize>
        = StarkFrame<P, P::Scalar, W, 0>
    where
        FE: FieldExtension<D2, BaseField = F>,
        P: PackedField<Scalar = FE>;

    type EvaluationFrameTarget = StarkFrame<ExtensionTarget<D>, ExtensionTarget<D>, W, 0>;

    fn eval_packed_generic<FE, P, const D2: usize>(
        &self,
        _vars: &Self::EvaluationFrame<FE, P, D2>,
        _yield_constr: &mut ConstraintConsumer<P>,
    ) where
        FE: FieldExtension<D2, BaseField = F>,
        P: PackedField<Scalar = FE>,
    {
    }

    fn eval_ext_circuit(
        &self,
        _builder: &mut CircuitBuilder<F, D>,
        _vars: &Self::EvaluationFrameTarget,
        _yield_constr: &mut RecursiveConstraintConsumer<F, D>,
    ) {
    }

    fn constraint_degree(&self) -> usize {
        self.degree
    }

    fn requires_ctls(&self) -> bool {
        true
    }
}

type Trace = Vec<PolynomialValues<F>>;

fn to_trace(rows: &[[u64; W]]) -> Trace {
    (0..W)
        .map(|c| {
            PolynomialValues::new(rows.iter().map(|r| F::from_canonical_u64(r[c])).collect())
        })
        .collect()
}

/// Proves every table of the system. The traces in `committed` are the ones that are committed to
/// and proven; the CTL helper columns and running sums are computed from `ctl_source` (an honest
/// prover passes the same traces twice).
fn prove_all<const N: usize>(
    committed: &[Trace; N],
    ctl_source: &[Trace; N],
    ctls: &[CrossTableLookup<F>],
    degree: usize,
    config: &StarkConfig,
) -> Result<Vec<StarkProofWithPublicInputs<F, C, D>>> {
    let mut timing = TimingTree::default();
    let rate_bits = config.fri_config.rate_bits;
    let cap_height = config.fri_config.cap_height;

    let commitments = committed
        .iter()
        .map(|t| {
            PolynomialBatch::<F, C, D>::from_values(
                t.clone(),
                rate_bits,
                false,
                cap_height,
                &mut timing,
                None,
            )
        })
        .collect::<Vec<_>>();

    let mut challenger = Challenger::<F, H>::new();
    for c in &commitments {
        challenger.observe_cap(&c.merkle_tree.cap);
    }

    let (ctl_challenges, ctl_data) =
        get_ctl_data::<F, C, D, N>(config, ctl_source, ctls, &mut challenger, degree);

    let stark = TinyStark { degree };
    let mut proofs = vec![];
    for i in 0..N {
        let mut ch = challenger.clone();
        config.observe(&mut ch);
        proofs.push(prove_with_commitment::<F, C, TinyStark, D>(
            &stark,
            config,
            &committed[i],
            &commitments[i],
            Some(&ctl_data[i]),
            Some(&ctl_challenges),
            &mut ch,
            &[],
            None,
            None,
            &mut timing,
        )?);
    }
    Ok(proofs)
}

/// Verifies every table's proof and the cross-table sums.
fn verify_all<const N: usize>(
    proofs: &[StarkProofWithPublicInputs<F, C, D>],
    ctls: &[CrossTableLookup<F>],
    degree: usize,
    extra_looking_sums: &HashMap<usize, Vec<F>>,
    config: &StarkConfig,
) -> Result<()> {
    let mut challenger = Challenger::<F, H>::new();
    for p in proofs {
        challenger.observe_cap(&p.proof.trace_cap);
    }
    let ctl_challenges = get_grand_product_challenge_set(&mut challenger, config.num_challenges);

    let stark = TinyStark { degree };
    let mut ctl_zs_first = vec![];
    for (i, p) in proofs.iter().enumerate() {
        let (total_helpers, _num_zs, helpers_by_ctl) =
            CrossTableLookup::num_ctl_helpers_zs_all(ctls, i, config.num_challenges, degree);
        let ctl_vars = CtlCheckVars::from_proof::<C>(
            i,
            &p.proof,
            ctls,
            &ctl_challenges,
            0,
            total_helpers,
            &helpers_by_ctl,
        );
        let mut ch = challenger.clone();
        let challenges = p.get_challenges(
            &stark,
            &mut ch,
            Some(&ctl_challenges),
            Some(&ctl_vars),
            true,
            config,
            None,
        );
        verify_stark_proof_with_challenges::<F, C, TinyStark, D>(
            &stark,
            &p.proof,
            &challenges,
            Some(&ctl_vars),
            &p.public_inputs,
            config,
        )?;
        ctl_zs_first.push(
            p.proof
                .openings
                .ctl_zs_first
                .clone()
                .ok_or_else(|| anyhow!("missing ctl_zs_first"))?,
        );
    }
    let ctl_zs_first: [Vec<F>; N] = ctl_zs_first.try_into().unwrap();
    verify_cross_table_lookups::<F, D, N>(ctls, ctl_zs_first, extra_looking_sums, config)
}

/// Full pipeline; a panic anywhere (e.g. the prover's debug constraint check, or a quotient that
/// is not a polynomial) counts as a rejection.
fn prove_and_verify<const N: usize>(
    committed: &[Trace; N],
    ctl_source: &[Trace; N],
    ctls: &[CrossTableLookup<F>],
    degree: usize,
) -> Result<()> {
    let config = StarkConfig::standard_fast_config();
    let res = catch_unwind(AssertUnwindSafe(|| {
        let proofs = prove_all(committed, ctl_source, ctls, degree, &config)?;
        verify_all::<N>(&proofs, ctls, degree, &HashMap::new(), &config)
    }));
    match res {
        Ok(r) => r,
        Err(_) => Err(anyhow!("panicked")),
    }
}

/// `(table, column, filter column)`.
type Side = (usize, usize, usize);

fn ctl(looking: &[Side], looked: Side) -> CrossTableLookup<F> {
    let twc = |&(t, c, f): &Side| {
        TableWithColumns::new(
            t,
            vec![Column::single(c)],
            Filter::new_simple(Column::single(f)),
        )
    };
    CrossTableLookup::new(looking.iter().map(twc).collect(), twc(&looked))
}

const ACTIVE: usize = 8;

/// Control: one looking table, one looked table, constraint degree 3: accepted.
#[test]
fn control_simple_ctl_degree_3_accepted() {
    let mut looking = vec![[0u64; W]; ROWS];
    let mut looked = vec![[0u64; W]; ROWS];
    for i in 0..ACTIVE {
        looking[i] = [100 + i as u64, 0, 0, 1];
        looked[ACTIVE - 1 - i] = [100 + i as u64, 1, 0, 0];
    }
    let t = [to_trace(&looking), to_trace(&looked)];
    prove_and_verify::<2>(&t, &t, &[ctl(&[(0, 0, 3)], (1, 0, 1))], 3).unwrap();
}

/// Finding 1: the very same honest system with constraint degree 2 (both tables) is rejected.
/// The looked-table / single-looking-table CTL constraint `L_last(x) * (combine * Z - filter)`
/// has degree 3, which does not fit the quotient of a degree-2 STARK: the prover silently
/// produces a wrong quotient and the verifier reports
/// "Mismatch between evaluation and opening of quotient polynomial".
#[test]
fn finding_1_simple_ctl_degree_2_accepted() {
    let mut looking = vec![[0u64; W]; ROWS];
    let mut looked = vec![[0u64; W]; ROWS];
    for i in 0..ACTIVE {
        looking[i] = [100 + i as u64, 0, 0, 1];
        looked[ACTIVE - 1 - i] = [100 + i as u64, 1, 0, 0];
    }
    let t = [to_trace(&looking), to_trace(&looked)];
    prove_and_verify::<2>(&t, &t, &[ctl(&[(0, 0, 3)], (1, 0, 1))], 2)
        .expect("honest CTL at constraint degree 2");
}

/// Finding 2: a table that looks into itself (same table index on the looking and on the looked
/// side of one CTL). `CrossTableLookup::num_ctl_helpers_zs_all` counts the looked occurrence
/// together with the looking ones (2 appearances => 1 helper column), while the prover
/// (`partial_sums`) creates no helper column for a single looking occurrence.
#[test]
fn finding_2_table_looking_into_itself_accepted() {
    // Table 0: [a, t, ft, f]: (a | f) looks into (t | ft). Table 1 / 2: plain CTL so that every
    // table takes part in some CTL.
    let mut t0 = vec![[0u64; W]; ROWS];
    let mut looking = vec![[0u64; W]; ROWS];
    let mut looked = vec![[0u64; W]; ROWS];
    for i in 0..ACTIVE {
        t0[i][0] = 100 + i as u64;
        t0[i][3] = 1;
        t0[ROWS - 1 - i][1] = 100 + i as u64;
        t0[ROWS - 1 - i][2] = 1;
        looking[i] = [100 + i as u64, 0, 0, 1];
        looked[i] = [100 + i as u64, 1, 0, 0];
    }
    let t = [to_trace(&t0), to_trace(&looking), to_trace(&looked)];
    let ctls = [ctl(&[(0, 0, 3)], (0, 1, 2)), ctl(&[(1, 0, 3)], (2, 0, 1))];
    prove_and_verify::<3>(&t, &t, &ctls, 3).expect("honest self-lookup");
}

/// Finding 3: a looking table that is repeated non-consecutively: looking tables `[0, 1, 0]`.
/// The prover groups *consecutive* equal tables (`group_by` in `ctl_helper_zs_cols`) and emits two
/// separate running sums for table 0, while `CtlCheckVars::from_proof`,
/// `num_ctl_helpers_zs_all` and `verify_cross_table_lookups` treat all occurrences of table 0 as
/// one group.
#[test]
fn finding_3_non_consecutive_repeated_looking_table_accepted() {
    let mut t0 = vec![[0u64; W]; ROWS];
    let mut t1 = vec![[0u64; W]; ROWS];
    let mut looked = vec![[0u64; W]; ROWS];
    for i in 0..ACTIVE {
        t0[i] = [100 + i as u64, 200 + i as u64, 0, 1];
        t1[i] = [300 + i as u64, 0, 0, 1];
        looked[3 * i] = [100 + i as u64, 1, 0, 0];
        looked[3 * i + 1] = [200 + i as u64, 1, 0, 0];
        looked[3 * i + 2] = [300 + i as u64, 1, 0, 0];
    }
    let t = [to_trace(&t0), to_trace(&t1), to_trace(&looked)];

    // Control: consecutive order [0, 0, 1] is accepted.
    let ctls = [ctl(&[(0, 0, 3), (0, 1, 3), (1, 0, 3)], (2, 0, 1))];
    prove_and_verify::<3>(&t, &t, &ctls, 3).expect("consecutive repeated looking table");

    // Same lookups, declared in the order [0, 1, 0].
    let ctls = [ctl(&[(0, 0, 3), (1, 0, 3), (0, 1, 3)], (2, 0, 1))];
    prove_and_verify::<3>(&t, &t, &ctls, 3).expect("non-consecutive repeated looking table");
}
