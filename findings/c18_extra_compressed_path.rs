//! C18 on the UNMODIFIED code: the compressed verification path (`verify_compressed`,
//! `decompress`) performs no shape validation before it indexes into the proof, so structurally
//! arbitrary compressed proofs -- including ones produced by the byte decoder from an edited
//! encoding -- make it panic instead of returning `Err`.

use std::panic::{catch_unwind, AssertUnwindSafe};

use plonky2::field::types::Field;
use plonky2::iop::witness::{PartialWitness, WitnessWrite};
use plonky2::plonk::circuit_builder::CircuitBuilder;
use plonky2::plonk::circuit_data::{CircuitConfig, CircuitData};
use plonky2::plonk::config::{GenericConfig, PoseidonGoldilocksConfig};
use plonky2::plonk::proof::CompressedProofWithPublicInputs;

const D: usize = 2;
type C = PoseidonGoldilocksConfig;
type F = <C as GenericConfig<D>>::F;

fn circuit_and_proof() -> (
    CircuitData<F, C, D>,
    CompressedProofWithPublicInputs<F, C, D>,
) {
    let config = CircuitConfig::standard_recursion_config();
    let mut builder = CircuitBuilder::<F, D>::new(config);
    let x = builder.add_virtual_target();
    let y = builder.add_virtual_target();
    let z = builder.mul(x, y);
    builder.register_public_input(x);
    builder.register_public_input(y);
    builder.register_public_input(z);
    let data = builder.build::<C>();

    let mut pw = PartialWitness::new();
    pw.set_target(x, F::from_canonical_u64(3)).unwrap();
    pw.set_target(y, F::from_canonical_u64(5)).unwrap();
    let proof = data.prove(pw).unwrap();
    let compressed = data.compress(proof).unwrap();
    data.verify_compressed(compressed.clone()).unwrap();
    (data, compressed)
}

fn verify_outcome(
    data: &CircuitData<F, C, D>,
    proof: CompressedProofWithPublicInputs<F, C, D>,
) -> &'static str {
    match catch_unwind(AssertUnwindSafe(|| data.verify_compressed(proof))) {
        Ok(Err(_)) => "Err",
        Ok(Ok(())) => "ACCEPTED",
        Err(_) => "PANICKED",
    }
}

fn decompress_outcome(
    data: &CircuitData<F, C, D>,
    proof: CompressedProofWithPublicInputs<F, C, D>,
) -> &'static str {
    match catch_unwind(AssertUnwindSafe(|| data.decompress(proof))) {
        Ok(Err(_)) => "Err",
        Ok(Ok(_)) => "Ok",
        Err(_) => "PANICKED",
    }
}

/// A wire opening is missing: `verify_compressed` never checks the lengths of the opening set.
#[test]
fn compressed_truncated_wire_openings() {
    let (data, compressed) = circuit_and_proof();
    let mut p = compressed;
    p.proof.openings.wires.pop();
    assert_eq!(verify_outcome(&data, p), "Err");
}

/// The quotient openings carry one surplus chunk.
#[test]
fn compressed_surplus_quotient_openings() {
    let (data, compressed) = circuit_and_proof();
    let mut p = compressed;
    let extra = p.proof.openings.quotient_polys.clone();
    p.proof.openings.quotient_polys.extend(extra);
    assert_eq!(verify_outcome(&data, p), "Err");
}

/// The initial-tree openings of one queried index are missing.
#[test]
fn compressed_missing_initial_tree_proof() {
    let (data, compressed) = circuit_and_proof();
    let mut p = compressed.clone();
    let key = *p
        .proof
        .opening_proof
        .query_round_proofs
        .initial_trees_proofs
        .keys()
        .next()
        .unwrap();
    p.proof
        .opening_proof
        .query_round_proofs
        .initial_trees_proofs
        .remove(&key);
    assert_eq!(verify_outcome(&data, p.clone()), "Err");
    assert_ne!(decompress_outcome(&data, p), "PANICKED");
}

/// No query data at all.
#[test]
fn compressed_empty_query_rounds() {
    let (data, compressed) = circuit_and_proof();
    let mut p = compressed;
    p.proof
        .opening_proof
        .query_round_proofs
        .initial_trees_proofs
        .clear();
    for s in p.proof.opening_proof.query_round_proofs.steps.iter_mut() {
        s.clear();
    }
    assert_eq!(verify_outcome(&data, p.clone()), "Err");
    assert_ne!(decompress_outcome(&data, p), "PANICKED");
}

/// Byte-level: flip one bit of the first query index in a valid encoding. The decoder accepts the
/// bytes (it keys the per-index data by whatever indices the encoding claims), and verification
/// must then reject the decoded proof without panicking.
#[test]
fn compressed_bytes_with_edited_query_index() {
    let (data, compressed) = circuit_and_proof();
    let bytes = compressed.to_bytes();

    // Locate the block of u32 query indices inside the encoding.
    let indices = &compressed.proof.opening_proof.query_round_proofs.indices;
    let pattern: Vec<u8> = indices
        .iter()
        .flat_map(|&i| (i as u32).to_le_bytes())
        .collect();
    let pos = bytes
        .windows(pattern.len())
        .position(|w| w == pattern.as_slice())
        .expect("query indices not found in the encoding");

    let mut outcomes = vec![];
    for bit in 0..8 {
        let mut edited = bytes.clone();
        edited[pos] ^= 1 << bit;
        let res = catch_unwind(AssertUnwindSafe(|| {
            let decoded =
                CompressedProofWithPublicInputs::<F, C, D>::from_bytes(edited, &data.common)?;
            data.verify_compressed(decoded)
        }));
        let s = match res {
            Ok(Err(_)) => "Err",
            Ok(Ok(())) => "ACCEPTED",
            Err(_) => "PANICKED",
        };
        outcomes.push((bit, s));
    }
    assert!(
        outcomes.iter().all(|(_, s)| *s == "Err"),
        "from_bytes + verify_compressed on an encoding with one flipped bit in the first query \
         index: {outcomes:?}"
    );
}
