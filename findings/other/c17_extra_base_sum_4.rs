//! Observation on the UNMODIFIED code: a circuit using the built-in gadget
//! `CircuitBuilder::split_le_base::<4>` (built-in `BaseSumGate<4>` + `BaseSplitGenerator<4>`)
//! cannot be encoded with the default serializers, because only the `B = 2` instantiations are
//! registered in `DefaultGateSerializer` / `DefaultGeneratorSerializer`.
//!
//! Copy to `plonky2/tests/` and run with
//! `cargo test --offline -p plonky2 --test c17_extra_base_sum_4 -- --test-threads 4`.

use plonky2::field::types::Field;
use plonky2::iop::witness::{PartialWitness, WitnessWrite};
use plonky2::plonk::circuit_builder::CircuitBuilder;
use plonky2::plonk::circuit_data::{CircuitConfig, CircuitData, CommonCircuitData};
use plonky2::plonk::config::{GenericConfig, PoseidonGoldilocksConfig};
use plonky2::util::serialization::{DefaultGateSerializer, DefaultGeneratorSerializer};

const D: usize = 2;
type C = PoseidonGoldilocksConfig;
type F = <C as GenericConfig<D>>::F;

fn build<const B: usize>() -> CircuitData<F, C, D> {
    let config = CircuitConfig::standard_recursion_config();
    let mut builder = CircuitBuilder::<F, D>::new(config);
    let x = builder.add_virtual_public_input();
    let limbs = builder.split_le_base::<B>(x, 6);
    builder.register_public_inputs(&limbs);
    let data = builder.build::<C>();

    // The circuit itself is fine.
    let mut pw = PartialWitness::new();
    pw.set_target(x, F::from_canonical_u64(27)).unwrap();
    let proof = data.prove(pw).unwrap();
    data.verify(proof).unwrap();
    data
}

fn roundtrip(data: &CircuitData<F, C, D>) {
    let gate_serializer = DefaultGateSerializer;
    let generator_serializer = DefaultGeneratorSerializer::<C, D>::default();

    let common_bytes = data
        .common
        .to_bytes(&gate_serializer)
        .expect("common data of a circuit made of built-in gates cannot be encoded");
    let common = CommonCircuitData::<F, D>::from_bytes(common_bytes, &gate_serializer).unwrap();
    assert_eq!(data.common, common);

    let bytes = data
        .to_bytes(&gate_serializer, &generator_serializer)
        .expect("circuit made of built-in gates/generators cannot be encoded");
    let restored =
        CircuitData::<F, C, D>::from_bytes(&bytes, &gate_serializer, &generator_serializer)
            .unwrap();
    assert_eq!(data, &restored);
}

#[test]
fn base_2_roundtrips() {
    roundtrip(&build::<2>());
}

#[test]
fn base_4_roundtrips() {
    roundtrip(&build::<4>());
}
