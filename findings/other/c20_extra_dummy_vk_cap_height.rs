//! C20 extra (UNMODIFIED code): `conditionally_verify_proof_or_dummy` cannot be used when the
//! inner circuit's FRI cap height differs from the outer circuit's, because
//! `CircuitBuilder::dummy_proof_and_vk` allocates the dummy verifier-data target with the OUTER
//! builder's `cap_height` (`self.config.fri_config.cap_height`) instead of the inner
//! `common_data.config.fri_config.cap_height`.
//!
//! Copy to plonky2/tests/ and run with:
//!   cargo test --offline --release -j 4 -p plonky2 --test c20_extra_dummy_vk_cap_height -- --test-threads 2

use plonky2::field::types::Field;
use plonky2::gates::noop::NoopGate;
use plonky2::iop::witness::{PartialWitness, WitnessWrite};
use plonky2::plonk::circuit_builder::CircuitBuilder;
use plonky2::plonk::circuit_data::CircuitConfig;
use plonky2::plonk::config::{GenericConfig, PoseidonGoldilocksConfig};

const D: usize = 2;
type C = PoseidonGoldilocksConfig;
type F = <C as GenericConfig<D>>::F;

fn run(inner_cap_height: usize) -> anyhow::Result<()> {
    // Inner circuit with the requested cap height.
    let mut inner_config = CircuitConfig::standard_recursion_config();
    inner_config.fri_config.cap_height = inner_cap_height;
    let mut builder = CircuitBuilder::<F, D>::new(inner_config);
    let t = builder.add_virtual_public_input();
    let _ = builder.square(t);
    for _ in 0..64 {
        builder.add_gate(NoopGate, vec![]);
    }
    let inner = builder.build::<C>();
    let mut pw = PartialWitness::new();
    pw.set_target(t, F::from_canonical_u64(5))?;
    let inner_proof = inner.prove(pw)?;
    inner.verify(inner_proof.clone())?;

    // Outer circuit: standard config (cap height 4).
    for cond in [true, false] {
        let mut builder = CircuitBuilder::<F, D>::new(CircuitConfig::standard_recursion_config());
        let b = builder.add_virtual_bool_target_safe();
        let pt = builder.add_virtual_proof_with_pis(&inner.common);
        let vd = builder.add_virtual_verifier_data(inner.common.config.fri_config.cap_height);
        builder.conditionally_verify_proof_or_dummy::<C>(b, &pt, &vd, &inner.common)?;
        let outer = builder.build::<C>();
        let mut pw = PartialWitness::new();
        pw.set_bool_target(b, cond)?;
        pw.set_proof_with_pis_target(&pt, &inner_proof)?;
        pw.set_verifier_data_target(&vd, &inner.verifier_only)?;
        let proof = outer.prove(pw)?;
        outer.verify(proof)?;
    }
    Ok(())
}

#[test]
fn proof_or_dummy_same_cap_height() {
    run(4).unwrap();
}

#[test]
fn proof_or_dummy_smaller_inner_cap_height() {
    // Fails on the unmodified code: panics in `select_cap` (`assert_eq!(cap0.0.len(), cap1.0.len())`,
    // 8 vs 16) while the outer circuit is being built.
    run(3).unwrap();
}
