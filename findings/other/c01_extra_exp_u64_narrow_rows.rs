//! Candidate violation of C01 in the UNMODIFIED code (place in plonky2/tests/ to run):
//! `exp_u64` / `exp` / `exp_from_bits` never split an exponent over several
//! `ExponentiationGate`s. The gate holds `min(num_routed_wires - 2, (num_wires - 2) / 2)` bits
//! (66 for the standard config, so any u64 fits), but only 35 bits for the 37-routed-wire config
//! used by plonky2's own size-optimised recursion test. A longer exponent makes circuit
//! construction panic (debug assertion in `wire_power_bit` / non-routable wire in `connect`).

use anyhow::Result;
use plonky2::field::types::Field;
use plonky2::iop::witness::{PartialWitness, WitnessWrite};
use plonky2::plonk::circuit_builder::CircuitBuilder;
use plonky2::plonk::circuit_data::CircuitConfig;
use plonky2::plonk::config::{GenericConfig, PoseidonGoldilocksConfig};

const D: usize = 2;
type C = PoseidonGoldilocksConfig;
type F = <C as GenericConfig<D>>::F;

fn run(config: CircuitConfig, exponent: u64) -> Result<()> {
    let mut builder = CircuitBuilder::<F, D>::new(config);
    let x = builder.add_virtual_target();
    let y = builder.exp_u64(x, exponent);
    builder.register_public_input(y);
    let data = builder.build::<C>();

    let xv = F::from_canonical_u64(3);
    let mut pw = PartialWitness::new();
    pw.set_target(x, xv)?;
    let proof = data.prove(pw)?;
    assert_eq!(proof.public_inputs, vec![xv.exp_u64(exponent)]);
    data.verify(proof)
}

/// Control: standard width, 41-bit exponent.
#[test]
fn exp_u64_large_exponent_standard_rows() -> Result<()> {
    run(CircuitConfig::standard_recursion_config(), 1 << 40)
}

/// Narrow rows, exponent that still fits in one gate (35 bits).
#[test]
fn exp_u64_small_exponent_narrow_rows() -> Result<()> {
    run(
        CircuitConfig {
            num_routed_wires: 37,
            ..CircuitConfig::standard_recursion_config()
        },
        (1 << 34) + 5,
    )
}

/// Narrow rows, 41-bit exponent: expected to work by C01, panics in the unmodified code.
#[test]
fn exp_u64_large_exponent_narrow_rows() -> Result<()> {
    run(
        CircuitConfig {
            num_routed_wires: 37,
            ..CircuitConfig::standard_recursion_config()
        },
        1 << 40,
    )
}
