//! SIDE FINDING (not a mutation): on the UNMODIFIED code, a proof with `quotient_polys_cap: None`
//! passes `validate_proof_shape` (`quotient_polys_cap.is_none() || ...`). Then
//!   * the Fiat-Shamir transcript does not bind the quotient polynomials before `zeta` is drawn,
//!   * `merkle_caps` has one entry fewer than `fri_instance().oracles`, and
//!     `fri_verify_initial_proof` zips leaves with caps, so the quotient leaves are never
//!     authenticated.
//! A prover can therefore pick the quotient polynomials AFTER seeing `zeta`, such that the identity
//! `vanishing(zeta) == Z_H(zeta) t(zeta)` holds at that single point, for an arbitrary trace.

use core::marker::PhantomData;

use plonky2::field::extension::{Extendable, FieldExtension};
use plonky2::field::packed::PackedField;
use plonky2::field::polynomial::{PolynomialCoeffs, PolynomialValues};
use plonky2::field::types::Field;
use plonky2::fri::oracle::PolynomialBatch;
use plonky2::fri::structure::{FriOpeningBatch, FriOpenings};
use plonky2::hash::hash_types::RichField;
use plonky2::iop::challenger::Challenger;
use plonky2::iop::ext_target::ExtensionTarget;
use plonky2::plonk::circuit_builder::CircuitBuilder;
use plonky2::plonk::config::{GenericConfig, PoseidonGoldilocksConfig};
use plonky2::util::timing::TimingTree;
use starky::config::StarkConfig;
use starky::constraint_consumer::{ConstraintConsumer, RecursiveConstraintConsumer};
use starky::evaluation_frame::{StarkEvaluationFrame, StarkFrame};
use starky::proof::{StarkOpeningSet, StarkProof, StarkProofWithPublicInputs};
use starky::stark::Stark;
use starky::util::trace_rows_to_poly_values;
use starky::verifier::verify_stark_proof;

#[derive(Copy, Clone)]
struct FibonacciStark<F: RichField + Extendable<D>, const D: usize> {
    num_rows: usize,
    _phantom: PhantomData<F>,
}

impl<F: RichField + Extendable<D>, const D: usize> FibonacciStark<F, D> {
    const PI_INDEX_X0: usize = 0;
    const PI_INDEX_X1: usize = 1;
    const PI_INDEX_RES: usize = 2;

    const fn new(num_rows: usize) -> Self {
        Self {
            num_rows,
            _phantom: PhantomData,
        }
    }

    /// Generate the trace using `x0, x1` as initial state values.
    fn generate_trace(&self, x0: F, x1: F) -> Vec<PolynomialValues<F>> {
        let trace_rows = (0..self.num_rows)
            .scan([x0, x1], |acc, _| {
                let tmp = *acc;
                acc[0] = tmp[1];
                acc[1] = tmp[0] + tmp[1];
                Some(tmp)
            })
            .collect::<Vec<_>>();
        trace_rows_to_poly_values(trace_rows)
    }
}

const FIBONACCI_COLUMNS: usize = 2;
const FIBONACCI_PUBLIC_INPUTS: usize = 3;

impl<F: RichField + Extendable<D>, const D: usize> Stark<F, D> for FibonacciStark<F, D> {
    type EvaluationFrame<FE, P, const D2: usize>
        = StarkFrame<P, P::Scalar, FIBONACCI_COLUMNS, FIBONACCI_PUBLIC_INPUTS>
    where
        FE: FieldExtension<D2, BaseField = F>,
        P: PackedField<Scalar = FE>;

    type EvaluationFrameTarget = StarkFrame<
        ExtensionTarget<D>,
        ExtensionTarget<D>,
        FIBONACCI_COLUMNS,
        FIBONACCI_PUBLIC_INPUTS,
    >;

    fn eval_packed_generic<FE, P, const D2: usize>(
        &self,
        vars: &Self::EvaluationFrame<FE, P, D2>,
        yield_constr: &mut ConstraintConsumer<P>,
    ) where
        FE: FieldExtension<D2, BaseField = F>,
        P: PackedField<Scalar = FE>,
    {
        let local_values = vars.get_local_values();
        let next_values = vars.get_next_values();
        let public_inputs = vars.get_public_inputs();

        // Check public inputs.
        yield_constr.constraint_first_row(local_values[0] - public_inputs[Self::PI_INDEX_X0]);
        yield_constr.constraint_first_row(local_values[1] - public_inputs[Self::PI_INDEX_X1]);
        yield_constr.constraint_last_row(local_values[1] - public_inputs[Self::PI_INDEX_RES]);

        // x0' <- x1
        yield_constr.constraint_transition(next_values[0] - local_values[1]);
        // x1' <- x0 + x1
        yield_constr.constraint_transition(next_values[1] - local_values[0] - local_values[1]);
    }

    fn eval_ext_circuit(
        &self,
        builder: &mut CircuitBuilder<F, D>,
        vars: &Self::EvaluationFrameTarget,
        yield_constr: &mut RecursiveConstraintConsumer<F, D>,
    ) {
        let local_values = vars.get_local_values();
        let next_values = vars.get_next_values();
        let public_inputs = vars.get_public_inputs();
        let pis_constraints = [
            builder.sub_extension(local_values[0], public_inputs[Self::PI_INDEX_X0]),
            builder.sub_extension(local_values[1], public_inputs[Self::PI_INDEX_X1]),
            builder.sub_extension(local_values[1], public_inputs[Self::PI_INDEX_RES]),
        ];
        yield_constr.constraint_first_row(builder, pis_constraints[0]);
        yield_constr.constraint_first_row(builder, pis_constraints[1]);
        yield_constr.constraint_last_row(builder, pis_constraints[2]);

        let first_col_constraint = builder.sub_extension(next_values[0], local_values[1]);
        yield_constr.constraint_transition(builder, first_col_constraint);
        let second_col_constraint = {
            let tmp = builder.sub_extension(next_values[1], local_values[0]);
            builder.sub_extension(tmp, local_values[1])
        };
        yield_constr.constraint_transition(builder, second_col_constraint);
    }

    fn constraint_degree(&self) -> usize {
        2
    }
}

const D: usize = 2;
type C = PoseidonGoldilocksConfig;
type F = <C as GenericConfig<D>>::F;
type FE = <F as Extendable<D>>::Extension;
type H = <C as GenericConfig<D>>::Hasher;
type S = FibonacciStark<F, D>;

/// `sum_i alpha^i C_i` of the real stark at a point, from openings (what the verifier computes).
fn vanishing_at(
    stark: &S,
    local: &[FE],
    next: &[FE],
    public_inputs: &[F],
    alphas: &[F],
    point: FE,
    degree_bits: usize,
) -> Vec<FE> {
    let n = FE::from_canonical_usize(1 << degree_bits);
    let g = <FE as FieldExtension<D>>::from_basefield(F::primitive_root_of_unity(degree_bits));
    let z_x = point.exp_power_of_2(degree_bits) - FE::ONE;
    let l_0 = z_x / (n * (point - FE::ONE));
    let l_last = z_x / (n * (g * point - FE::ONE));
    let z_last = point - g.inverse();
    let mut consumer = ConstraintConsumer::<FE>::new(
        alphas.iter().map(|&a| <FE as FieldExtension<D>>::from_basefield(a)).collect(),
        z_last,
        l_0,
        l_last,
    );
    let pis = public_inputs
        .iter()
        .map(|&p| <FE as FieldExtension<D>>::from_basefield(p))
        .collect::<Vec<_>>();
    let vars = <S as Stark<F, D>>::EvaluationFrame::<FE, FE, D>::from_values(local, next, &pis);
    stark.eval_ext(&vars, &mut consumer);
    consumer.accumulators()
}

#[test]
fn proof_without_quotient_cap_for_garbage_trace_is_rejected() {
    let config = StarkConfig::standard_fast_config();
    let degree_bits = 5;
    let num_rows = 1 << degree_bits;
    let stark = S::new(num_rows);
    let rate_bits = config.fri_config.rate_bits;
    let cap_height = config.fri_config.cap_height;
    let num_challenges = config.num_challenges;
    let timing = &mut TimingTree::default();

    // Garbage trace, false claim.
    let public_inputs = [F::ZERO, F::ONE, F::from_canonical_u64(42)];
    let trace = (0..FIBONACCI_COLUMNS)
        .map(|c| {
            PolynomialValues::new(
                (0..num_rows)
                    .map(|r| F::from_canonical_usize(1000 * c + 7 * r * r + 3))
                    .collect(),
            )
        })
        .collect::<Vec<_>>();

    let trace_commitment =
        PolynomialBatch::<F, C, D>::from_values(trace, rate_bits, false, cap_height, timing, None);
    let trace_cap = trace_commitment.merkle_tree.cap.clone();

    // Replay the verifier's transcript (get_challenges) for a proof with no quotient cap.
    let mut challenger = Challenger::<F, H>::new();
    challenger.observe_elements(&public_inputs);
    config.observe(&mut challenger);
    challenger.observe_cap(&trace_cap);
    let alphas_prime = challenger.get_n_challenges(num_challenges);
    // Dummy polys: pow_degree = 3, 4 dummy evals from one extension challenge.
    let pow_degree = core::cmp::max(2, stark.constraint_degree() + 1) as u64;
    let sim = challenger.get_n_extension_challenges::<D>(1);
    let mut dummy = vec![sim[0]];
    for i in 1..2 * FIBONACCI_COLUMNS {
        let prev: FE = dummy[i - 1];
        dummy.push(prev.exp_u64(pow_degree));
    }
    let zeta_prime = challenger.get_extension_challenge::<D>();
    let binding = vanishing_at(
        &stark,
        &dummy[..FIBONACCI_COLUMNS],
        &dummy[FIBONACCI_COLUMNS..],
        &public_inputs,
        &alphas_prime,
        zeta_prime,
        degree_bits,
    );
    challenger.observe_extension_elements::<D>(&binding);
    let alphas = challenger.get_n_challenges(num_challenges);
    // NOTE: no quotient cap is observed here.
    let zeta = challenger.get_extension_challenge::<D>();

    // Now that zeta is known, choose the "quotient" polynomials t_j(X) = c0 + c1 X.
    let g = F::primitive_root_of_unity(degree_bits);
    let trace_openings =
        StarkOpeningSet::<F, D>::new::<C>(zeta, g, &trace_commitment, None, None, 0, false, &[]);
    let vanishing = vanishing_at(
        &stark,
        &trace_openings.local_values,
        &trace_openings.next_values,
        &public_inputs,
        &alphas,
        zeta,
        degree_bits,
    );
    let z_h_zeta = zeta.exp_power_of_2(degree_bits) - FE::ONE;
    let [z0, z1] = <FE as FieldExtension<D>>::to_basefield_array(&zeta);
    let quotient_polys = vanishing
        .iter()
        .map(|&v| {
            let [a, b] = <FE as FieldExtension<D>>::to_basefield_array(&(v / z_h_zeta));
            let c1 = b / z1;
            let c0 = a - c1 * z0;
            let mut coeffs = vec![F::ZERO; num_rows];
            coeffs[0] = c0;
            coeffs[1] = c1;
            PolynomialCoeffs::new(coeffs)
        })
        .collect::<Vec<_>>();
    let quotient_commitment = PolynomialBatch::<F, C, D>::from_coeffs(
        quotient_polys,
        rate_bits,
        false,
        cap_height,
        timing,
        None,
    );

    let openings = StarkOpeningSet::<F, D>::new::<C>(
        zeta,
        g,
        &trace_commitment,
        None,
        Some(&quotient_commitment),
        0,
        false,
        &[],
    );
    let fri_openings = FriOpenings::<F, D> {
        batches: vec![
            FriOpeningBatch::<F, D> {
                values: openings
                    .local_values
                    .iter()
                    .chain(openings.quotient_polys.iter().flatten())
                    .copied()
                    .collect(),
            },
            FriOpeningBatch::<F, D> {
                values: openings.next_values.clone(),
            },
        ],
    };
    challenger.observe_openings(&fri_openings);

    let opening_proof = PolynomialBatch::<F, C, D>::prove_openings(
        &stark.fri_instance(zeta, g, 0, vec![], &config),
        &[&trace_commitment, &quotient_commitment],
        &mut challenger,
        &config.fri_params(degree_bits),
        None,
        None,
        timing,
    );

    let forged = StarkProofWithPublicInputs::<F, C, D> {
        proof: StarkProof {
            trace_cap,
            auxiliary_polys_cap: None,
            quotient_polys_cap: None, // <- the quotient commitment is simply withheld
            openings,
            opening_proof,
        },
        public_inputs: public_inputs.to_vec(),
    };

    let verdict = verify_stark_proof(stark, forged, &config, None);
    assert!(
        verdict.is_err(),
        "proof with quotient_polys_cap = None accepted for a garbage trace and a false claim"
    );
}
