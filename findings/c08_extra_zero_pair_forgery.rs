//! C08, finding on the UNMODIFIED code: a proof is accepted in which a lookup reads the pair
//! (0, 0) although (0, 0) is not an entry of the (only) table.
//!
//! Cause: `check_lookup_constraints*` enforce the *initial* value of the running `Sum` on the row
//! after the first `LookupTableGate` row (the `NoopGate` row) through
//! `InitSre * z_x_lookup_sldcs[0]`, but the transition constraint of the first table row reads its
//! predecessor from `z_gx_lookup_sldcs[num_sldc_polys - 1]`, i.e. from the LAST partial polynomial
//! on the Noop row. With more than one partial polynomial that value is not constrained by
//! anything, so a prover can start `Sum` at an arbitrary value and cancel any `Sum - LDC` mismatch.
//!
//! The attack below does not even need a hand-written prover: it only feeds the library prover
//! (`prove_with_partition_witness`) with prover-side data that has been tampered with (prover-only
//! data and the witness are entirely under the prover's control), and the resulting proof is
//! checked with the untouched verifier data.
//!
//! Run with:
//!   cargo test --offline -j 4 -p plonky2 --test c08_extra_zero_pair_forgery -- --test-threads 2

use std::sync::Arc;

use plonky2::field::types::Field;
use plonky2::gates::lookup_table::LookupTable;
use plonky2::iop::generator::generate_partial_witness;
use plonky2::iop::target::Target;
use plonky2::iop::witness::{PartialWitness, PartitionWitness, WitnessWrite};
use plonky2::plonk::circuit_builder::CircuitBuilder;
use plonky2::plonk::circuit_data::{CircuitConfig, CircuitData, VerifierCircuitData};
use plonky2::plonk::config::{GenericConfig, PoseidonGoldilocksConfig};
use plonky2::plonk::prover::prove_with_partition_witness;
use plonky2::util::timing::TimingTree;

const D: usize = 2;
type C = PoseidonGoldilocksConfig;
type F = <C as GenericConfig<D>>::F;

fn overwrite(pw: &mut PartitionWitness<F>, t: Target, v: F) {
    let rep = pw.representative_map[t.index(pw.num_wires, pw.degree)];
    pw.values[rep] = Some(v);
}

#[test]
fn pair_zero_zero_is_accepted_although_not_in_table() {
    let config = CircuitConfig::standard_recursion_config();
    let num_lu_slots = config.num_routed_wires / 2; // 40
    let num_lut_slots = config.num_routed_wires / 3; // 26

    // A table that does not contain the pair (0, 0), nor the input 0, nor the output 0.
    let pairs: Vec<(u16, u16)> = vec![(5, 50), (6, 60), (7, 70)];
    assert!(pairs.iter().all(|&(i, o)| i != 0 && o != 0));
    let table: LookupTable = Arc::new(pairs.clone());

    let mut builder = CircuitBuilder::<F, D>::new(config);
    let lut = builder.add_lookup_table_from_pairs(table);
    let inp = builder.add_virtual_target();
    let out = builder.add_lookup_from_index(inp, lut);
    let data = builder.build::<C>();

    // ---- honest run, for reference ----
    let mut pw = PartialWitness::new();
    pw.set_target(inp, F::from_canonical_u16(5)).unwrap();
    let honest = data.prove(pw.clone()).unwrap();
    data.verify(honest).unwrap();

    // ---- malicious prover ----
    let CircuitData {
        mut prover_only, // the prover's private copy
        verifier_only,
        common,
    } = data;
    // Untouched, this is all the verifier ever sees of the circuit.
    let verifier = VerifierCircuitData {
        verifier_only,
        common,
    };
    let common = &verifier.common;

    // 1. Generate an honest witness, then overwrite the looked-up pair with (0, 0).
    let rep_map = prover_only.representative_map.clone();
    let honest_part = generate_partial_witness(pw, &prover_only, common).unwrap();
    let mut part = PartitionWitness {
        values: honest_part.values.clone(),
        representative_map: &rep_map,
        num_wires: honest_part.num_wires,
        degree: honest_part.degree,
    };
    drop(honest_part);
    overwrite(&mut part, inp, F::ZERO);
    overwrite(&mut part, out, F::ZERO);

    // 2. Do not credit any multiplicity and do not pad the LookupGate: all its 40 slots now hold
    //    the pair (0, 0).
    assert_eq!(prover_only.lut_to_lookups.len(), 1);
    prover_only.lut_to_lookups[0].clear();

    // 3. Make the library prover extend the running Sum/RE by one row, onto the Noop row that
    //    follows the table, and give that row's last table slot (covered by the LAST partial
    //    polynomial) multiplicity 40 for the all-zero "entry" found there.
    assert_eq!(prover_only.lookup_rows.len(), 1);
    let noop_row = prover_only.lookup_rows[0].first_lut_gate + 1;
    prover_only.lookup_rows[0].first_lut_gate = noop_row;
    let mult_wire = 3 * (num_lut_slots - 1) + 2; // LookupTableGate::wire_ith_multiplicity(25)
    overwrite(
        &mut part,
        Target::wire(noop_row, mult_wire),
        F::from_canonical_usize(num_lu_slots),
    );

    let mut timing = TimingTree::default();
    let forged = prove_with_partition_witness(&prover_only, common, part, &mut timing)
        .expect("library prover refused the tampered witness");

    let verdict = verifier.verify(forged);
    assert!(
        verdict.is_err(),
        "SOUNDNESS: the verifier accepted a proof whose only lookup is the pair (0, 0), \
         which is not an entry of the table {:?}",
        pairs
    );
}
