//! The UNMODIFIED `inv_mod_xn` and `div_rem` violate their defining identities on sparse /
//! structured operands. Nothing here depends on any mutation.
use std::panic::catch_unwind;

use plonky2_field::goldilocks_field::GoldilocksField;
use plonky2_field::polynomial::PolynomialCoeffs;
use plonky2_field::types::Field;

type F = GoldilocksField;

fn naive_mul(a: &[F], b: &[F]) -> Vec<F> {
    if a.is_empty() || b.is_empty() {
        return vec![];
    }
    let mut out = vec![F::ZERO; a.len() + b.len() - 1];
    for (i, &x) in a.iter().enumerate() {
        for (j, &y) in b.iter().enumerate() {
            out[i + j] += x * y;
        }
    }
    out
}

fn poly(c: &[i64]) -> PolynomialCoeffs<F> {
    PolynomialCoeffs::new(
        c.iter()
            .map(|&x| {
                if x < 0 {
                    -F::from_canonical_u64((-x) as u64)
                } else {
                    F::from_canonical_u64(x as u64)
                }
            })
            .collect(),
    )
}

/// `(1 + X^2)^{-1} mod X^n` is `1 - X^2 + X^4 - ...`; the Newton iteration trims each new block
/// before appending it, so the blocks get misaligned as soon as one of them ends in a zero.
#[test]
fn inv_mod_xn_of_one_plus_x_squared() {
    let a = poly(&[1, 0, 1]);
    let mut bad = vec![];
    for n in 1..=16usize {
        let a2 = a.clone();
        let res = catch_unwind(move || a2.inv_mod_xn(n));
        match res {
            Err(_) => bad.push(format!("n={n}: panicked")),
            Ok(inv) => {
                let mut prod = naive_mul(&a.coeffs, &inv.coeffs);
                prod.resize(n, F::ZERO);
                let mut expected = vec![F::ZERO; n];
                expected[0] = F::ONE;
                if prod != expected || inv.len() > n {
                    bad.push(format!("n={n}: a * inv != 1 mod X^n, inv = {:?}", inv.coeffs));
                }
            }
        }
    }
    assert!(bad.is_empty(), "inv_mod_xn(1 + X^2, n) is wrong:\n{}", bad.join("\n"));
}

/// `X^3 + 3X^2 + X = X * (X^2 + 3X + 1)`: quotient `X`, remainder `0`. `div_rem` reverses the
/// (reversed) quotient with `rev()`, which first trims, so low-order zero coefficients of the
/// quotient are lost and the quotient comes out as `1`.
#[test]
fn div_rem_quotient_divisible_by_x() {
    let b = poly(&[1, 3, 1]);
    let a = poly(&[0, 1, 3, 1]);
    let (q, r) = a.div_rem(&b);
    let (q2, r2) = a.div_rem_long_division(&b);
    assert_eq!(q2, poly(&[0, 1]));
    assert_eq!(r2, poly(&[]));
    let qb = PolynomialCoeffs::new(naive_mul(&q.trimmed().coeffs, &b.coeffs));
    assert_eq!(&qb + &r, a, "a != q*b + r (q = {:?}, r = {:?})", q, r);
    assert!(
        r.degree_plus_one() < b.degree_plus_one(),
        "deg r >= deg b: q = {:?}, r = {:?}",
        q,
        r
    );
    assert_eq!(q, q2);
    assert_eq!(r, r2);
}

/// Same for `X^d / (X^2 + 1)`, which additionally runs into the `inv_mod_xn` problem.
#[test]
fn div_rem_by_x_squared_plus_one() {
    let b = poly(&[1, 0, 1]);
    let mut bad = vec![];
    for deg in 2..=12usize {
        let mut a = vec![F::ZERO; deg + 1];
        a[deg] = F::ONE;
        let a = PolynomialCoeffs::new(a);
        let (a2, b2) = (a.clone(), b.clone());
        match catch_unwind(move || a2.div_rem(&b2)) {
            Err(_) => bad.push(format!("deg={deg}: panicked")),
            Ok((q, r)) => {
                let (q2, r2) = a.div_rem_long_division(&b);
                if q != q2 || r != r2 {
                    bad.push(format!(
                        "deg={deg}: (q, r) = ({:?}, {:?}) but long division gives ({:?}, {:?})",
                        q.coeffs, r.coeffs, q2.coeffs, r2.coeffs
                    ));
                }
            }
        }
    }
    assert!(bad.is_empty(), "X^deg div_rem (X^2 + 1) is wrong:\n{}", bad.join("\n"));
}
