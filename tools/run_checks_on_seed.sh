#!/bin/sh
# usage: run_checks_on_seed.sh <seed-dir> <Cxx> [<Cxx> ...]
# applies the seeded patch to /repo, runs the given checks (quick tier), restores /repo.
seed=$(realpath "$1"); shift
cd /repo || exit 2
git diff --quiet || { echo "/repo not clean"; exit 2; }
git apply "$seed/patch.diff" || { echo "patch does not apply"; exit 2; }
rm -rf /var/tmp/evidence-save && cp -r /verif/evidence /var/tmp/evidence-save
trap 'cd /repo && git checkout -- . && git clean -fdq -- field util plonky2 starky maybe_rayon; rm -rf /verif/evidence && mv /var/tmp/evidence-save /verif/evidence' EXIT
cd /verif
for p in "$@"; do
  echo "=== $p"; ./check "$p" --tier quick > "$seed/check_$p.log" 2>&1; echo "exit=$?" | tee -a "$seed/check_$p.log"
  grep -E "^VIOLATION|^KNOWN-FINDING|^INCONCLUSIVE|tier=quick" "$seed/check_$p.log" | cut -c1-300 | head -12
done
