#!/bin/sh
# usage: run_checks_on_seed_alt.sh <seed-dir> <Cxx> [<Cxx> ...]
# like run_checks_on_seed.sh but leaves /repo alone: the patch is applied in a scratch worktree and
# the checks run with VERIF_REPO pointing at it (own cargo target dirs, evidence written elsewhere).
seed=$(realpath "$1"); shift
wt=/var/tmp/seedalt-wt
git -C /repo worktree remove --force $wt 2>/dev/null; rm -rf $wt
git -C /repo worktree add -q --detach $wt HEAD || exit 2
cp /repo/Cargo.lock $wt/ 2>/dev/null; (cd $wt && git apply "$seed/patch.diff") || { echo "patch does not apply"; exit 2; }
trap 'git -C /repo worktree remove --force /var/tmp/seedalt-wt; git -C /repo worktree prune' EXIT
cd /verif
for p in "$@"; do
  echo "=== $p"; VERIF_REPO=$wt VERIF_EVIDENCE_DIR=/var/tmp/seedalt-evidence ./check "$p" --tier quick > "$seed/check_$p.log" 2>&1; echo "exit=$?" | tee -a "$seed/check_$p.log"
  grep -E "^VIOLATION|^KNOWN-FINDING|^INCONCLUSIVE|tier=quick" "$seed/check_$p.log" | cut -c1-300 | head -12
done
