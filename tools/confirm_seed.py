#!/usr/bin/env python3
"""Confirm a seeded change in a scratch worktree of /repo (outside /repo and /verif):
  1. HEAD + demo only      -> demo passes
  2. HEAD + patch + demo   -> compiles, demo FAILS
  3. HEAD + patch          -> the existing test suite (or the given subset) passes
usage: confirm_seed.py <seed-dir> <demo-cmd> [--tests '<cargo test args>'] [--full]
<seed-dir> has patch.diff and demo.diff. Writes <seed-dir>/confirm.log and prints a JSON summary."""
import json, os, subprocess, sys, shutil, time

def sh(cmd, cwd, log, timeout=7200):
    log.write("\n$ %s\n" % cmd); log.flush()
    p = subprocess.run(cmd, shell=True, cwd=cwd, stdout=subprocess.PIPE, stderr=subprocess.STDOUT, timeout=timeout)
    out = p.stdout.decode(errors="replace")
    log.write(out[-6000:]); log.flush()
    return p.returncode, out

def main():
    seed = os.path.abspath(sys.argv[1]); demo_cmd = sys.argv[2]
    tests = None; full = "--full" in sys.argv
    if "--tests" in sys.argv:
        tests = sys.argv[sys.argv.index("--tests") + 1]
    wt = "/var/tmp/seedconfirm-%d" % os.getpid()
    env_prefix = "CARGO_NET_OFFLINE=true CARGO_TARGET_DIR=/var/tmp/seedconfirm-target "
    res = {}
    with open(os.path.join(seed, "confirm.log"), "w") as log:
        subprocess.check_call(["git", "-C", "/repo", "worktree", "add", "-q", "--detach", wt, "HEAD"])
        try:
            rc, _ = sh("git apply %s/demo.diff" % seed, wt, log); assert rc == 0, "demo.diff does not apply"
            rc, _ = sh(env_prefix + demo_cmd, wt, log); res["demo_without_patch_passes"] = (rc == 0)
            rc, _ = sh("git apply %s/patch.diff" % seed, wt, log); assert rc == 0, "patch.diff does not apply"
            rc, _ = sh(env_prefix + demo_cmd, wt, log); res["demo_with_patch_fails"] = (rc != 0)
            rc, _ = sh("git apply -R %s/demo.diff" % seed, wt, log)
            rc, _ = sh(env_prefix + "cargo build --workspace --offline", wt, log); res["compiles"] = (rc == 0)
            if full:
                rc, out = sh(env_prefix + "cargo test --workspace --no-fail-fast --offline", wt, log)
                res["existing_tests_pass"] = (rc == 0); res["tests_run"] = "cargo test --workspace --no-fail-fast --offline"
            elif tests:
                rc, out = sh(env_prefix + "cargo test --offline " + tests, wt, log)
                res["existing_tests_pass"] = (rc == 0); res["tests_run"] = "cargo test --offline " + tests
        finally:
            subprocess.call(["git", "-C", "/repo", "worktree", "remove", "--force", wt])
    print(json.dumps(res))
    json.dump(res, open(os.path.join(seed, "confirm.json"), "w"), indent=1)

if __name__ == "__main__":
    main()
