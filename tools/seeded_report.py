#!/usr/bin/env python3
"""Regenerate seeded/SUMMARY.md from seeded/*/meta.json."""
import glob, json, os
rows = []
for m in sorted(glob.glob("/verif/seeded/*/meta.json")):
    d = json.load(open(m))
    rows.append(d)
with open("/verif/seeded/SUMMARY.md", "w") as f:
    f.write("# Seeded changes (from independent sub-agents that saw only the property text)\n\n")
    f.write("| id | property | change | needs to manifest | caught by | verdict |\n|---|---|---|---|---|---|\n")
    for d in rows:
        f.write("| %s | %s | %s | %s | %s | %s |\n" % (d["id"], d["property"], d["summary"].replace("|", "/"),
                d["needs"].replace("|", "/"), ", ".join(d.get("caught_by", [])) or "-", d.get("verdict", "")))
    f.write("\nDetails (what was run to confirm each change, which obligations fired) are in each `meta.json`.\n")
print("wrote", len(rows), "rows")
