#!/usr/bin/env python3
"""Engine M: MIR -> SMT-LIB (integer encoding) for the bit-level kernels (properties C14, C13).

    run(family, tier, seed, prop) -> list of common.ob(...) records
    python3 /verif/engines/m.py field_kernels quick        (self-test entry; exit 0 iff all hold)

For every *case* (one /repo function) the engine
  1. symbolically executes the function's MIR (mir/translate.py) on symbolic operands,
  2. validates the translation: the Python evaluator generated from the same terms is compared with
     the real function compiled natively (mir/native) on boundary + seeded random operands,
  3. asks three solvers (z3 5.1 primary, z3 4.8 / cvc5 cross-check) one query per obligation kind
        congruent    result == mathematical value (mod p), result in range          (spec in the query)
        panic-free   no `assert(!overflow)` fails, no `assume()` argument is false
        precond      reduce160's documented precondition holds at its call site
     plus a vacuity twin (hypotheses [and reachability of a checked site] satisfiable),
  4. on `sat`: concretises the model (exact products), refines the opaque-product abstraction if the
     model is spurious, replays natively; only a reproduced failure is `violated`.
Anything undecided / unsupported / not reproduced is `inconclusive`.
"""
import os
import random
import stat
import subprocess
import sys
import time
from concurrent.futures import ThreadPoolExecutor

sys.path.insert(0, os.path.dirname(os.path.dirname(os.path.abspath(__file__))))
from lib import common  # noqa: E402
from mir import translate as T  # noqa: E402

P = common.P
M64 = 2 ** 64
EPS = 2 ** 32 - 1
NATIVE_DIR = os.path.join(common.VERIF, "mir", "native")
REPLAYS = os.path.join(common.VERIF, "replays")
R160_BOUND = 2 ** 160 - 2 ** 128 + 2 ** 96

A_ASM = T.ASM_MODEL_NOTE
A_PROD = ("symbolic (a as u128)*(b as u128) abstracted to an opaque Int prod_k with lemma 0<=prod_k<=hi(a)*hi(b); "
          "code and specification refer to the same prod_k (sound over-approximation)")
A_MIR = "semantics = rustc MIR (dev profile, overflow-checks=on, debug-assertions=off) of the current working tree"
A_UB = "plonky2_util::assume / branch_hint taken from the util crate's MIR (unreachable_unchecked => obligation; empty asm => no-op)"


# =============================================================================================
# cases
# =============================================================================================

class Case(object):
    """One function under check.
    inputs   [(name, int type name)]           symbolic operands (full type range unless `ranges`)
    build    f(ex, iv) -> (args, extra_state)  MIR argument values from the dict of input IntV
    pre      f(S, t) -> [Bool terms]           hypotheses (documented preconditions)
    spec     f(S, t) -> [(term, mode)]         expected value of each result word; mode 'modp' (== mod p and
                                               0<=r<2^64) | 'canon' (== mod p and r<p) | 'exact'
    goal     f(S, t, outs) -> Bool term        alternative to spec (joint conditions)
    native   (cmd, [input names], pick)        public route for the native binary; pick = indices of the
                                               native result words that correspond to this case's outputs
    fix      f(env) -> env                     coerce random operands into the precondition
    concretize [names]                         operands fixed to constants when refining opaque products
    """

    def __init__(self, name, functions, locate, inputs, build, spec=None, goal=None, pre=None, native=None,
                 fix=None, concretize=None, bounds="", assumptions=None, hook_r160=False, outs=None,
                 post=None, ranges=None, contract_fns=None, opaque_const=None, split=True):
        self.name, self.functions, self.locate, self.inputs, self.build = name, functions, locate, inputs, build
        self.spec, self.goal, self.pre, self.native, self.fix = spec, goal, pre, native, fix
        self.concretize = concretize or []
        self.bounds, self.assumptions = bounds, assumptions or []
        self.hook_r160 = hook_r160        # record reduce160's precondition at call sites (kind `precond`)
        # callees replaced by their contract in the congruence query
        self.contract_fns = set(contract_fns or (["reduce160"] if hook_r160 else []))
        self.split = split                 # ask the congruence of a multi-word result word by word
        self.opaque_const = opaque_const   # see Session.opaque_const_from
        self.post = post          # f(ex, ret, state) -> value to flatten (e.g. read back a &mut argument)
        self.ranges = ranges or {}


class Built(object):
    """A case after symbolic execution."""
    pass


def GF(v):
    return T.Agg("GoldilocksField", [v])


def _contract_hook(case, contract):
    """Call hook.  For reduce160(x_lo, x_hi) it records the documented precondition as an obligation at every
    call site (cases with hook_r160).  In *contract* mode the calls to the functions in case.contract_fns
    (reduce160 / poseidon's reduce_u160) are not inlined: the call returns a fresh word red_k and the pair
    (red_k, x_lo + 2^128 x_hi) is remembered, so that the caller's congruence obligation for that word becomes
    the exact integer equality `x_lo + 2^128 x_hi == specification` at the call site.  The callee's own
    contract "result == x (mod p) [under its precondition]" is a separate obligation (reduce160.congruent,
    reduce_u160.congruent)."""
    def hook(ex, fn, args, pc, where):
        S = ex.S
        x = None
        if fn.name == "reduce160" and len(args) == 2:
            x = S.add(args[0].t, S.mulc(2 ** 128, args[1].t))
            if case.hook_r160:
                ex.obls.append(T.Obligation("precond", pc, S.lt(x, S.const(R160_BOUND)),
                                            "reduce160 precondition x < 2^160-2^128+2^96", where))
        elif fn.name == "reduce_u160" and len(args) == 1 and isinstance(args[0], T.Agg) and len(args[0].fields) == 2:
            x = S.add(args[0].fields[0].t, S.mulc(2 ** 128, args[0].fields[1].t))
        if contract and x is not None and fn.name in case.contract_fns:
            if not hasattr(ex, "contract_calls"):
                ex.contract_calls = {}
            r = S.var("red_%d" % len(ex.contract_calls), 0, M64 - 1)
            ex.contract_calls[r.id] = (pc, x)
            return GF(T.IntV(r, T.INT_TYPES["u64"]))
        return None
    return hook


def build_case(prog, case, concrete=None, contract=False):
    """Symbolically execute `case`. `concrete` {input name: int} fixes some operands to constants.
    contract=True: calls to case.contract_fns are replaced by their contract (see _contract_hook)."""
    concrete = concrete or {}
    S = T.Session()
    S.opaque_const_from = case.opaque_const
    ex = T.Executor(prog, S, call_hook=_contract_hook(case, contract) if case.contract_fns else None)
    iv, t = {}, {}
    for (nm, ty) in case.inputs:
        if nm in concrete:
            iv[nm] = ex.lit(concrete[nm], ty)
        else:
            lo, hi = case.ranges.get(nm, (None, None))
            iv[nm] = ex.input_int(nm, ty, lo, hi)
        t[nm] = iv[nm].t
    fn, sub = case.locate(prog)
    args, extra = case.build(ex, iv)
    ret, state = ex.run(fn, args, sub, extra)
    if case.post:
        ret = case.post(ex, ret, state)
    b = Built()
    b.case, b.S, b.ex, b.t, b.fn = case, S, ex, t, fn
    b.outs = T.flatten(ret)
    b.hyps = list(case.pre(S, t)) if case.pre else []
    b.spec = case.spec(S, t) if case.spec else None
    b.goals = {}
    if contract:
        # a result word that is the value returned by a contracted call: exact equality at the call site;
        # any other word: the ordinary congruence
        cs = []
        calls = getattr(ex, "contract_calls", {})
        for (e, mode), r in zip(b.spec, b.outs):
            if r.id in calls and mode == "modp":
                pc, x = calls[r.id]
                cs.append(S.implies(pc, S.eq(x, e)))
            else:
                cs.append(_goal_from_spec(S, [(e, mode)], [r]))
        if not calls:
            raise T.Unsupported("contract mode: no call to %s found" % "/".join(sorted(case.contract_fns)))
        b.goals["congruent"] = S.and_(*cs)
    else:
        b.goals["congruent"] = _goal_from_spec(S, b.spec, b.outs) if b.spec else case.goal(S, t, b.outs)
    panic = [o for o in ex.obls if o.kind != "precond"]
    b.sites = {"panic-free": panic, "precond": [o for o in ex.obls if o.kind == "precond"]}
    for k in ("panic-free", "precond"):
        b.goals[k] = S.and_(*[S.implies(o.pc, o.cond) for o in b.sites[k]])
    b.trivial_asserts = getattr(ex, "trivial_asserts", 0)
    # what the solver is asked per kind: (session, hypotheses, goal). The congruence of reduce160's callers
    # is asked on the contract build; everything else (and all evaluation) uses the fully inlined build.
    b.q = {k: (S, b.hyps, b.goals[k]) for k in b.goals}
    # the congruence of a multi-word result is asked word by word (independent, much faster queries)
    b.parts = {k: [b.goals[k]] for k in b.goals}
    if contract:
        b.parts["congruent"] = list(cs)
    elif b.spec and len(b.outs) > 1 and case.split:
        b.parts["congruent"] = [_goal_from_spec(S, [sp], [o]) for sp, o in zip(b.spec, b.outs)]
    if case.contract_fns and not contract:
        bc = build_case(prog, case, concrete, contract=True)
        b.q["congruent"] = (bc.S, bc.hyps, bc.goals["congruent"])
        b.parts["congruent"] = bc.parts["congruent"]
    return b


def _goal_from_spec(S, spec, outs):
    if len(spec) != len(outs):
        raise T.Unsupported("spec/result arity mismatch (%d vs %d)" % (len(spec), len(outs)))
    cs = []
    for (e, mode), r in zip(spec, outs):
        if mode == "exact":
            cs.append(S.eq(r, e))
        else:
            cs.append(S.congruent(r, e, P))
            cs.append(S.le(S.const(0), r))
            cs.append(S.lt(r, S.const(P if mode == "canon" else M64)))
    return S.and_(*cs)


# ---- field_kernels (C14) ------------------------------------------------------------------------

FG = "field/src/goldilocks_field.rs::"
FE = "field/src/goldilocks_extensions.rs::"


def _impl(ty, tr, item):
    return lambda prog: prog.find_impl_fn(ty, tr, item)


def _free(name):
    return lambda prog: (prog.find_fn(name), None)


def field_cases():
    cs = []
    U = "u64"
    full2 = "all 2^128 operand pairs (both u64 representations incl. non-canonical); loop-free"
    full1 = "all 2^64 operand values incl. non-canonical; loop-free"
    base_as = [A_MIR, A_UB]

    def binop(name, tr, item, f):
        cs.append(Case(name, [FG + name], _impl("GoldilocksField", tr, item), [("a", U), ("b", U)],
                       lambda ex, iv: ([GF(iv["a"]), GF(iv["b"])], None),
                       spec=lambda S, t: [(f(S, t), "modp")], native=(name, ["a", "b"], None),
                       concretize=["b"], bounds=full2, assumptions=base_as))
    binop("add", "Add", "add", lambda S, t: S.add(t["a"], t["b"]))
    binop("sub", "Sub", "sub", lambda S, t: S.sub(t["a"], t["b"]))
    cs.append(Case("neg", [FG + "neg", FG + "to_canonical_u64", "field/src/types.rs::is_zero"],
                   _impl("GoldilocksField", "Neg", "neg"), [("a", U)],
                   lambda ex, iv: ([GF(iv["a"])], None), spec=lambda S, t: [(S.neg(t["a"]), "modp")],
                   native=("neg", ["a"], None), bounds=full1, assumptions=base_as))
    binop("mul", "Mul", "mul", lambda S, t: S.prod(t["a"], t["b"]))
    cs[-1].functions += [FG + "reduce128", FG + "add_no_canonicalize_trashing_input"]
    cs[-1].assumptions = base_as + [A_ASM, A_PROD]
    cs.append(Case("square", ["field/src/ops.rs::square", FG + "mul", FG + "reduce128"],
                   _impl("GoldilocksField", "Square", "square"), [("a", U)],
                   lambda ex, iv: ([T.Ref(0, 1, [])], {(0, 1): GF(iv["a"])}),
                   spec=lambda S, t: [(S.prod(t["a"], t["a"]), "modp")], native=("square", ["a"], None),
                   bounds=full1, assumptions=base_as + [A_ASM, A_PROD]))
    cs.append(Case("multiply_accumulate", [FG + "multiply_accumulate", FG + "reduce128"],
                   _impl("GoldilocksField", "Field", "multiply_accumulate"), [("s", U), ("x", U), ("y", U)],
                   lambda ex, iv: ([T.Ref(0, 1, []), GF(iv["x"]), GF(iv["y"])], {(0, 1): GF(iv["s"])}),
                   spec=lambda S, t: [(S.add(t["s"], S.prod(t["x"], t["y"])), "modp")],
                   native=("multiply_accumulate", ["s", "x", "y"], None), concretize=["y"],
                   bounds="all 2^192 operand triples; loop-free", assumptions=base_as + [A_ASM, A_PROD]))
    for nm, f in (("add_canonical_u64", lambda S, t: S.add(t["a"], t["rhs"])),
                  ("sub_canonical_u64", lambda S, t: S.sub(t["a"], t["rhs"]))):
        def fix(env):
            env["rhs"] %= P
            return env
        cs.append(Case(nm, [FG + nm], _impl("GoldilocksField", "Field64", nm), [("a", U), ("rhs", U)],
                       lambda ex, iv: ([T.Ref(0, 1, []), iv["rhs"]], {(0, 1): GF(iv["a"])}),
                       spec=(lambda f: lambda S, t: [(f(S, t), "modp")])(f),
                       pre=lambda S, t: [S.lt(t["rhs"], S.const(P))], fix=fix,
                       native=(nm, ["a", "rhs"], None), concretize=["rhs"],
                       bounds="all self in [0,2^64), all rhs in [0,p); loop-free",
                       assumptions=base_as + ["documented precondition: rhs is canonical (rhs < p)"]))
    cs.append(Case("to_canonical_u64", [FG + "to_canonical_u64"],
                   _impl("GoldilocksField", "PrimeField64", "to_canonical_u64"), [("a", U)],
                   lambda ex, iv: ([T.Ref(0, 1, [])], {(0, 1): GF(iv["a"])}),
                   spec=lambda S, t: [(t["a"], "canon")], native=("to_canonical_u64", ["a"], None),
                   bounds=full1 + "; result required canonical (< p)", assumptions=base_as))

    def u96spec(S, t):
        return [(S.add(t["lo"], S.mulc(M64, t["hi"])), "modp")]
    for nm, loc in (("from_noncanonical_u96", _impl("GoldilocksField", "Field", "from_noncanonical_u96")),
                    ("reduce96", _free("reduce96"))):
        cs.append(Case(nm, [FG + nm, FG + "reduce96", FG + "add_no_canonicalize_trashing_input"], loc,
                       [("lo", U), ("hi", "u32")],
                       lambda ex, iv: ([T.Agg("tuple", [iv["lo"], iv["hi"]])], None), spec=u96spec,
                       native=("from_noncanonical_u96", ["lo", "hi"], None),
                       bounds="all 2^96 inputs (u64,u32); loop-free", assumptions=base_as + [A_ASM]))
    for nm, loc in (("from_noncanonical_u128", _impl("GoldilocksField", "Field", "from_noncanonical_u128")),
                    ("reduce128", _free("reduce128"))):
        cs.append(Case(nm, [FG + nm, FG + "reduce128", FG + "split", FG + "add_no_canonicalize_trashing_input"],
                       loc, [("x", "u128")], lambda ex, iv: ([iv["x"]], None),
                       spec=lambda S, t: [(t["x"], "modp")], native=("from_noncanonical_u128", ["x"], None),
                       bounds="all 2^128 inputs; loop-free", assumptions=base_as + [A_ASM]))
    cs.append(Case("from_noncanonical_i64", [FG + "from_noncanonical_i64", FG + "from_canonical_u64"],
                   _impl("GoldilocksField", "Field", "from_noncanonical_i64"), [("n", "i64")],
                   lambda ex, iv: ([iv["n"]], None), spec=lambda S, t: [(t["n"], "canon")],
                   native=("from_noncanonical_i64", ["n"], None),
                   bounds="all 2^64 i64 inputs; result required canonical (from_canonical_u64's claim); loop-free",
                   assumptions=base_as))
    cs.append(Case("reduce160", [FG + "reduce160", FG + "add_no_canonicalize_trashing_input"], _free("reduce160"),
                   [("x_lo", "u128"), ("x_hi", "u32")], lambda ex, iv: ([iv["x_lo"], iv["x_hi"]], None),
                   spec=lambda S, t: [(S.add(t["x_lo"], S.mulc(2 ** 128, t["x_hi"])), "modp")],
                   pre=lambda S, t: [S.lt(S.add(t["x_lo"], S.mulc(2 ** 128, t["x_hi"])), S.const(R160_BOUND))],
                   bounds="all (x_lo,x_hi) with x_lo + 2^128 x_hi < 2^160-2^128+2^96; loop-free",
                   assumptions=base_as + [A_ASM, "documented precondition x < 2^160 - 2^128 + 2^96",
                                          "private function: evaluator validated natively only through ext{2,4,5} mul"]))
    for n in (3, 7):
        def goal(S, t, outs, n=n):
            lhs = S.add(outs[0], S.mulc(2 ** 128, outs[1]))
            rhs = S.mulc(n, S.add(t["x"], S.mulc(2 ** 128, t["y"])))
            return S.and_(S.eq(lhs, rhs), S.le(S.const(0), outs[0]), S.lt(outs[0], S.const(2 ** 128)),
                          S.le(S.const(0), outs[1]), S.lt(outs[1], S.const(2 ** 32)))
        cs.append(Case("u160_times_%d" % n, [FE + "u160_times_%d" % n], _free("u160_times_%d" % n),
                       [("x", "u128"), ("y", "u32")], lambda ex, iv: ([iv["x"], iv["y"]], None), goal=goal,
                       pre=(lambda n: lambda S, t: [S.le(S.mulc(n, S.add(t["y"], S.const(1))), S.const(2 ** 32 - 1))])(n),
                       bounds="all x in u128, all y with %d*(y+1) < 2^32; loop-free" % n,
                       assumptions=base_as + ["stand-alone precondition %d*(y+1) <= 2^32-1 (callers pass y <= 4; the "
                                              "in-context checks are the extD_add_prodsK panic-free obligations)" % n,
                                              "private function: evaluator validated natively only through ext mul"]))
    # extension kernels
    for D, W in ((2, 7), (4, 7), (5, 3)):
        names = ["a%d" % i for i in range(D)] + ["b%d" % i for i in range(D)]
        ins = [(n, U) for n in names]

        def coef(S, t, k, D=D, W=W):
            acc = S.const(0)
            for i in range(D):
                for j in range(D):
                    if i + j == k:
                        acc = S.add(acc, S.prod(t["a%d" % i], t["b%d" % j]))
                    elif i + j == k + D:
                        acc = S.add(acc, S.mulc(W, S.prod(t["a%d" % i], t["b%d" % j])))
            return acc
        ext_as = base_as + [A_ASM, A_PROD, "specification: coefficient k of a(X)*b(X) mod (X^%d - %d)" % (D, W)]
        for K in range(D):
            nm = "ext%d_add_prods%d" % (D, K)

            def build(ex, iv, D=D):
                a = T.Agg("array", [iv["a%d" % i] for i in range(D)])
                b = T.Agg("array", [iv["b%d" % i] for i in range(D)])
                return [T.Ref(0, 1, []), T.Ref(0, 2, [])], {(0, 1): a, (0, 2): b}
            cs.append(Case(nm, [FE + nm, FE + "u160_times_%d" % W, FG + "reduce160",
                                FG + "add_no_canonicalize_trashing_input"], _free(nm), ins, build,
                           spec=(lambda K, coef: lambda S, t: [(coef(S, t, K), "modp")])(K, coef),
                           native=("ext%d_mul" % D, names, [K]), concretize=names[D:], hook_r160=True,
                           bounds="all 2^%d limb vectors (u64 incl. non-canonical); loop-free" % (128 * D),
                           assumptions=ext_as))
        ty = {2: "QuadraticExtension", 4: "QuarticExtension", 5: "QuinticExtension"}[D]
        file = {2: "quadratic", 4: "quartic", 5: "quintic"}[D]

        def buildm(ex, iv, D=D, ty=ty):
            a = T.Agg(ty, [T.Agg("array", [GF(iv["a%d" % i]) for i in range(D)])])
            b = T.Agg(ty, [T.Agg("array", [GF(iv["b%d" % i]) for i in range(D)])])
            return [a, b], None
        cs.append(Case("ext%d_mul" % D, [FE + "mul(%s<GoldilocksField>)" % ty, FE + "ext%d_mul" % D,
                                          "field/src/extension/%s.rs::%s" % (file, ty)],
                       _impl(ty + "<GoldilocksField>", "Mul", "mul"), ins, buildm,
                       spec=(lambda D, coef: lambda S, t: [(coef(S, t, k), "modp") for k in range(D)])(D, coef),
                       native=("ext%d_mul" % D, names, None), concretize=names[D:], hook_r160=True,
                       bounds="all 2^%d limb vectors; loop-free" % (128 * D), assumptions=ext_as))
    return cs


# ---- poseidon_kernels (C13) ---------------------------------------------------------------------

PG = "plonky2/src/hash/poseidon_goldilocks.rs::"
PS = "plonky2/src/hash/poseidon.rs::"
GLP = {"Self": "GoldilocksField", "F": "GoldilocksField"}


def const_ints(prog, name, sub=None):
    """Concrete value of a const item of the dump as nested lists of ints (e.g. MDS_MATRIX_CIRC)."""
    ex = T.Executor(prog, T.Session())
    v = ex.named_const(name, sub or GLP)

    def conv(x):
        if isinstance(x, T.IntV):
            if x.t.op != "int":
                raise T.Unsupported("constant %s is not concrete" % name)
            return x.t.args[0]
        if isinstance(x, T.Agg):
            r = [conv(f) for f in x.fields]
            return r[0] if x.tag.endswith("GoldilocksField") and len(r) == 1 else r
        raise T.Unsupported("constant %s has an unsupported shape" % name)
    return conv(v)


def poseidon_cases(prog):
    """Ob13.1 / Ob13.2.  The matrices and round constants used in the specifications are read from the
    constants of the *same* MIR dump (`<GoldilocksField as Poseidon>::MDS_MATRIX_CIRC` ...): the
    specification is 'circulant(MDS_MATRIX_CIRC)+diag(MDS_MATRIX_DIAG)', not a copy of numbers."""
    cs = []
    base_as = [A_MIR, A_UB]
    N = 12
    names = ["s%d" % i for i in range(N)]
    ins = [(n, "u64") for n in names]
    C = const_ints(prog, "<GoldilocksField as Poseidon>::MDS_MATRIX_CIRC")
    Dg = const_ints(prog, "<GoldilocksField as Poseidon>::MDS_MATRIX_DIAG")
    if len(C) != N or len(Dg) != N:
        raise T.Unsupported("unexpected MDS constant shapes")
    mds_note = "specification constants MDS_MATRIX_CIRC=%s MDS_MATRIX_DIAG=%s read from the same MIR dump" % (C, Dg)

    def row(S, t, r, diag=True):
        acc = S.const(0)
        for j in range(N):
            c = C[(j - r) % N] + (Dg[r] if (diag and j == r) else 0)
            acc = S.add(acc, S.mulc(c, t["s%d" % j]))
        return acc

    def state_ref(ex, iv):
        st = T.Agg("array", [GF(iv[n]) for n in names])
        return [T.Ref(0, 1, [])], {(0, 1): st}

    full = "all 2^768 states (12 x u64 incl. non-canonical); loops unrolled (constant trip counts)"
    # Ob13.1 ---------------------------------------------------------------------------------------
    cs.append(Case("mds_layer", [PG + "mds_layer", PG + "mds_multiply_freq", PG + "fft4_real", PG + "fft2_real",
                                 PG + "block1", PG + "block2", PG + "block3", PG + "ifft4_real_unreduced",
                                 PG + "ifft2_real_unreduced", FG + "from_noncanonical_u96", FG + "reduce96", FG + "add"],
                   _impl("GoldilocksField", "Poseidon", "mds_layer"), ins, state_ref,
                   spec=lambda S, t: [(row(S, t, r), "modp") for r in range(N)],
                   native=("mds_layer", names, None), bounds=full, assumptions=base_as + [A_ASM, mds_note]))

    def freq_build(ex, iv):
        return [T.Agg("array", [iv[n] for n in names])], None
    cs.append(Case("mds_multiply_freq", [PG + "mds_multiply_freq", PG + "fft4_real", PG + "fft2_real", PG + "block1",
                                         PG + "block2", PG + "block3", PG + "ifft4_real_unreduced",
                                         PG + "ifft2_real_unreduced"],
                   _free("mds_multiply_freq"), ins, freq_build,
                   spec=lambda S, t: [(row(S, t, r, diag=False), "exact") for r in range(N)],
                   ranges={n: (0, 2 ** 32 - 1) for n in names},
                   bounds="all 12 x 32-bit limb vectors (the lo/hi halves mds_layer passes); result exact over the integers",
                   assumptions=base_as + [mds_note, "precondition: every entry < 2^32 (as at both call sites in mds_layer)",
                                          "private function: evaluator validated natively only through mds_layer"]))
    # Ob13.2 ---------------------------------------------------------------------------------------
    for r in range(N):
        # r is a concrete parameter: `v[r] * MDS_MATRIX_DIAG[r]` would otherwise be a symbolic*symbolic product
        def shf_build(ex, iv, r=r):
            return [ex.lit(r, "usize"), T.Ref(0, 1, [])], {(0, 1): T.Agg("array", [iv[n] for n in names])}
        cs.append(Case("mds_row_shf[r=%d]" % r, [PS + "mds_row_shf"],
                       lambda prog: (prog.find_fn("Poseidon::mds_row_shf"), dict(GLP)), ins, shf_build,
                       spec=(lambda r: lambda S, t: [(row(S, t, r), "exact")])(r),
                       native=("mds_row_shf", ["#%d" % r] + names, None),
                       bounds="r=%d, all 12 x u64 vectors; result exact (u128); loops unrolled" % r,
                       assumptions=base_as + [mds_note]))
    cs.append(Case("mds_layer_default", [PS + "mds_layer", PS + "mds_row_shf", FG + "from_noncanonical_u96"],
                   lambda prog: (prog.find_fn("Poseidon::mds_layer"), dict(GLP)), ins, state_ref,
                   spec=lambda S, t: [(row(S, t, r), "modp") for r in range(N)], bounds=full,
                   assumptions=base_as + [A_ASM, mds_note, "generic default method instantiated at Self = GoldilocksField; "
                                          "GoldilocksField overrides it, so there is no native route (evaluator checked "
                                          "against the specification only)"]))
    cs.append(Case("reduce_u160", [PS + "reduce_u160", FG + "from_noncanonical_u96", FG + "from_noncanonical_u128"],
                   lambda prog: (prog.find_fn("reduce_u160"), dict(GLP)), [("n_lo", "u128"), ("n_hi", "u32")],
                   lambda ex, iv: ([T.Agg("tuple", [iv["n_lo"], iv["n_hi"]])], None),
                   spec=lambda S, t: [(S.add(t["n_lo"], S.mulc(2 ** 128, t["n_hi"])), "modp")],
                   bounds="all 2^160 inputs (u128,u32); loop-free",
                   assumptions=base_as + [A_ASM, "generic function instantiated at F = GoldilocksField",
                                          "private function: evaluator validated natively only through mds_partial_layer_fast"]))
    cs.append(Case("add_u160_u128", [PS + "add_u160_u128"], _free("add_u160_u128"),
                   [("x_lo", "u128"), ("x_hi", "u32"), ("y", "u128")],
                   lambda ex, iv: ([T.Agg("tuple", [iv["x_lo"], iv["x_hi"]]), iv["y"]], None),
                   goal=lambda S, t, outs: S.eq(S.add(outs[0], S.mulc(2 ** 128, outs[1])),
                                                S.add(S.add(t["x_lo"], S.mulc(2 ** 128, t["x_hi"])), t["y"])),
                   ranges={"x_hi": (0, 2 ** 32 - 2)},
                   bounds="all x_lo,y in u128, x_hi < 2^32-1; result exact; loop-free",
                   assumptions=base_as + ["stand-alone precondition x_hi < 2^32-1 (the accumulator's high word is at most "
                                          "12 in mds_partial_layer_fast, whose panic-free obligation covers the in-context use)",
                                          "private function: evaluator validated natively only through mds_partial_layer_fast"]))
    try:
        W = const_ints(prog, "<GoldilocksField as Poseidon>::FAST_PARTIAL_ROUND_W_HATS")
        V = const_ints(prog, "<GoldilocksField as Poseidon>::FAST_PARTIAL_ROUND_VS")
        ARC = const_ints(prog, "hash::poseidon::ALL_ROUND_CONSTANTS")
    except T.Unsupported as e:
        common.log("engine M: poseidon constants unavailable: %s" % e)
        W = V = ARC = None
    if W:
        for r in range(len(W)):
            def spec(S, t, r=r):
                d = S.prod(S.const(C[0] + Dg[0]), t["s0"])
                for i in range(1, N):
                    d = S.add(d, S.prod(S.const(W[r][i - 1]), t["s%d" % i]))
                out = [(d, "modp")]
                for i in range(1, N):
                    out.append((S.add(t["s%d" % i], S.prod(S.const(V[r][i - 1]), t["s0"])), "modp"))
                return out

            def build(ex, iv, r=r):
                a, st = state_ref(ex, iv)
                return a + [ex.lit(r, "usize")], st
            cs.append(Case("mds_partial_layer_fast[r=%d]" % r,
                           [PS + "mds_partial_layer_fast", PS + "add_u160_u128", PS + "reduce_u160",
                            FG + "multiply_accumulate", FG + "reduce128", FG + "reduce96"],
                           lambda prog: (prog.find_fn("Poseidon::mds_partial_layer_fast"), dict(GLP)), ins, build,
                           spec=spec, native=("mds_partial_layer_fast", names + ["#%d" % r], None), bounds=full + "; r=%d" % r,
                           contract_fns=["reduce_u160"], opaque_const=2 ** 33,
                           assumptions=base_as + [A_ASM, A_PROD + " (here also for 64-bit table constants * state word)", "specification: d = (CIRC[0]+DIAG[0])*s0 + sum W_HATS[r][i-1]*s_i, "
                                                  "out_i = s_i + VS[r][i-1]*s0 with the constant tables read from the MIR dump"]))
    if ARC:
        for rc in range(len(ARC) // N):
            def spec(S, t, rc=rc):
                return [(S.add(t["s%d" % i], S.const(ARC[i + N * rc])), "modp") for i in range(N)]

            def build(ex, iv, rc=rc):
                a, st = state_ref(ex, iv)
                return a + [ex.lit(rc, "usize")], st
            cs.append(Case("constant_layer[round=%d]" % rc, [PS + "constant_layer", FG + "add_canonical_u64"],
                           lambda prog: (prog.find_fn("Poseidon::constant_layer"), dict(GLP)), ins, build, spec=spec,
                           post=lambda ex, ret, state: state[(0, 1)], split=False,
                           native=("constant_layer", names + ["#%d" % rc], None), bounds=full + "; round_ctr=%d" % rc,
                           assumptions=base_as + ["round constants ALL_ROUND_CONSTANTS read from the MIR dump; "
                                                  "add_canonical_u64's precondition (constant < p) is part of the obligations"]))
    return cs


# =============================================================================================
# native binary
# =============================================================================================

class Native(object):
    """Builds (cargo, dev profile, offline, nightly) and drives mir/native's line protocol."""

    def __init__(self, which):
        self.which = which               # 'field' | 'poseidon'
        self.bin = None
        self.build_s = 0.0
        self.err = None
        self.crate_dir = NATIVE_DIR
        self.target = os.path.join(common.CACHE, "mir-native-target")
        self._scratch = None

    def build(self):
        t0 = time.time()
        try:
            if os.path.abspath(common.REPO) != "/repo":
                # alternative tree (mutation self-tests): private copy of the crate with rewritten paths
                self._scratch = common.scratch_dir("native")
                self.crate_dir = os.path.join(self._scratch, "native")
                import shutil
                shutil.copytree(NATIVE_DIR, self.crate_dir, ignore=shutil.ignore_patterns("Cargo.lock", "target"))
                p = os.path.join(self.crate_dir, "Cargo.toml")
                with open(p) as f:
                    s = f.read()
                with open(p, "w") as f:
                    f.write(s.replace('"/repo/', '"%s/' % os.path.abspath(common.REPO)))
                self.target = os.path.join(common.CACHE, "mir-native-target-alt")
            import shutil
            shutil.copy2(os.path.join(common.REPO, "Cargo.lock"), os.path.join(self.crate_dir, "Cargo.lock"))
            cmd = ["cargo", "build", "--offline", "--bin", "mir_native_" + self.which]
            if self.which == "poseidon":
                cmd += ["--features", "poseidon"]
            env = common.env_offline({"RUSTUP_TOOLCHAIN": "nightly", "CARGO_TARGET_DIR": self.target})
            env.pop("RUSTFLAGS", None)
            p = subprocess.run(cmd, cwd=self.crate_dir, env=env, stdout=subprocess.PIPE, stderr=subprocess.PIPE)
            if p.returncode != 0:
                self.err = "native build failed: " + p.stderr.decode(errors="replace")[-1500:]
            else:
                self.bin = os.path.join(self.target, "debug", "mir_native_" + self.which)
        except Exception as e:  # noqa: BLE001
            self.err = "native build failed: %r" % (e,)
        self.build_s = time.time() - t0
        return self

    def close(self):
        if self._scratch and not os.environ.get("VERIF_KEEP_SCRATCH"):
            import shutil
            shutil.rmtree(self._scratch, ignore_errors=True)

    def run_lines(self, lines):
        """-> list of results: list[int] or 'PANIC'"""
        if not self.bin:
            raise RuntimeError(self.err or "native binary not built")
        p = subprocess.run([self.bin], input=("\n".join(lines) + "\n").encode(), stdout=subprocess.PIPE,
                           stderr=subprocess.PIPE, timeout=300)
        out = p.stdout.decode().strip().split("\n") if p.stdout.strip() else []
        if len(out) != len(lines):
            raise RuntimeError("native binary answered %d of %d lines (rc=%s): %s"
                               % (len(out), len(lines), p.returncode, p.stderr.decode(errors="replace")[-300:]))
        return ["PANIC" if o.startswith("PANIC") else [int(x) for x in o.split()] for o in out]


# =============================================================================================
# operand samples, translator validation
# =============================================================================================

def boundary(ty):
    it = T.INT_TYPES[ty]
    if ty == "u64":
        v = [0, 1, 2, P - 2, P - 1, P, P + 1, EPS - 1, EPS, EPS + 1, EPS + 2, 2 ** 63, M64 - 2 ** 32 - 1,
             M64 - 2 ** 32, M64 - 2, M64 - 1, 2 ** 33 - 4]
    elif ty == "u128":
        v = [0, 1, P - 1, P, P + 1, EPS, 2 ** 32, M64 - 1, M64, M64 + 1, 2 ** 96 - 1, 2 ** 96, 2 ** 96 + 1,
             (M64 - 1) ** 2, 2 ** 127, 2 ** 128 - 2 ** 96, 2 ** 128 - M64, 2 ** 128 - 1, P * P, P * M64,
             (EPS << 96) | (M64 - 1), (1 << 96) | 0, ((EPS + 1) << 64) - 1]
    elif ty == "u32":
        v = [0, 1, 2, 2 ** 16, 2 ** 31, 2 ** 32 - 2, 2 ** 32 - 1]
    elif it.signed:
        v = [0, 1, -1, 2, -2, it.hi, it.lo, it.lo + 1, it.hi - 1, EPS, -EPS, -EPS - 1, -EPS - 2, 2 ** 32, -(2 ** 32)]
    else:
        v = [0, 1, it.hi]
    return [x for x in v if it.lo <= x <= it.hi]


def samples(case, rng, n_random=200):
    ins = case.inputs
    out = []
    bs = [boundary(ty) for (_, ty) in ins]
    if len(ins) <= 2:
        def rec(i, cur):
            if i == len(ins):
                out.append(dict(cur))
                return
            for v in bs[i]:
                cur[ins[i][0]] = v
                rec(i + 1, cur)
        rec(0, {})
    else:
        for _ in range(200):
            out.append({nm: rng.choice(bs[i]) for i, (nm, ty) in enumerate(ins)})
    for _ in range(n_random):
        env = {}
        for (nm, ty) in ins:
            it = T.INT_TYPES[ty]
            lo, hi = case.ranges.get(nm, (it.lo, it.hi))
            env[nm] = rng.randint(lo, hi)
        out.append(env)
    res = []
    for env in out:
        for (nm, ty) in ins:
            if nm in case.ranges:
                lo, hi = case.ranges[nm]
                env[nm] = min(max(env[nm], lo), hi)
        if case.fix:
            env = case.fix(env)
        res.append(env)
    return res


def eval_built(b, env):
    """exact evaluation of a built case under concrete operands:
    (pre ok, outs, congruent ok, failing panic sites, failing precond sites)"""
    S = b.S
    sites = b.sites["panic-free"] + b.sites["precond"]
    roots = list(b.outs) + list(b.hyps) + [b.goals["congruent"]] + [S.implies(o.pc, o.cond) for o in sites]
    vals = S.evaluate(roots, env)
    no, nh = len(b.outs), len(b.hyps)
    outs = vals[:no]
    pre_ok = all(vals[no:no + nh])
    cong = bool(vals[no + nh])
    sv = vals[no + nh + 1:]
    npf = len(b.sites["panic-free"])
    bad_panic = [b.sites["panic-free"][i] for i in range(npf) if not sv[i]]
    bad_pre = [b.sites["precond"][i] for i in range(len(sv) - npf) if not sv[npf + i]]
    return pre_ok, outs, cong, bad_panic, bad_pre


def native_line(case, env):
    cmd, names, _ = case.native
    return cmd + " " + " ".join(n[1:] if n.startswith("#") else str(env[n]) for n in names)


def native_pick(case, res):
    if res == "PANIC":
        return res
    pick = case.native[2]
    return res if pick is None else [res[i] for i in pick]


def validate(b, native, rng):
    """Translator self-validation. Returns dict(ok, detail, n, fuzz_ce={kind: env})."""
    case = b.case
    r = {"ok": True, "detail": "", "n": 0, "fuzz_ce": {}, "native": False}
    envs = samples(case, rng)
    evs = []
    for env in envs:
        pre_ok, outs, cong, bad_panic, bad_pre = eval_built(b, env)
        if not pre_ok:
            continue
        evs.append((env, outs, cong, bad_panic, bad_pre))
    r["n"] = len(evs)
    if case.native is None:
        r["detail"] = "no public route: evaluator checked only against the specification on %d operands" % len(evs)
        for (env, outs, cong, bad_panic, bad_pre) in evs:
            if not cong and not bad_panic:
                r["fuzz_ce"].setdefault("congruent", env)
        return r
    if native.bin is None:
        r["ok"] = False
        r["detail"] = native.err or "native binary unavailable"
        return r
    try:
        res = native.run_lines([native_line(case, e[0]) for e in evs])
    except Exception as e:  # noqa: BLE001
        r["ok"] = False
        r["detail"] = "native run failed: %r" % (e,)
        return r
    r["native"] = True
    for (env, outs, cong, bad_panic, bad_pre), nres in zip(evs, res):
        nres = native_pick(case, nres)
        exp_panic = bool(bad_panic)
        if (nres == "PANIC") != exp_panic or (nres != "PANIC" and list(nres) != list(outs)):
            r["ok"] = False
            r["detail"] = ("translator self-check FAILED on %s: evaluator %s%s, native %s" %
                           (env, outs, " (panic site %s)" % bad_panic[0].where if bad_panic else "", nres))
            return r
        if bad_panic:
            r["fuzz_ce"].setdefault("panic-free", env)
        elif not cong:
            r["fuzz_ce"].setdefault("congruent", env)
    r["detail"] = "evaluator == native on %d operands (boundary + seeded random)" % len(evs)
    return r


# =============================================================================================
# solving
# =============================================================================================

def caps(tier):
    return (60, 20) if tier == "quick" else (600, 60)


Z3_ALT = "(set-option :smt.arith.solver 2)\n"    # z3's older simplex core; decides some queries (reduce160)
                                                      # in 0.3 s on which the default core needs > 60 s


def primary(q, cap):
    """z3 5.1 as a two-configuration portfolio run concurrently (default arithmetic core / legacy core);
    the first decisive answer wins and the other process is killed. Same answer conventions as
    common.run_solver."""
    import tempfile
    t0 = time.time()
    procs = []
    for text in (q, Z3_ALT + q):
        f = tempfile.TemporaryFile()
        p = subprocess.Popen([common.Z3_NEW, "-in", "-T:%d" % int(cap), "-memory:8000"], stdin=subprocess.PIPE,
                             stdout=f, stderr=subprocess.DEVNULL)
        try:
            p.stdin.write(text.encode())
            p.stdin.close()
        except BrokenPipeError:
            pass
        procs.append((p, f))
    answers = [None, None]
    result = None
    while result is None and time.time() - t0 < cap + 15:
        for i, (p, f) in enumerate(procs):
            if answers[i] is None and p.poll() is not None:
                f.seek(0)
                out = f.read().decode(errors="replace")
                first = out.strip().split("\n", 1)[0].strip() if out.strip() else ""
                if "(error" in out and first not in ("sat", "unsat"):
                    answers[i] = ("error", out)
                elif "(error" in out and "model is not available" not in out:
                    answers[i] = ("error", out)
                elif first in ("sat", "unsat", "unknown"):
                    answers[i] = (first, out)
                else:
                    answers[i] = ("timeout", out)
                if answers[i][0] in ("sat", "unsat"):
                    result = answers[i]
                    break
        if result is None:
            if all(a is not None for a in answers):
                result = answers[0] if answers[0][0] != "timeout" else answers[1]
                break
            time.sleep(0.01)
    for (p, f) in procs:
        if p.poll() is None:
            p.kill()
            p.wait()
        f.close()
    if result is None:
        result = ("timeout", "")
    return result[0], time.time() - t0, result[1]


def solve_queries(q_main, q_twin, tier):
    """primary + cross-checks + vacuity twin. Pure subprocess work (thread-pool friendly)."""
    cap1, cap2 = caps(tier)
    out = {"queries": 0, "seconds": 0.0, "cross": [], "twin": None}
    a, dt, raw = primary(q_main, cap1)
    out["answer"], out["queries"], out["seconds"] = a, 1, dt
    if a == "unsat":
        for sv, nm in ((common.Z3_OLD, "z3-4.8.12"), (common.CVC5, "cvc5-1.0.3")):
            a2, dt2, raw2 = common.run_solver(q_main, sv, cap2)
            if a2 == "error" and "interrupted by timeout" in raw2:      # cvc5 reports its time limit on stderr
                a2 = "timeout"
            out["cross"].append((nm, a2, dt2))
            out["queries"] += 1
            out["seconds"] += dt2
    if q_twin is not None:
        a3, dt3, _ = common.run_solver(q_twin, common.Z3_NEW, cap2)
        out["twin"] = a3
        out["queries"] += 1
        out["seconds"] += dt3
    return out


def merge_parts(parts):
    """Combine the per-part answers of one obligation: sat if any part is sat, unsat if all are."""
    out = {"queries": 0, "seconds": 0.0, "cross": [], "twin": None, "sat_goal": None, "nparts": len(parts)}
    answers = []
    cross = {}
    for g, r in parts:
        out["queries"] += r["queries"]
        out["seconds"] += r["seconds"]
        answers.append(r["answer"])
        if r["answer"] == "sat" and out["sat_goal"] is None:
            out["sat_goal"] = g
        if r["twin"] is not None:
            out["twin"] = r["twin"]
        for (nm, a, dt) in r["cross"]:
            c = cross.setdefault(nm, {"answers": [], "dt": 0.0})
            c["answers"].append(a)
            c["dt"] += dt
    if "sat" in answers:
        out["answer"] = "sat"
    elif all(a == "unsat" for a in answers):
        out["answer"] = "unsat"
    else:
        out["answer"] = [a for a in answers if a not in ("sat", "unsat")][0]
    for nm, c in cross.items():
        a = c["answers"]
        summary = "sat" if "sat" in a else ("unsat" if all(x == "unsat" for x in a) else
                                            "unsat except %d x %s" % (sum(1 for x in a if x != "unsat"),
                                                                      [x for x in a if x != "unsat"][0]))
        out["cross"].append((nm, summary, c["dt"]))
    return out


def get_model(S, hyps, goal, tier):
    q = S.smt_query(hyps, S.not_(goal), get_model=True)
    a, dt, raw = primary(q, caps(tier)[0])
    if a != "sat":
        return None
    return common.parse_model(raw)


def env_from_model(case, model):
    env = {}
    for (nm, ty) in case.inputs:
        it = T.INT_TYPES[ty]
        env[nm] = min(max(model.get(nm, 0), it.lo), it.hi)
    return env


def find_real_counterexample(prog, b, kind, tier, rng, sat_goal=None):
    """A `sat` answer may be an artefact of the opaque products. Look for operands on which the *exact*
    evaluator violates the obligation: (1) the model itself, (2) re-solve with the `concretize` operands
    fixed to constants (model values, boundary values, random) so that all products are linear."""
    case = b.case
    # ask for the model of the part that was reported sat (cheaper than the whole conjunction)
    model = get_model(b.q[kind][0], b.q[kind][1], sat_goal if sat_goal is not None else b.q[kind][2], tier)
    tried = 0
    if model is not None:
        env = env_from_model(case, model)
        if _violates(b, kind, env):
            return env, "solver model"
    if not case.concretize or not b.S.prods:
        return None, "solver model is not a concrete counterexample"
    cands = []
    if model is not None:
        cands.append({n: env_from_model(case, model)[n] for n in case.concretize})
    for v in (M64 - 1, P - 1, 1, EPS, M64 - 2 ** 32, 0):
        cands.append({n: v for n in case.concretize})
    for _ in range(3):
        cands.append({n: rng.randint(0, M64 - 1) for n in case.concretize})
    for conc in cands:
        tried += 1
        try:
            b2 = build_case(prog, case, concrete=conc)
        except T.Unsupported:
            continue
        if b2.q[kind][2] is b2.q[kind][0].true:
            continue
        m2 = get_model(b2.q[kind][0], b2.q[kind][1], b2.q[kind][2], "quick")
        if m2 is None:
            continue
        env = env_from_model(case, dict(m2, **conc))
        env.update(conc)
        if _violates(b, kind, env):
            return env, "refined model (operands %s fixed to constants, try %d)" % (",".join(case.concretize), tried)
    return None, "no concrete counterexample after %d refinements of the opaque products" % tried


def _violates(b, kind, env):
    try:
        pre_ok, outs, cong, bad_panic, bad_pre = eval_built(b, env)
    except KeyError:
        return False
    if not pre_ok:
        return False
    return {"congruent": not cong, "panic-free": bool(bad_panic), "precond": bool(bad_pre)}[kind]


def write_replay(prop, case, kind, env, expect, which):
    """Shell script: rebuild + run the native binary on the operands; exit 1 when the failure shows."""
    os.makedirs(REPLAYS, exist_ok=True)
    path = os.path.join(REPLAYS, "%s_%s_%s.sh" % (prop, case.name, kind.replace("-", "_")))
    line = native_line(case, env)
    pick = case.native[2]
    exp_s = " ".join("%d:%s" % (e, m) for (e, m) in expect) if expect else ""
    repo = os.path.abspath(common.REPO)
    script = """#!/bin/sh
# Replay of a counterexample found by Engine M (property %(prop)s, obligation %(name)s:%(kind)s).
# Calls the real function natively (dev profile: overflow checks + debug assertions on) and compares with
# the mathematical value modulo p = 2^64-2^32+1.  exit 1 = the failure reproduces, 0 = it does not.
set -e
REPO="${VERIF_REPO:-%(repo)s}"
SRC=%(native)s
TGT=%(verif)s/.cache/mir-native-target
if [ "$REPO" != "/repo" ]; then
  W=$(mktemp -d /var/tmp/plonky2-verif-replay-XXXXXX); trap 'rm -rf "$W"' EXIT
  cp -r "$SRC" "$W/native"; SRC="$W/native"; TGT=%(verif)s/.cache/mir-native-target-alt
  sed -i "s#\\"/repo/#\\"$REPO/#" "$SRC/Cargo.toml"
fi
cp "$REPO/Cargo.lock" "$SRC/Cargo.lock"
(cd "$SRC" && CARGO_NET_OFFLINE=true RUSTUP_TOOLCHAIN=nightly CARGO_TARGET_DIR="$TGT" \\
   cargo build --offline -q --bin mir_native_%(which)s %(feat)s) >&2
OUT=$(echo "%(line)s" | "$TGT/debug/mir_native_%(which)s")
echo "call:   %(line)s"
echo "native: $OUT"
python3 - "$OUT" <<'EOF'
import sys
P = 2**64 - 2**32 + 1
out = sys.argv[1].strip()
if out.startswith("PANIC"):
    print("native code panicked (dev profile) -> reproduced"); sys.exit(1)
words = [int(x) for x in out.split()]
pick = %(pick)r
if pick is not None: words = [words[i] for i in pick]
expect = %(expect)r
bad = False
for w, (e, mode) in zip(words, expect):
    ok = (w == e) if mode == "exact" else ((w - e) %% P == 0 and 0 <= w < (P if mode == "canon" else 2**64))
    print("result %%d  expected %%s %%d  -> %%s" %% (w, {"exact": "==", "modp": "== (mod p)", "canon": "== (mod p, canonical)"}[mode], e %% P if mode != "exact" else e, "ok" if ok else "MISMATCH"))
    bad |= not ok
sys.exit(1 if bad else 0)
EOF
""" % dict(prop=prop, name=case.name, kind=kind, repo=repo, native=NATIVE_DIR, verif=common.VERIF, which=which,
           feat="--features poseidon" if which == "poseidon" else "", line=line, pick=pick,
           expect=[(int(e), m) for (e, m) in expect])
    with open(path, "w") as f:
        f.write(script)
    os.chmod(path, os.stat(path).st_mode | stat.S_IXUSR | stat.S_IXGRP | stat.S_IXOTH)
    return path


def confirm_native(b, kind, env, native, prop):
    """Run the real code on `env`. -> (confirmed, detail, replay path)"""
    case = b.case
    if case.native is None:
        return False, "no public API route to replay natively", None
    if native.bin is None:
        return False, native.err or "native binary unavailable", None
    try:
        res = native_pick(case, native.run_lines([native_line(case, env)])[0])
    except Exception as e:  # noqa: BLE001
        return False, "native replay failed: %r" % (e,), None
    expect = []
    if b.spec:
        vals = b.S.evaluate([e for (e, m) in b.spec], env)
        expect = [(v, m) for v, (e, m) in zip(vals, b.spec)]
    ok = True
    if res == "PANIC":
        ok = False
        what = "native dev-profile build panics"
    else:
        what = "native result %s" % (res,)
        if expect:
            for w, (e, m) in zip(res, expect):
                good = (w == e) if m == "exact" else ((w - e) % P == 0 and 0 <= w < (P if m == "canon" else M64))
                ok &= good
            if not ok:
                what += " != expected %s (mod p)" % ([e % P for e, _ in expect],)
    if ok:
        return False, "counterexample %s did not reproduce natively (%s)" % (env, what), None
    path = write_replay(prop, case, kind, env, expect, native.which)
    return True, "operands %s: %s" % (env, what), path


# =============================================================================================
# family driver
# =============================================================================================

KINDS = ("congruent", "panic-free", "precond")
SAMPLE = {
    "congruent": "forall operands: result == spec (mod p) and in range",
    "panic-free": "forall operands: no overflow assert fails, no assume() argument is false",
    "precond": "forall operands: reduce160's precondition x < 2^160-2^128+2^96 holds at the call",
}


def run_cases(prog, cases, prop, tier, seed, which, timings):
    rng = random.Random(seed)
    native = Native(which)
    with ThreadPoolExecutor(max_workers=common.ncpu()) as pool:
        fut_native = pool.submit(native.build)
        # 1. symbolic execution + query text (main thread: sessions are not thread-safe)
        t0 = time.time()
        built, results, jobs = {}, [], []
        for case in cases:
            try:
                b = build_case(prog, case)
                built[case.name] = b
            except T.Unsupported as e:
                for kind in KINDS[:2]:
                    results.append(common.ob("%s.M.%s.%s" % (prop, case.name, kind), prop, "M", case.functions,
                                             case.bounds, "inconclusive", assumptions=case.assumptions, nontrivial=False,
                                             detail="unsupported by the MIR translator: %s" % e, queries=0,
                                             sample="%s: %s" % (case.name, SAMPLE[kind])))
                continue
            S = b.S
            b.queries = {}
            for kind in KINDS:
                if kind == "precond" and not case.hook_r160:
                    continue
                qS, qh, goal = b.q[kind]
                if goal is qS.true:
                    b.queries[kind] = 0
                    continue
                if kind == "congruent":
                    reach = qS.true
                else:
                    # reachability of at least one checked site; sites whose condition is literally `false`
                    # (unreachable_unchecked) are obligations "pc is infeasible" and do not count
                    rs = [o.pc for o in b.sites[kind] if o.cond is not qS.false]
                    reach = qS.or_(*rs) if rs else qS.true
                qt = qS.smt_query(qh, reach, get_model=False)
                parts = [g for g in b.parts[kind] if g is not qS.true]
                b.queries[kind] = len(parts)
                for pi, g in enumerate(parts):
                    q = qS.smt_query(qh, qS.not_(g), get_model=False)
                    jobs.append((case.name, kind, pi, g, pool.submit(solve_queries, q, qt if pi == 0 else None, tier)))
        timings["symexec"] = time.time() - t0
        # 2. translator validation (needs the native binary)
        fut_native.result()
        timings["native_build"] = native.build_s
        t0 = time.time()
        valid = {}
        for name, b in built.items():
            valid[name] = validate(b, native, rng)
        timings["validate"] = time.time() - t0
        t0 = time.time()
        solved = {}
        for (n, k, pi, g, f) in jobs:
            solved.setdefault((n, k), []).append((g, f.result()))
        solved = {key: merge_parts(v) for key, v in solved.items()}
        timings["solve_wait"] = time.time() - t0
    # 3. verdicts
    t0 = time.time()
    for case in cases:
        b = built.get(case.name)
        if b is None:
            continue
        v = valid[case.name]
        asum = list(case.assumptions) + sorted(b.ex.notes - set(case.assumptions))
        fns = list(case.functions)
        for kind in KINDS:
            if kind not in b.queries:
                continue
            oid = "%s.M.%s.%s" % (prop, case.name, kind)
            sample = "%s: %s" % (case.name, SAMPLE[kind])
            nsites = len(b.sites[kind]) if kind != "congruent" else len(b.outs)
            if not v["ok"]:
                results.append(common.ob(oid, prop, "M", fns, case.bounds, "inconclusive", assumptions=asum,
                                         nontrivial=False, detail=v["detail"], sample=sample, queries=0))
                continue
            if not b.queries[kind]:
                results.append(common.ob(oid, prop, "M", fns, case.bounds, "holds", solver="none (closed by the translator's interval simplifier)",
                                         assumptions=asum, nontrivial=False, queries=0, sample=sample,
                                         detail="no checked operation / assume left after constant folding "
                                                "(%d assert(s) with constant-true condition); %s" % (b.trivial_asserts, v["detail"])))
                continue
            r = solved[(case.name, kind)]
            cross = "; ".join("%s %s %.2fs" % c for c in r["cross"])
            det = "%d %s in %d quer%s; z3-5.1 %s; cross-check: %s; vacuity twin %s; %s" % (
                nsites, "result word(s)" if kind == "congruent" else "checked site(s)", r["nparts"],
                "y" if r["nparts"] == 1 else "ies", r["answer"], cross or "-", r["twin"], v["detail"])
            solver = "z3-5.1.0" + ("+z3-4.8.12+cvc5-1.0.3" if r["cross"] else "")
            kw = dict(seconds=r["seconds"], solver=solver, assumptions=asum, queries=r["queries"], sample=sample)
            fuzz = v["fuzz_ce"].get(kind)
            if r["answer"] == "unsat":
                if any(c[1] == "sat" for c in r["cross"]):
                    results.append(common.ob(oid, prop, "M", fns, case.bounds, "inconclusive", nontrivial=False,
                                             detail="solver disagreement: " + det, **kw))
                elif fuzz is not None:
                    # The operand sweep found operands on which evaluator (== native) break the end-to-end
                    # statement although the query is unsat.  For reduce160's callers this is expected when the
                    # defect sits inside reduce160 (their query is the call-site equality, see _r160_hook);
                    # a natively reproduced failure is a violation however it was found.
                    ok, what, path = confirm_native(b, kind, fuzz, native, prop)
                    if ok:
                        results.append(common.ob(oid, prop, "M", fns, case.bounds, "violated", nontrivial=True,
                                                 detail="end-to-end counterexample from the seeded operand sweep, reproduced "
                                                        "natively: %s (the solver query itself was unsat%s)" % (
                                                            what, ": defect is inside a contracted callee (%s)" % "/".join(sorted(case.contract_fns))
                                                            if case.contract_fns and kind == "congruent" else ""),
                                                 replay=path, finding_key="%s:%s" % (case.name, kind), **kw))
                    else:
                        results.append(common.ob(oid, prop, "M", fns, case.bounds, "inconclusive", nontrivial=False,
                                                 detail="solvers say unsat but operands %s violate the obligation in the exact "
                                                        "evaluator and this did not reproduce natively (%s); %s" % (fuzz, what, det), **kw))
                elif r["twin"] != "sat":
                    results.append(common.ob(oid, prop, "M", fns, case.bounds, "inconclusive", nontrivial=False,
                                             detail="vacuity twin not satisfiable (%s): %s" % (r["twin"], det), **kw))
                else:
                    results.append(common.ob(oid, prop, "M", fns, case.bounds, "holds", nontrivial=True, detail=det, **kw))
                continue
            if r["answer"] != "sat":
                results.append(common.ob(oid, prop, "M", fns, case.bounds, "inconclusive", nontrivial=False,
                                         detail="primary solver answered %s; %s" % (r["answer"], det), **kw))
                continue
            # sat: look for a real counterexample, replay natively
            env, how = find_real_counterexample(prog, b, kind, tier, rng, r.get("sat_goal"))
            if env is None and fuzz is not None:
                env, how = fuzz, "seeded operand sweep (solver model was spurious)"
            if env is None:
                results.append(common.ob(oid, prop, "M", fns, case.bounds, "inconclusive", nontrivial=False,
                                         detail="sat, but %s; %s" % (how, det), **kw))
                continue
            ok, what, path = confirm_native(b, kind, env, native, prop)
            if kind != "congruent":
                bad = eval_built(b, env)[3 if kind == "panic-free" else 4]
                what += "; failing site(s): " + ", ".join("%s [%s]" % (o.where, o.msg) for o in bad[:3])
            if ok:
                results.append(common.ob(oid, prop, "M", fns, case.bounds, "violated", nontrivial=True,
                                         detail="counterexample from %s, reproduced natively: %s" % (how, what),
                                         replay=path, finding_key="%s:%s" % (case.name, kind), **kw))
            else:
                results.append(common.ob(oid, prop, "M", fns, case.bounds, "inconclusive", nontrivial=False,
                                         detail="sat (%s) but not confirmed: %s" % (how, what), **kw))
    timings["verdicts"] = time.time() - t0
    native.close()
    return results


def run(family, tier, seed, prop):
    t_all = time.time()
    timings = {}
    try:
        if family == "field_kernels":
            prog, tm = T.load_program(["plonky2_util", "plonky2_field"])
            cases, which = field_cases(), "field"
        elif family == "poseidon_kernels":
            prog, tm = T.load_program(["plonky2_util", "plonky2_field", "plonky2"])
            cases, which = poseidon_cases(prog), "poseidon"
        else:
            raise ValueError("unknown family " + family)
    except T.Unsupported as e:
        return [common.ob("%s.M.%s.mir-dump" % (prop, family), prop, "M", [], "-", "inconclusive", nontrivial=False,
                          detail="could not obtain MIR: %s" % e, queries=0)]
    timings.update({"mir_" + k: v for k, v in tm.items()})
    results = run_cases(prog, cases, prop, tier, seed, which, timings)
    timings["total"] = time.time() - t_all
    common.log("engine M %s: %d obligations; timings %s" % (
        family, len(results), " ".join("%s=%.1fs" % kv for kv in timings.items())))
    run.last_timings = timings
    return results


if __name__ == "__main__":
    fam = sys.argv[1] if len(sys.argv) > 1 else "field_kernels"
    tier_ = sys.argv[2] if len(sys.argv) > 2 else "quick"
    prop_ = {"field_kernels": "C14", "poseidon_kernels": "C13"}.get(fam, "C14")
    rs = run(fam, tier_, int(os.environ.get("VERIF_SEED", "0") or 0), prop_)
    n = {"holds": 0, "violated": 0, "inconclusive": 0}
    for r_ in rs:
        n[r_["verdict"]] += 1
        flag = {"holds": "ok  ", "violated": "VIOL", "inconclusive": "??? "}[r_["verdict"]]
        print("%s %-44s %6.2fs q=%d %s" % (flag, r_["id"], r_["seconds"], r_["queries"],
                                            "" if r_["verdict"] == "holds" else r_["detail"][:400]))
        if r_["verdict"] == "violated":
            print("     replay=%s" % r_["replay"])
    print("%s %s: %d obligations: %d hold, %d violated, %d inconclusive; %s" % (
        fam, tier_, len(rs), n["holds"], n["violated"], n["inconclusive"],
        " ".join("%s=%.1fs" % kv for kv in getattr(run, "last_timings", {}).items())))
    sys.exit(1 if n["violated"] else (2 if n["inconclusive"] or not rs else 0))
