"""Engine S driver: build the symf harness against /repo's working tree, let it execute the real
generic code symbolically and emit one SMT-LIB query per obligation, decide every query with the
solver(s) in parallel, replay `sat` models natively (same generic code at GoldilocksField)."""
import json
import os
import random
import shutil
import subprocess
import sys
import time
from concurrent.futures import ThreadPoolExecutor

sys.path.insert(0, os.path.dirname(os.path.dirname(os.path.abspath(__file__))))
from lib import common  # noqa: E402
from lib.common import P  # noqa: E402

SYMF_DIR = os.path.join(common.VERIF, "symf")
# an alternative tree (VERIF_REPO, used to confront seeded changes without touching /repo) gets its own
# target directory, so that it can run next to checks of /repo
TARGET = os.path.join(common.CACHE, "symf-target" if common.REPO == "/repo" else "symf-target-alt")
BIN = os.path.join(TARGET, "release", "symf")
_build_lock = __import__("threading").Lock()
_built = {}


def build():
    """(Re)build the harness against the current /repo tree (cargo tracks the path deps)."""
    with _build_lock:
        if _built.get("ok"):
            return
        os.makedirs(common.CACHE, exist_ok=True)
        shutil.copyfile(os.path.join(common.REPO, "Cargo.lock"), os.path.join(SYMF_DIR, "Cargo.lock"))
        manifest = os.path.join(SYMF_DIR, "Cargo.toml")
        if common.REPO != "/repo":
            # alternative tree (self-tests): build from a rewritten copy of the harness crate
            alt = os.path.join(common.CACHE, "symf-alt")
            shutil.rmtree(alt, ignore_errors=True)
            shutil.copytree(SYMF_DIR, alt)
            txt = open(os.path.join(alt, "Cargo.toml")).read().replace('"/repo/', '"%s/' % common.REPO)
            open(os.path.join(alt, "Cargo.toml"), "w").write(txt)
            manifest = os.path.join(alt, "Cargo.toml")
        t0 = time.time()
        p = subprocess.run(
            ["cargo", "build", "--release", "--manifest-path", manifest],
            env=common.env_offline({"RUSTUP_TOOLCHAIN": "nightly", "CARGO_TARGET_DIR": TARGET}),
            stdout=subprocess.PIPE, stderr=subprocess.STDOUT)
        if p.returncode != 0:
            sys.stderr.write(p.stdout.decode(errors="replace")[-6000:])
            raise RuntimeError("symf harness does not build against the current tree")
        common.log("symf build %.1fs" % (time.time() - t0))
        _built["ok"] = True


def _decide(path, timeout_s):
    """primary z3 5.1; returns (answer, seconds, raw)"""
    with open(path) as f:
        text = f.read()
    return common.run_solver(text, common.Z3_NEW, timeout_s)


def _crosscheck(path, cap=20):
    """re-submit an unsat query to z3 4.8 and cvc5; 'sat' there is a disagreement."""
    text = open(path).read().replace("(get-model)\n", "")
    notes = []
    for solver, name in ((common.Z3_OLD, "z3-4.8.12"), (common.CVC5, "cvc5")):
        a, dt, _ = common.run_solver(text, solver, cap)
        notes.append("%s:%s" % (name, a))
        if a == "sat":
            return False, notes
    return True, notes


def _replay(family, tier, obid, model, outdir, tries=6, seed=0, names=()):
    """Evaluate the obligation natively (GoldilocksField, PoseidonGoldilocksConfig) on the model;
    if the exact model does not reproduce, try the model with its unconstrained inputs randomised
    (the cut-point encoding may pick unreachable intermediate values). Returns (reproduced, model)."""
    rnd = random.Random(seed)
    for attempt in range(tries):
        m = dict(model)
        m["__random_seed__"] = seed * 1000 + attempt + 1
        deltas = [nm for nm in names if nm.startswith("delta")]
        if deltas and all(m.get(nm, 0) % P == 0 for nm in deltas):
            # no perturbation in the model at all (undecided query): use a unit perturbation
            for nm in deltas:
                m[nm] = 1 + (attempt % 3)
        if attempt > 0:
            for k in list(m.keys()):
                if not k.startswith("delta") and not k.startswith("__"):
                    m[k] = rnd.randrange(P)
            pass
        mp = os.path.join(outdir, obid.replace("/", "_") + ".model%d.json" % attempt)
        with open(mp, "w") as f:
            json.dump(m, f)
        p = subprocess.run([BIN, "replay", family, tier, obid, mp], stdout=subprocess.PIPE,
                           stderr=subprocess.PIPE, timeout=600)
        out = p.stdout.decode(errors="replace")
        if "REPRODUCED" in out and "NOT-REPRODUCED" not in out:
            return True, m, out.strip()
    return False, model, out.strip()


def _write_replay(prop, family, tier, obid, model):
    d = os.path.join(common.VERIF, "replays")
    os.makedirs(d, exist_ok=True)
    base = os.path.join(d, obid.replace("/", "_"))
    with open(base + ".model.json", "w") as f:
        json.dump(model, f, indent=1, sort_keys=True)
    with open(base + ".sh", "w") as f:
        f.write("#!/bin/sh\n# native replay of %s: same generic obligation code instantiated at GoldilocksField\n"
                "cd %s && python3 -c \"import sys; sys.path.insert(0,'.'); from engines import s; s.build()\" && \\\n"
                "%s replay %s %s '%s' %s.model.json\n" % (obid, common.VERIF, BIN, family, tier, obid, base))
    os.chmod(base + ".sh", 0o755)
    return base + ".sh"


def run(family, tier, seed, prop, only=None, id_regex=None):
    build()
    results = []
    quick = tier != "thorough"
    timeout_s = 40 if quick else 600
    with common.Scratch("symf-" + family) as outdir:
        t0 = time.time()
        cmd = [BIN, "emit", family, tier, outdir] + ([only] if only else [])
        p = subprocess.run(cmd, stdout=subprocess.PIPE, stderr=subprocess.PIPE, timeout=3600)
        if p.returncode != 0 or not os.path.exists(os.path.join(outdir, "index.json")):
            return [common.ob("%s.S.%s.emit" % (prop, family), prop, "S", [], "-", "inconclusive",
                              detail="symbolic execution failed: " + p.stderr.decode(errors="replace")[-800:],
                              nontrivial=False)]
        metas = json.load(open(os.path.join(outdir, "index.json")))
        if id_regex:
            import re
            rx = re.compile(id_regex)
            # harness panics are never filtered away
            metas = [m for m in metas if rx.search(m["id"]) or m["id"].endswith(".panic")]
        common.log("symf emit %s: %d obligations in %.1fs" % (family, len(metas), time.time() - t0))
        # vacuity witnesses: the same obligations evaluated natively on pseudo-random inputs; an
        # obligation whose hypotheses hold on a concrete input has satisfiable hypotheses
        witness = {}
        for ws in (seed * 2 + 1, seed * 2 + 2):
            try:
                wp = subprocess.run([BIN, "witness", family, tier, str(ws)], stdout=subprocess.PIPE,
                                    stderr=subprocess.PIPE, timeout=1800)
                for k, v in json.loads(wp.stdout.decode().strip().splitlines()[-1]).items():
                    witness[k] = witness.get(k, False) or v
            except Exception as e:  # witness is auxiliary: fall back to the solver twin
                common.log("witness run failed: %r" % (e,))

        def work(m):
            funcs = m["functions"]
            base = dict(prop=prop, engine="S", functions=funcs, bounds=m["bounds"],
                        assumptions=m["assumptions"], sample=m["sample"])
            if m["closed"] and m["closed"] not in ("syntactic", "normal-form"):
                if m["id"].endswith(".panic"):
                    # The symbolic run of this group panicked. If the same generic group, instantiated at
                    # GoldilocksField on pseudo-random concrete inputs, panics as well, the code under
                    # test panics on a concrete valid input: a violation, reproduced natively.
                    try:
                        ok, model, out = _replay(family, tier, m["id"], {}, outdir, tries=3, seed=seed)
                    except Exception as e:  # noqa
                        ok, model, out = False, {}, "replay failed: %r" % (e,)
                    if ok:
                        rp = _write_replay(prop, family, tier, m["id"], model)
                        return common.ob(m["id"], verdict="violated", solver="native run (no query: the symbolic execution itself panicked)",
                                         detail="%s; reproduced natively on concrete inputs: %s" % (m["closed"], out[-300:]),
                                         replay=rp, finding_key=m["finding_key"], nontrivial=False, **base)
                return common.ob(m["id"], verdict="inconclusive", detail=m["closed"], nontrivial=False, **base)
            if m["closed"] in ("syntactic", "normal-form"):
                # The encoder's preprocessing (normal form, GF(p) row reduction) already reduced every
                # goal atom to `true`; the residual query still goes to the solver, which must answer
                # unsat. "syntactic": both computations produced the very same hash-consed term (says
                # little); "normal-form": different terms, equal as polynomials over GF(p).
                text = open(os.path.join(outdir, m["smt"])).read()
                for cap in (20, 60, 180):  # a timeout on a trivially false query is machine load: retry
                    ans, dt, raw = common.run_solver(text, common.Z3_NEW, cap)
                    if ans not in ("timeout", "error"):
                        break
                solver, note = "z3-5.1.0", "z3-5.1.0:" + ans
                if ans != "unsat":
                    return common.ob(m["id"], verdict="inconclusive", seconds=dt, solver=solver,
                                     detail="residual query after %s closure answered %s" % (m["closed"], ans), **base)
                return common.ob(m["id"], verdict="holds", solver=solver + " on the residual query (goal closed by encoder %s)" % m["closed"],
                                 seconds=dt, nontrivial=(m["closed"] == "normal-form"), queries=1,
                                 detail="closed by %s; %s" % (m["closed"], note), **base)
            path = os.path.join(outdir, m["smt"])
            # L rendering first (monomials opaque: unsat there is unsat of the exact query);
            # anything else is re-asked on the exact nonlinear rendering N. Each query goes to
            # z3 5.1 and cvc5 side by side (first decisive answer; the other gets a few seconds to
            # contradict it).
            ans, dt, raw, solver, note = common.run_portfolio(open(path).read(), timeout_s)
            if ans in ("timeout", "error") and os.getloadavg()[0] > 2 * common.ncpu():
                # heavily loaded machine: one more attempt with a longer cap before giving up on L
                ans, dt2, raw, solver, note = common.run_portfolio(open(path).read(), 4 * timeout_s)
                dt += dt2
            queries = 1
            rendering = "L"
            notes = ["L[" + note + "]"]
            if ans not in ("unsat", "disagree"):
                npath = path[:-5] + ".nl.smt2"
                ans_l, raw_l = ans, raw
                ans, dt2, raw, solver, note = common.run_portfolio(open(npath).read(), timeout_s)
                notes.append("N[" + note + "]")
                dt += dt2
                queries += 1
                rendering = "N"
                if ans not in ("sat", "unsat", "disagree"):
                    # exact rendering undecided (model construction through the hash symbols and
                    # congruence systems is hard for the solvers): try to confirm a violation
                    # natively on the L model / pseudo-random inputs with a unit perturbation.
                    # Only a native reproduction counts; otherwise the obligation is inconclusive.
                    ans, raw = "sat?", (raw_l if ans_l == "sat" else "")
            detail = "rendering %s; %s" % (rendering, " ".join(notes))
            if ans == "disagree":
                return common.ob(m["id"], verdict="inconclusive", seconds=dt, solver=solver, queries=queries,
                                 detail="solver disagreement: " + detail, **base)
            if ans == "unsat":
                nontrivial = True
                if m["vacuity"]:
                    if witness.get(m["id"]):
                        detail += "; vacuity: hypotheses hold on a concrete native input"
                    else:
                        va, vdt, _, _, _ = common.run_portfolio(open(os.path.join(outdir, m["vacuity"])).read(), 10)
                        queries += 1
                        dt += vdt
                        if va == "unsat":
                            return common.ob(m["id"], verdict="inconclusive", seconds=dt, solver=solver, queries=queries,
                                             detail="vacuous: hypotheses are unsatisfiable", nontrivial=False, **base)
                        nontrivial = va == "sat"
                        detail += "; vacuity twin: %s" % va
                return common.ob(m["id"], verdict="holds", seconds=dt, solver=solver, nontrivial=nontrivial,
                                 queries=queries, detail=detail, **base)
            if ans in ("sat", "sat?"):
                model_raw = common.parse_model(raw)
                model = {m["vars"][k]: v % P for k, v in model_raw.items() if k in m["vars"]}
                if m.get("candidate"):
                    # candidate from the encoder's algebraic model search (polynomial equations mod p
                    # are beyond the SMT solvers' model construction): replayed natively first
                    cand = json.load(open(os.path.join(outdir, m["candidate"])))
                    ok, mm, out = _replay(family, tier, m["id"], cand, outdir, tries=1, seed=seed, names=[])
                    if ok:
                        rp = _write_replay(prop, family, tier, m["id"], mm)
                        return common.ob(m["id"], verdict="violated", seconds=dt, solver=solver + " + algebraic model search", queries=queries,
                                         detail="counterexample reproduced natively: " + out[:300], replay=rp,
                                         finding_key=m["finding_key"], **base)
                ok, mm, out = _replay(family, tier, m["id"], model, outdir, seed=seed, names=list(m["vars"].values()))
                if ok:
                    rp = _write_replay(prop, family, tier, m["id"], mm)
                    return common.ob(m["id"], verdict="violated", seconds=dt, solver=solver, queries=queries,
                                     detail="counterexample reproduced natively: " + out[:300], replay=rp,
                                     finding_key=m["finding_key"], **base)
                return common.ob(m["id"], verdict="inconclusive", seconds=dt, solver=solver, queries=queries,
                                 detail="%s (%s); %s" % (
                                     "no solver verdict and no native counterexample found" if ans == "sat?"
                                     else "solver model did not reproduce natively", out[:200], detail), **base)
            return common.ob(m["id"], verdict="inconclusive", seconds=dt, solver=solver, queries=queries,
                             detail="solver answered %s; %s" % (ans, detail), **base)

        with ThreadPoolExecutor(max_workers=max(2, common.ncpu() // 2)) as ex:
            results = list(ex.map(work, metas))
    return results


if __name__ == "__main__":
    fam = sys.argv[1]
    tier = sys.argv[2] if len(sys.argv) > 2 else "quick"
    only = sys.argv[3] if len(sys.argv) > 3 else None
    t0 = time.time()
    rs = run(fam, tier, 0, "C07", only)
    import collections
    c = collections.Counter(r["verdict"] for r in rs)
    for r in rs:
        if r["verdict"] != "holds":
            print(r["id"], r["verdict"], r["detail"][:300])
    slow = sorted(rs, key=lambda r: -r["seconds"])[:8]
    for r in slow:
        print("slow", r["id"], r["seconds"], r["verdict"])
    print(dict(c), "nontrivial", sum(r["nontrivial"] for r in rs), "%.1fs" % (time.time() - t0))
