#!/usr/bin/env python3
"""Engine K - Kani 0.68 / CBMC 6.11 bounded model checking of loops, buffers and index logic.

    run(family, tier, seed, prop) -> list of obligation records (lib/common.py: `ob`)

One obligation = one `#[kani::proof]` harness of the crate /verif/kani (concrete sizes, unwinding
assertions on, a `kani::cover!` reachability witness).  The table HARNESSES below is the only place
that knows which harnesses exist, which /repo functions they encode, their bounds, stubs and tier;
the harness *name* ("<module>::<fn>") is the interface to the Rust side.

Verdicts (never optimistic):
  holds         VERIFICATION:- SUCCESSFUL, zero failed checks, and the cover witness SATISFIED
                (for `should_panic` harnesses: a panic reached and the cover after the call
                UNSATISFIABLE/UNREACHABLE - see log2_strict_rejects_non_pow2).
  violated      a check other than an unwinding assertion / unsupported construct FAILED *and* the
                concrete counterexample, replayed natively against the real code with
                `cargo kani playback` (no stubs, dev profile), fails as well.  A replay script is
                left in /verif/replays/<harness>.sh (exit 1 = reproduced).
  inconclusive  everything else: unwinding assertion failed, CBMC error / out of memory, timeout,
                build failure, cover not satisfied (vacuous), counterexample not reproduced, harness
                missing from the log.

How it is run: the harnesses of a family are spread over up to K_SLOTS batches; each batch is one
`cargo kani --harness a --harness b ... --exact` invocation (Kani prints one section per harness,
so results are attributed per harness) with its own `--target-dir /verif/.cache/kani-target-<slot>`
(exclusive via flock, so concurrent families / concurrent `check` processes never share one),
under `ulimit -v` (per process, i.e. per CBMC run) and `timeout`; each harness additionally has
Kani's own `--harness-timeout`.  The first build of a slot costs 20-40 s, later runs reuse it;
cargo's change tracking picks up any edit of the path dependencies in common.REPO.

CLI:  python3 /verif/engines/k.py <family> [quick|thorough] [--prop Cxx] [--only substr]
      prints one JSON record per line + a summary; exit 0 iff every record is `holds`.
"""
import atexit
import fcntl
import json
import os
import re
import shutil
import signal
import subprocess
import sys
import threading
import time

sys.path.insert(0, os.path.dirname(os.path.dirname(os.path.abspath(__file__))))
from lib import common  # noqa: E402

SOLVER = "cbmc-6.11/cadical (kani 0.68)"
CRATE_SRC = os.path.join(common.VERIF, "kani")            # checked-in harness crate (template + src/)
# The engine never builds inside /verif/kani: it builds a generated twin under /verif/.cache whose
# Cargo.toml points at common.REPO (env VERIF_REPO) and whose src/ is a symlink to /verif/kani/src.
# One twin (and one primary target dir) per REPO path, so a self-test run against a mutated copy
# cannot disturb a concurrent run against /repo.
_REPO_TAG = "repo" if common.REPO == "/repo" else "alt" + __import__("hashlib").sha1(common.REPO.encode()).hexdigest()[:8]
CRATE = os.path.join(common.CACHE, "kani-crate-" + _REPO_TAG)
REPLAYS = os.path.join(common.VERIF, "replays")
LOGS = os.path.join(common.CACHE, "kani-logs")

K_SLOTS = int(os.environ.get("VERIF_K_SLOTS", "6"))       # concurrent cargo-kani invocations / family
K_POOL = int(os.environ.get("VERIF_K_POOL", "12"))        # number of target dirs in /verif/.cache
MEM_KB = int(os.environ.get("VERIF_K_MEM_KB", str(12 * 1024 * 1024)))  # ulimit -v per process
BUILD_ALLOWANCE_S = 400                                   # cold build of a slot (generous)
HARNESS_TIMEOUT = {"quick": 200, "thorough": 900}         # --harness-timeout, seconds
BATCH_BUDGET = {"quick": 230, "thorough": 2700}           # verification seconds per batch (sum cap)

STUB_BRANCH_HINT = "stub: plonky2_util::branch_hint -> no-op (empty inline asm, no semantics)"
STUB_FMT = "stub: alloc::fmt::format -> empty String (text of error/panic messages not modelled)"
STUB_BACKTRACE = ("stub: std::backtrace::Backtrace::capture -> Backtrace::disabled() (anyhow::Error captures a "
                  "backtrace on construction; environment / stack walking not modelled)")
STUB_ADD_ASM = ("stub: plonky2_field::goldilocks_field::add_no_canonicalize_trashing_input -> Intel-SDM "
                "model of `add; sbb` (res = x+y mod 2^64, adj = 0xffffffff*carry) + the function's own assumes")
KANI_MODEL = "Kani/CBMC memory and arithmetic model of the MIR (dev profile: overflow + debug assertions on)"

U = "util/src/lib.rs::"


def H(name, functions, bounds, sample, tier="quick", est=5, assumptions=(), role=None,
      should_panic=False):
    """One harness = one obligation.  `est` = expected CBMC seconds (for load balancing only),
    `role` = short role used in finding_key "<function>:<role>"; `should_panic`: the harness is a
    `#[kani::should_panic]` one whose trailing cover must be unreachable ("the call never returns")."""
    return dict(name=name, functions=list(functions), bounds=bounds, sample=sample, tier=tier, est=est,
                assumptions=[KANI_MODEL] + list(assumptions), role=role or "wrong-result",
                should_panic=should_panic)


def _util_perm():
    hs = []
    for k in range(0, 9):
        n = 1 << k
        unwind = n + 2 if n <= 64 else 66
        path = "lb_n <= 6 table path" if k <= 6 else "lb_n > 6 chunk-of-64 path"
        hs.append(H("util_perm::rib_in_place_n%d" % n,
                    [U + "reverse_index_bits_in_place", U + "reverse_index_bits_in_place_small", U + "log2_strict"],
                    "n=%d (T=u8), all contents, all positions; unwind %d; %s" % (n, unwind, path),
                    "reverse_index_bits_in_place(a)[i] == a[bitrev_%d(i)] for all a: [u8;%d], all i; no OOB swap" % (k, n),
                    est=1 if n <= 64 else (6 if n == 128 else 25), role="wrong-permutation"))
        hs.append(H("util_perm::rib_copy_n%d" % n,
                    [U + "reverse_index_bits", U + ("reverse_index_bits_small" if k <= 6 else "reverse_index_bits_large"),
                     U + "log2_strict"],
                    "n=%d (T=u8), all contents, all positions; unwind %d" % (n, unwind),
                    "reverse_index_bits(a)[i] == a[bitrev_%d(i)] and len == %d for all a, all i" % (k, n),
                    est=1 if n <= 64 else (6 if n == 128 else 25), role="wrong-permutation"))
    hs.append(H("util_perm::log2_ceil_all", [U + "log2_ceil"], "all usize n",
                "2^(c-1) < n <= 2^c for c = log2_ceil(n), n >= 2; c = 0 for n <= 1", est=1))
    hs.append(H("util_perm::log2_strict_pow2", [U + "log2_strict", U + "assume"], "all 64 powers of two",
                "log2_strict(1 << k) == k, no panic, internal assume() holds", est=1))
    hs.append(H("util_perm::log2_strict_rejects_non_pow2", [U + "log2_strict"], "all usize n that are not a power of two (incl. 0)",
                "log2_strict(n) never returns for a non-power-of-two (panics)", est=1,
                should_panic=True, role="accepts-non-power-of-two"))
    hs.append(H("util_perm::bits_u64_all", [U + "bits_u64"], "all u64 n",
                "2^(b-1) <= n < 2^b for b = bits_u64(n), n >= 1; b = 0 for n = 0", est=1))
    for nm, b in [("2", "2"), ("3", "3"), ("4", "4"), ("5", "5"), ("6", "6"), ("7", "7"), ("10", "10"), ("_2p32", "2^32"), ("_max", "2^64-1")]:
        hs.append(H("util_perm::log_floor_base%s" % nm, [U + "log_floor"],
                    "base = %s, all u64 n >= 1; unwind 67" % b,
                    "base^i <= n < base^(i+1) for i = log_floor(n, base) (u128 power table)", est=3))
    return hs


def _field_addsub():
    G = "field/src/goldilocks_field.rs::"
    bh = [STUB_BRANCH_HINT]
    full = "all 2^128 pairs of u64 representations (incl. non-canonical >= p)"
    hs = [
        H("field_addsub::add_all", [G + "<GoldilocksField as Add>::add", U + "assume"], full,
          "canon(F(a)+F(b)) == (a+b) mod p; assume(self.0 > ORDER && rhs.0 > ORDER) never violated; `sum += EPSILON` cannot overflow",
          est=2, assumptions=bh, role="wrong-residue"),
        H("field_addsub::add_assign_all", [G + "<GoldilocksField as AddAssign>::add_assign"], full,
          "canon(a += b) == (a+b) mod p", est=2, assumptions=bh, role="wrong-residue"),
        H("field_addsub::sub_all", [G + "<GoldilocksField as Sub>::sub", U + "assume"], full,
          "canon(F(a)-F(b)) == (a-b) mod p; assume(self.0 < EPSILON-1 && rhs.0 > ORDER) never violated; `diff -= EPSILON` cannot underflow",
          est=2, assumptions=bh, role="wrong-residue"),
        H("field_addsub::sub_assign_all", [G + "<GoldilocksField as SubAssign>::sub_assign"], full,
          "canon(a -= b) == (a-b) mod p", est=2, assumptions=bh, role="wrong-residue"),
        H("field_addsub::neg_all", [G + "<GoldilocksField as Neg>::neg"], "all 2^64 representations",
          "(-F(a)).0 == (-a) mod p and canonical", est=1, assumptions=bh, role="wrong-residue"),
        H("field_addsub::to_canonical_all", [G + "to_canonical_u64", G + "to_noncanonical_u64"], "all 2^64 representations",
          "to_canonical_u64(F(a)) == a mod p", est=1, role="wrong-residue"),
        H("field_addsub::add_canonical_u64_all", [G + "add_canonical_u64"], "all u64 lhs, all rhs < p (documented precondition)",
          "canon(add_canonical_u64(F(a), b)) == (a+b) mod p; `res_wrapped + EPSILON*carry` cannot overflow",
          est=2, assumptions=["kani::assume(rhs < p) - the function's documented precondition"], role="wrong-residue"),
        H("field_addsub::sub_canonical_u64_all", [G + "sub_canonical_u64"], "all u64 lhs, all rhs < p (documented precondition)",
          "canon(sub_canonical_u64(F(a), b)) == (a-b) mod p; `res_wrapped - EPSILON*borrow` cannot underflow",
          est=2, assumptions=["kani::assume(rhs < p) - the function's documented precondition"], role="wrong-residue"),
        H("field_addsub::from_noncanonical_i64_all", [G + "from_noncanonical_i64", G + "from_canonical_u64"], "all i64",
          "from_noncanonical_i64(n).0 == n mod p (euclidean), canonical; debug_assert!(n < ORDER) holds", est=2,
          role="wrong-residue"),
        H("field_addsub::eq_is_canonical_eq", [G + "<GoldilocksField as PartialEq>::eq", "field/src/types.rs::Field::is_zero"],
          full, "F(a) == F(b) <=> a = b (mod p); is_zero <=> a = 0 (mod p)", est=2, role="wrong-equality"),
        H("field_addsub::reduce128_linear_spec", [G + "reduce128", G + "add_no_canonicalize_trashing_input", G + "from_noncanonical_u128"],
          "all u128", "canon(reduce128(n)) + k*p == lo + hl*(2^32-1) - hh + p for some k in 0..=3 (division-free form of n mod p)",
          tier="thorough", est=400, assumptions=bh + [STUB_ADD_ASM], role="wrong-residue"),
    ]
    return hs


def _fri_params():
    R = "plonky2/src/fri/reduction_strategies.rs::"
    M = "plonky2/src/fri/mod.rs::"
    hs = [
        H("fri_params::pow_check_semantics",
          ["plonky2/src/fri/verifier.rs::fri_verify_proof_of_work", "plonky2/src/fri/verifier.rs::verify_fri_proof",
           "plonky2/src/fri/validate_shape.rs::validate_fri_proof_shape"],
          "all u64 pow responses (any representation), proof_of_work_bits 0..=64; reached through the public "
          "verify_fri_proof on the degenerate instance (0 oracles, 0 query rounds, degree_bits 0); unwind 4",
          "verify_fri_proof(..).is_ok() <=> canonical(pow_response).leading_zeros() >= proof_of_work_bits",
          est=45, assumptions=[STUB_BRANCH_HINT, STUB_FMT, STUB_BACKTRACE], role="pow-acceptance"),
        H("fri_params::arity_fixed_is_identity_len0", [R + "FriReductionStrategy::reduction_arity_bits"],
          "Fixed([]), all other arguments; unwind 5", "Fixed(v).reduction_arity_bits(..) == v", est=3, role="fixed-schedule"),
        H("fri_params::arity_fixed_is_identity_len3", [R + "FriReductionStrategy::reduction_arity_bits"],
          "Fixed(v), len(v) = 3, all contents, all other arguments; unwind 5",
          "Fixed(v).reduction_arity_bits(..) == v", est=5, role="fixed-schedule"),
        H("fri_params::arity_constant_postconditions", [R + "FriReductionStrategy::reduction_arity_bits"],
          "ConstantArityBits(a, f): 1<=a<=4, f<=10, degree_bits<=10, rate_bits<=3, cap_height<=4, any num_queries; unwind 13",
          "no panic; all entries == a; sum <= degree_bits; stops exactly when degree <= 2^f or a further reduction would "
          "make the last tree lower than cap_height; last tree >= cap_height",
          est=15, assumptions=["kani::assume(arity_bits <= final_poly_bits + 1): outside it the function's own "
                               "assert!(degree_bits >= arity_bits) / `degree_bits + rate_bits - arity_bits` can panic "
                               "(e.g. ConstantArityBits(4,0), degree_bits=1, rate_bits=3, cap_height=0)"],
          role="constant-arity-schedule"),
        H("fri_params::fri_params_derived_lengths",
          [M + "FriConfig::fri_params", M + "FriParams::total_arities", M + "FriParams::lde_bits", M + "FriParams::lde_size",
           M + "FriParams::final_poly_bits", M + "FriParams::final_poly_len", M + "FriConfig::num_cap_elements"],
          "ConstantArityBits(a, f) as above, hiding in {0,1}; unwind 13",
          "fri_params(d, hiding): total_arities = sum <= d, lde_bits = d + rate_bits, lde_size = 2^lde_bits, "
          "final_poly_bits = d - sum (no underflow), final_poly_len = 2^final_poly_bits",
          est=20, assumptions=["kani::assume(arity_bits <= final_poly_bits + 1)"], role="derived-lengths"),
        H("fri_params::fri_params_getters_fixed",
          [M + "FriParams::total_arities", M + "FriParams::lde_bits", M + "FriParams::lde_size",
           M + "FriParams::final_poly_bits", M + "FriParams::final_poly_len"],
          "reduction_arity_bits of length 3, entries 0..=8, sum <= degree_bits <= 24, rate_bits <= 8; unwind 5",
          "getters agree with their definitions", est=5,
          assumptions=["kani::assume(sum of arities <= degree_bits) (what reduction_arity_bits guarantees)"], role="derived-lengths"),
    ]
    for d, r, opt, unwind, est in [(0, 3, None, 4, 7), (1, 3, None, 5, 20), (2, 1, None, 6, 60), (3, 3, None, 7, 60),
                                   (4, 3, None, 8, 300), (3, 0, 1, 7, 60), (4, 3, 2, 8, 200)]:
        nm = "d%d_r%d_%s" % (d, r, "none" if opt is None else "max%d" % opt)
        hs.append(H("fri_params::arity_min_size_%s" % nm,
                    [R + "FriReductionStrategy::reduction_arity_bits", R + "min_size_arity_bits",
                     R + "min_size_arity_bits_helper", R + "relative_proof_size"],
                    "MinSize(%s), degree_bits = %d, rate_bits = %d (concrete: they fix the recursion shape), num_queries <= 128, "
                    "any cap_height; unwind %d (recursion depth <= degree_bits + 1)"
                    % ("None" if opt is None else "Some(%d)" % opt, d, r, unwind),
                    "no panic; entries in 1..=max; non-increasing; sum <= degree_bits",
                    tier="quick" if est <= 20 else "thorough", est=est, role="min-size-schedule"))
    return hs


def _codec():
    S = "plonky2/src/util/serialization/mod.rs::"
    bh = [STUB_BRANCH_HINT]

    def rt(name, what, fns, bounds, est=5, assumptions=(), role=None):
        return H("codec::" + name, [S + f for f in fns] + [S + "<Vec<u8> as Write>::write_all", S + "<Buffer as Read>::read_exact"],
                 bounds, "read_X(write_X(v)) == v and the reader consumes exactly the written bytes: " + what,
                 tier="quick" if est <= 45 else "thorough", est=est, assumptions=assumptions,
                 role=role or "roundtrip-mismatch")
    hs = [
        rt("rt_bool_u8_u16_u32", "bool, u8, u16, u32 written back to back",
           ["Write::write_bool", "Read::read_bool", "Write::write_u8", "Read::read_u8", "Write::write_u16", "Read::read_u16",
            "Write::write_u32", "Read::read_u32"], "all values; unwind 10"),
        rt("rt_usize", "usize", ["Write::write_usize", "Read::read_usize"], "all 2^64 values; unwind 10"),
    ]
    for n in (0, 1, 2):
        hs.append(rt("rt_usize_vec_len%d" % n, "Vec<usize>", ["Write::write_usize_vec", "Read::read_usize_vec"],
                     "len = %d, all contents; unwind 6" % n))
    hs += [
        rt("rt_field", "GoldilocksField (any representation in, canonical out)", ["Write::write_field", "Read::read_field"],
           "all 2^64 representations; unwind 10", assumptions=bh),
        rt("rt_field_ext2", "QuadraticExtension<GoldilocksField>", ["Write::write_field_ext", "Read::read_field_ext"],
           "all 2^128 limb pairs; unwind 10", assumptions=bh),
        rt("rt_target_wire", "Target::Wire", ["Write::write_target", "Read::read_target"], "all row/column; unwind 10"),
        rt("rt_target_virtual", "Target::VirtualTarget", ["Write::write_target", "Read::read_target"], "all indices; unwind 10"),
        rt("rt_target_bool_and_ext", "BoolTarget, ExtensionTarget<2>",
           ["Write::write_target_bool", "Read::read_target_bool", "Write::write_target_ext", "Read::read_target_ext"],
           "all variants/indices; unwind 10", est=8),
        rt("rt_hash", "HashOut<GoldilocksField> (PoseidonHash)",
           ["Write::write_hash", "Read::read_hash", "plonky2/src/hash/hash_types.rs::HashOut::to_bytes",
            "plonky2/src/hash/hash_types.rs::HashOut::from_bytes"][0:2], "all 4 limbs, any representation; unwind 36",
           est=70, assumptions=bh),
        rt("rt_merkle_cap_h0", "MerkleCap, cap_height 0", ["Write::write_merkle_cap", "Read::read_merkle_cap"],
           "1 hash, all contents; unwind 36", est=80, assumptions=bh),
        rt("rt_fri_reduction_strategy_constant", "FriReductionStrategy::ConstantArityBits",
           ["Write::write_fri_reduction_strategy", "Read::read_fri_reduction_strategy"], "all parameters; unwind 10"),
        rt("rt_fri_reduction_strategy_minsize_none", "FriReductionStrategy::MinSize(None)",
           ["Write::write_fri_reduction_strategy", "Read::read_fri_reduction_strategy"], "-; unwind 10"),
        rt("rt_fri_reduction_strategy_minsize_some", "FriReductionStrategy::MinSize(Some(m))",
           ["Write::write_fri_reduction_strategy", "Read::read_fri_reduction_strategy"], "all m; unwind 10"),
        rt("rt_fri_reduction_strategy_fixed2", "FriReductionStrategy::Fixed",
           ["Write::write_fri_reduction_strategy", "Read::read_fri_reduction_strategy"], "len = 2, all contents; unwind 6", est=10),
        rt("rt_fri_config", "FriConfig", ["Write::write_fri_config", "Read::read_fri_config"],
           "all field values, strategy ConstantArityBits(a, f); unwind 10", est=10),
        rt("rt_fri_params", "FriParams", ["Write::write_fri_params", "Read::read_fri_params"],
           "all field values, strategy MinSize(Some(m)), reduction_arity_bits of len 2; unwind 6", est=70),
        rt("rt_circuit_config", "CircuitConfig", ["Write::write_circuit_config", "Read::read_circuit_config"],
           "all field values, strategy ConstantArityBits(a, f); unwind 10", est=40),
    ]
    return hs


def _decoders():
    S = "plonky2/src/util/serialization/mod.rs::"
    rd = S + "<Buffer as Read>::read_exact"
    hs = []
    for n in (0, 1, 3, 4, 7, 9):
        hs.append(H("decoders::dec_scalars_len%d" % n,
                    [S + "Read::read_u8", S + "Read::read_bool", S + "Read::read_u16", S + "Read::read_u32", S + "Read::read_usize", rd],
                    "all byte strings of length %d; unwind 12" % n,
                    "read_{u8,bool,u16,u32,usize}: Ok iff enough bytes (and bool byte in {0,1}), little-endian value, "
                    "pos advances by the size; never panics", est=5, role="scalar-decoder"))
    hs.append(H("decoders::dec_read_field_arbitrary_len8", [S + "Read::read_field", "field/src/goldilocks_field.rs::from_canonical_u64", rd],
                "all 2^64 byte strings of length 8; unwind 12",
                "read_field::<GoldilocksField> never panics and returns a canonical element (limb < p)",
                est=3, role="noncanonical-u64"))
    for n in (0, 7, 8, 12):
        hs.append(H("decoders::dec_read_field_canonical_len%d" % n, [S + "Read::read_field", rd],
                    "all byte strings of length %d whose first limb (if present) is < p; unwind 12" % n,
                    "read_field: Ok(limb) iff >= 8 bytes, pos advances by 8; never panics", est=3,
                    assumptions=["kani::assume(first 8 bytes, little endian, < p)"] if n >= 8 else [], role="field-decoder"))
    hs.append(H("decoders::dec_read_hash_arbitrary_len32",
                [S + "Read::read_hash", "plonky2/src/hash/hash_types.rs::<HashOut as GenericHashOut>::from_bytes", rd],
                "all byte strings of length 32; unwind 36",
                "read_hash::<_, PoseidonHash> never panics and returns canonical limbs", est=10, role="noncanonical-u64"))
    for n in (31, 32):
        hs.append(H("decoders::dec_read_hash_canonical_len%d" % n,
                    [S + "Read::read_hash", "plonky2/src/hash/hash_types.rs::<HashOut as GenericHashOut>::from_bytes", rd],
                    "all byte strings of length %d with all four limbs < p; unwind 36" % n,
                    "read_hash: Ok(limbs) iff >= 32 bytes; never panics", est=10,
                    assumptions=["kani::assume(each limb < p)"] if n >= 32 else [], role="hash-decoder"))
    for n in (0, 1, 8, 9, 16, 17):
        hs.append(H("decoders::dec_read_target_len%d" % n, [S + "Read::read_target", S + "Read::read_bool", S + "Read::read_usize", rd],
                    "all byte strings of length %d; unwind 12" % n,
                    "read_target: Ok iff tag in {0,1} and 9 resp. 17 bytes present; consumes exactly that; never panics",
                    est=4, role="target-decoder"))
    hs.append(H("decoders::dec_read_usize_vec_small_prefix_len16", [S + "Read::read_usize_vec", rd],
                "all byte strings of length 16 with length prefix <= 3; unwind 5",
                "Ok(v) iff prefix <= 1, len(v) = prefix, pos = 8 + 8*prefix", est=5,
                assumptions=["kani::assume(length prefix <= 3)"], role="usize-vec-decoder"))
    return hs


def _hash_noop():
    fn = ["plonky2/src/plonk/config.rs::Hasher::hash_or_noop"]
    hs = []
    for n, widths in ((25, (0, 1, 3, 4, 5)), (32, (3, 4, 5))):
        for w in widths:
            hs.append(H("hash_noop::noop%d_w%d" % (n, w), fn,
                        "toy hasher with HASH_SIZE = %d (hash_no_pad returns a marker); leaf width %d, all canonical limb values; unwind 40" % (n, w),
                        "hash_or_noop: a leaf with 8*width <= HASH_SIZE is used verbatim (LE canonical limbs, zero padded), a wider one is hashed",
                        est=6, assumptions=[STUB_BRANCH_HINT, "toy Hasher impls in the harness: only the default trait method hash_or_noop is real code"],
                        role="noop-threshold-or-copy"))
    return hs


def _codec_gates():
    G = "plonky2/src/gates/"
    GS = "plonky2/src/util/serialization/gate_serialization.rs::"
    S = "plonky2/src/util/serialization/mod.rs::"
    I = "plonky2/src/iop/generator.rs::"
    io = [S + "Write::write_usize", S + "Read::read_usize"]

    def sd(path, ty, trait="Gate"):
        return [path + "<%s as %s>::serialize" % (ty, trait), path + "<%s as %s>::deserialize" % (ty, trait)]

    grp_a = (sd(G + "arithmetic_base.rs::", "ArithmeticGate") + sd(G + "arithmetic_extension.rs::", "ArithmeticExtensionGate<2>")
             + sd(G + "multiplication_extension.rs::", "MulExtensionGate<2>") + sd(G + "constant.rs::", "ConstantGate"))
    grp_b = (sd(G + "base_sum.rs::", "BaseSumGate<2>") + sd(G + "exponentiation.rs::", "ExponentiationGate<F,2>")
             + sd(G + "reducing.rs::", "ReducingGate<2>") + sd(G + "reducing_extension.rs::", "ReducingExtensionGate<2>"))
    grp_0 = (sd(G + "noop.rs::", "NoopGate") + sd(G + "public_input.rs::", "PublicInputGate")
             + sd(G + "poseidon.rs::", "PoseidonGate<F,2>") + sd(G + "poseidon_mds.rs::", "PoseidonMdsGate<F,2>"))
    ra = sd(G + "random_access.rs::", "RandomAccessGate<F,2>")
    ci = sd(G + "coset_interpolation.rs::", "CosetInterpolationGate<F,2>")
    reg = [GS + "<DefaultGateSerializer as GateSerializer>::write_gate", GS + "<DefaultGateSerializer as GateSerializer>::read_gate"]
    rt = "G::deserialize(Gate::serialize(g)) has the same parameter fields as g and the reader consumed exactly the written bytes: "
    tg = ("DefaultGateSerializer.read_gate(write_gate(GateRef(g))) is a gate of the same concrete type (as_any downcast; id() is "
          "format!, stubbed) with the same parameters, 4 tag bytes + payload consumed: ")
    one = "all 2^64 values of each gate's parameter (no constructor bound exists); unwind 10"
    names_a = "ArithmeticGate, ArithmeticExtensionGate<2>, MulExtensionGate<2>, ConstantGate (num_consts observed through Gate::num_constants)"
    names_b = "BaseSumGate<2>, ExponentiationGate<F,2>, ReducingGate<2>, ReducingExtensionGate<2>"
    names_0 = "NoopGate, PublicInputGate, PoseidonGate<F,2>, PoseidonMdsGate<F,2>"
    ra_b = ("all 2^192 triples (bits, num_copies, num_extra_constants); gate built from Default + public fields (the private "
            "constructor has no bound either); unwind 10")
    hs = [
        H("codec_gates::rt_gates_one_param_a", grp_a + io, one, rt + names_a, est=8, role="gate-roundtrip-mismatch"),
        H("codec_gates::rt_gates_one_param_b", grp_b + io, one, rt + names_b, est=8, role="gate-roundtrip-mismatch"),
        H("codec_gates::rt_gate_random_access", ra + io, ra_b, rt + "RandomAccessGate<F,2>, 24 bytes", est=5,
          role="gate-roundtrip-mismatch"),
    ]
    for n in (2, 4):
        hs.append(H("codec_gates::rt_gate_coset_interpolation_w%d" % n, ci + [S + "Write::write_field_vec", S + "Read::read_field_vec"] + io,
                    "all subgroup_bits, degree; %d barycentric weights (what `new(%d)` produces), any representation; gate built "
                    "from Default + public fields; unwind 10" % (n, {2: 1, 4: 2}[n]),
                    rt + "CosetInterpolationGate<F,2> (weights compared elementwise, decoded weights canonical), %d bytes" % (24 + 8 * n),
                    tier="quick" if n == 2 else "thorough", est=20 if n == 2 else 120, assumptions=[STUB_BRANCH_HINT],
                    role="gate-roundtrip-mismatch"))
    hs += [
        H("codec_gates::rt_gates_parameterless", grp_0, "the reader sits on 9 arbitrary foreign bytes; unwind 10",
          "serialize writes nothing, deserialize succeeds and leaves the reader position unchanged: " + names_0, est=5,
          role="gate-roundtrip-mismatch"),
        H("codec_gates::tag_gates_one_param_a", reg + grp_a, one, tg + names_a, est=25, assumptions=[STUB_FMT, STUB_BRANCH_HINT],
          role="gate-tag-dispatch"),
        H("codec_gates::tag_gates_one_param_b", reg + grp_b, one, tg + names_b, est=25, assumptions=[STUB_FMT, STUB_BRANCH_HINT],
          role="gate-tag-dispatch"),
        H("codec_gates::tag_gates_structured", reg + ra + ci, ra_b + "; CosetInterpolationGate with 2 weights", tg +
          "RandomAccessGate<F,2>, CosetInterpolationGate<F,2>", est=30, assumptions=[STUB_FMT, STUB_BRANCH_HINT], role="gate-tag-dispatch"),
        H("codec_gates::tag_gates_parameterless_and_unknown", reg + grp_0, "parameterless gates; all u32 tags >= 16 in front of 32 zero bytes; unwind 10",
          tg + names_0 + "; read_gate rejects every tag outside the registry (16 types; LookupGate / LookupTableGate not exercised)",
          est=25, assumptions=[STUB_FMT, STUB_BRANCH_HINT], role="gate-tag-dispatch"),
        H("codec_gates::rt_gen_constant", sd(I, "ConstantGenerator", "SimpleGenerator"),
          "all row, constant_index, wire_index, all 2^64 representations of constant; unwind 10",
          "deserialize(serialize(g)) == g field by field (all four fields are public), 32 bytes consumed", est=5,
          assumptions=[STUB_BRANCH_HINT], role="generator-roundtrip-mismatch"),
    ]
    enc = ("serialize(deserialize(b)) == b and deserialize consumed all of b, for every valid encoding b of the layout (the fields "
           "are crate-private, so the round trip is observed on the encoding): ")
    enc_b = ("all byte strings of the encoded length with the Target tag bytes fixed per block (wire / virtual) and field limbs < p; "
             "all indices; unwind 12")
    enc_as = [STUB_BRANCH_HINT, "kani::assume(tag byte = 0 resp. 1) for Target cells, kani::assume(limb < p) for field cells "
              "(exactly what the decoder validates)"]
    gd = "plonky2/src/gadgets/"
    hs += [
        H("codec_gates::enc_gens_iop", sd(I, "CopyGenerator", "SimpleGenerator") + sd(I, "RandomValueGenerator", "SimpleGenerator")
          + sd(I, "NonzeroTestGenerator", "SimpleGenerator"), enc_b,
          enc + "CopyGenerator (wire,virtual / virtual,wire), RandomValueGenerator, NonzeroTestGenerator", est=25, assumptions=enc_as,
          role="generator-roundtrip-mismatch"),
        H("codec_gates::enc_gens_gates_a", sd(G + "arithmetic_base.rs::", "ArithmeticBaseGenerator<F,2>", "SimpleGenerator")
          + sd(G + "arithmetic_extension.rs::", "ArithmeticExtensionGenerator<F,2>", "SimpleGenerator")
          + sd(G + "multiplication_extension.rs::", "MulExtensionGenerator<F,2>", "SimpleGenerator")
          + sd(G + "base_sum.rs::", "BaseSplitGenerator<2>", "SimpleGenerator") + sd(G + "poseidon.rs::", "PoseidonGenerator<F,2>", "SimpleGenerator")
          + sd(G + "poseidon_mds.rs::", "PoseidonMdsGenerator<2>", "SimpleGenerator"), enc_b,
          enc + "ArithmeticBaseGenerator, ArithmeticExtensionGenerator, MulExtensionGenerator, BaseSplitGenerator<2>, PoseidonGenerator, "
          "PoseidonMdsGenerator", est=30, assumptions=enc_as, role="generator-roundtrip-mismatch"),
        H("codec_gates::enc_gens_gates_b", sd(G + "exponentiation.rs::", "ExponentiationGenerator<F,2>", "SimpleGenerator")
          + sd(G + "random_access.rs::", "RandomAccessGenerator<F,2>", "SimpleGenerator") + sd(G + "reducing.rs::", "ReducingGenerator<2>", "SimpleGenerator")
          + sd(G + "reducing_extension.rs::", "ReducingGenerator<2>", "SimpleGenerator")
          + sd(G + "exponentiation.rs::", "ExponentiationGate<F,2>") + ra + sd(G + "reducing.rs::", "ReducingGate<2>")
          + sd(G + "reducing_extension.rs::", "ReducingExtensionGate<2>"), enc_b,
          enc + "ExponentiationGenerator, RandomAccessGenerator, reducing::ReducingGenerator, reducing_extension::ReducingGenerator "
          "(each embeds its gate's codec)", est=30, assumptions=enc_as, role="generator-roundtrip-mismatch"),
        H("codec_gates::enc_gens_gadgets", sd(gd + "arithmetic.rs::", "EqualityGenerator", "SimpleGenerator")
          + sd(gd + "range_check.rs::", "LowHighGenerator", "SimpleGenerator")
          + sd(gd + "arithmetic_extension.rs::", "QuotientGeneratorExtension<2>", "SimpleGenerator"), enc_b,
          enc + "EqualityGenerator, LowHighGenerator, QuotientGeneratorExtension<2>", est=40, assumptions=enc_as,
          role="generator-roundtrip-mismatch"),
    ]
    # Only harnesses that were seen to be decided (`holds`) on the development machine are registered; the
    # others exist in codec_gates.rs but never got a CBMC verdict within the time limits there.
    GATES_CONFIRMED = ["rt_gates_one_param_a", "rt_gates_one_param_b", "rt_gate_random_access", "rt_gates_parameterless", "rt_gen_constant", "enc_gens_gates_b", "enc_gens_iop"]
    return [h for h in hs if h["name"].split("::")[1] in GATES_CONFIRMED]


def _codec_proof():
    S = "plonky2/src/util/serialization/mod.rs::"
    PR = "plonky2/src/plonk/proof.rs::"
    st = [STUB_BRANCH_HINT, STUB_FMT, STUB_BACKTRACE]
    tiny = ("hand-built CommonCircuitData<F,2>: num_wires %s, num_routed_wires 1, num_constants 1, num_challenges 1, "
            "quotient_degree_factor 1, num_partial_products %s, no lookups, not hiding, degree_bits 1, rate_bits 0, cap_height 0, "
            "no FRI reduction, 1 query round")
    cfg = {"p": "PoseidonGoldilocksConfig (HashOut, 32 bytes)", "k": "KeccakGoldilocksConfig (BytesHash<25>)"}
    rtx = "read_X(write_X(v)) == v component by component and the reader consumed exactly the written bytes: "
    decx = "read_X on ARBITRARY bytes returns Ok or Err - no panic, overflow or out-of-bounds access; if Ok the position is inside the input: "
    canon = "kani::assume(limb < p) for every field limb of the value (proofs hold canonical elements)"
    os_f = ["Write::write_opening_set", "Read::read_opening_set", "Write::write_field_ext_vec", "Read::read_field_ext_vec"]
    mp_f = ["Write::write_merkle_proof", "Read::read_merkle_proof", "Write::write_hash", "Read::read_hash"]
    qs_f = ["Write::write_fri_query_step", "Read::read_fri_query_step"] + mp_f[:2]
    ip_f = ["Write::write_fri_initial_proof", "Read::read_fri_initial_proof", "Read::read_field_vec"] + mp_f[:2]
    fp_f = ["Write::write_fri_proof", "Read::read_fri_proof", "Read::read_fri_query_rounds"] + ip_f[:2]
    pw_f = ["Write::write_proof_with_public_inputs", "Read::read_proof_with_public_inputs", "Write::write_proof", "Read::read_proof",
            "Read::read_merkle_cap"] + os_f[:2] + fp_f[:2]
    # name -> (functions, bounds, sample, tier, est seconds on an idle machine, role, extra assumptions)
    T = {}

    def rt(name, fns, what, bounds, tier, est):
        T[name] = (fns, bounds, rtx + what, tier, est, "proof-roundtrip-mismatch", [canon])

    def dec(name, fns, what, bounds, tier, est, sample=None, extra=()):
        T[name] = (fns, bounds, sample or (decx + what), tier, est, "decoder-panic", list(extra))

    for nw, npp, tier, est in ((1, 1, "thorough", 150), (3, 0, "thorough", 250), (3, 1, "thorough", 300)):
        rt("rt_opening_set_w%d_pp%d" % (nw, npp), os_f, "OpeningSet<F,2> (%d extension elements)" % (6 + nw + npp),
           tiny % (nw, npp) + "; all canonical contents; unwind 5", tier, est)
    for c, s_, tier, est in (("p", 0, "quick", 10), ("p", 1, "quick", 90), ("k", 0, "quick", 10), ("k", 1, "quick", 40), ("k", 2, "thorough", 120)):
        rt("rt_merkle_proof_%s_s%d" % (c, s_), mp_f, "MerkleProof with %d siblings, %s" % (s_, cfg[c]),
           "%d siblings, all canonical contents; unwind 36" % s_, tier, est)
    for nm, c, ar, comp, s_, tier, est in (("p_a2_s0", "p", 2, False, 0, "quick", 30), ("p_a2c_s0", "p", 2, True, 0, "quick", 20),
                                          ("k_a2_s1", "k", 2, False, 1, "thorough", 120), ("k_a4c_s1", "k", 4, True, 1, "thorough", 200)):
        rt("rt_fri_query_step_" + nm, qs_f, "FriQueryStep, arity %d, compressed = %s (%d evals), Merkle proof with %d siblings, %s"
           % (ar, comp, ar - int(comp), s_, cfg[c]), "all canonical contents; unwind 36", tier, est)
    for c, s_ in (("p", 0), ("p", 1), ("k", 1)):
        rt("rt_fri_initial_proof_%s_s%d" % (c, s_), ip_f, "FriInitialTreeProof: 4 oracles of widths 2,3,1,1, Merkle proofs with %d siblings, %s"
           % (s_, cfg[c]), tiny % (3, 0) + "; all canonical contents; unwind 36", "thorough", 400)
    for c, s_ in (("p", 0), ("k", 1)):
        rt("rt_fri_proof_%s_s%d" % (c, s_), fp_f, "FriProof: 1 query round, no commit-phase caps / steps, final_poly of 2 coefficients, "
           "pow_witness, %s" % cfg[c], tiny % (3, 0) + "; Merkle proofs with %d siblings; all canonical contents; unwind 36" % s_, "thorough", 600)
    for nm, c, s_, pis in (("k_s1_pi0", "k", 1, 0), ("k_s1_pi2", "k", 1, 2), ("p_s1_pi0", "p", 1, 0)):
        rt("rt_proof_with_pis_" + nm, pw_f, "ProofWithPublicInputs, %d public inputs, %s" % (pis, cfg[c]),
           tiny % (3, 0) + "; Merkle proofs with %d siblings; all canonical contents; unwind 36" % s_, "thorough", 800)
    for n, tier, est in ((0, "quick", 5), (127, "thorough", 100), (128, "thorough", 100)):
        dec("dec_opening_set_len%d" % n, os_f[1:2] + os_f[3:], "read_opening_set (encoded size 128)",
            tiny % (3, 0) + "; all byte strings of length %d; unwind 5" % n, tier, est)
    for c, n, tier, est in (("k", 0, "quick", 5), ("k", 1, "thorough", 60), ("k", 60, "thorough", 200), ("p", 1, "thorough", 60),
                            ("p", 33, "thorough", 200), ("p", 70, "thorough", 400)):
        dec("dec_merkle_proof_%s_len%d" % (c, n), mp_f[1:2] + mp_f[3:], "read_merkle_proof, %s; the sibling count is the first input byte "
            "(0..=255), so the reader loops until the input runs out" % cfg[c], "all byte strings of length %d; unwind 36" % n, tier, est)
    fb = "::from_bytes on all inputs of 0, 1, 7, 8 and 9 bytes returns Err (no Merkle cap can be read) and never panics"
    dec("dec_proof_from_bytes_short_p", [PR + "ProofWithPublicInputs::from_bytes", S + "Read::read_proof_with_public_inputs", S + "Read::read_merkle_cap"],
        None, tiny % (3, 0) + "; " + cfg["p"] + "; unwind 36", "quick", 30, sample="ProofWithPublicInputs" + fb)
    dec("dec_proof_from_bytes_short_k", [PR + "ProofWithPublicInputs::from_bytes", S + "Read::read_proof_with_public_inputs", S + "Read::read_merkle_cap"],
        None, tiny % (3, 0) + "; " + cfg["k"] + "; unwind 36", "quick", 20, sample="ProofWithPublicInputs" + fb)
    dec("dec_compressed_proof_from_bytes_short_p", [PR + "CompressedProofWithPublicInputs::from_bytes",
                                                    S + "Read::read_compressed_proof_with_public_inputs", S + "Read::read_merkle_cap"],
        None, tiny % (3, 0) + "; " + cfg["p"] + "; unwind 36", "quick", 20, sample="CompressedProofWithPublicInputs" + fb)
    # Only harnesses that were seen to finish within the tier's limit are registered (the others exist in
    # codec_proof.rs but were never decided by CBMC within 900 s on the development machine).
    CONFIRMED = ["dec_opening_set_len0", "dec_merkle_proof_k_len0", "dec_proof_from_bytes_short_p", "dec_merkle_proof_k_len1",
                 "dec_merkle_proof_p_len1", "dec_opening_set_len128"]
    hs = []
    for name in CONFIRMED:
        fns, bounds, sample, tier, est, role, extra = T[name]
        hs.append(H("codec_proof::" + name, [(f if f.startswith("plonky2/") else S + f) for f in fns], bounds, sample,
                    tier=tier, est=est, assumptions=st + extra, role=role))
    return hs


HARNESSES = {
    "codec_proof": ("C17", _codec_proof),
    "codec_gates": ("C17", _codec_gates),
    "hash_noop": ("C12", _hash_noop),
    "util_perm": ("C15", _util_perm),
    "field_addsub": ("C14", _field_addsub),
    "fri_params": ("C05", _fri_params),
    "codec": ("C17", _codec),
    "decoders": ("C18", _decoders),
}

TRUSTED = ["Kani 0.68 MIR->goto translation, CBMC 6.11 + CaDiCaL", "rustc front end of Kani's pinned toolchain"]


# ---------------------------------------------------------------------------------------------
# crate preparation, slots

_prep_lock = threading.Lock()


def _write_if_changed(path, text):
    try:
        with open(path) as f:
            if f.read() == text:
                return
    except OSError:
        pass
    tmp = path + ".tmp%d" % os.getpid()
    with open(tmp, "w") as f:
        f.write(text)
    os.replace(tmp, path)


def prepare_crate():
    """Generate the build twin of /verif/kani: Cargo.toml from the template with path deps into
    common.REPO, Cargo.lock copied from common.REPO (offline build with the repo's versions),
    .cargo/config.toml, src -> /verif/kani/src."""
    with _prep_lock:
        os.makedirs(os.path.join(CRATE, ".cargo"), exist_ok=True)
        os.makedirs(LOGS, exist_ok=True)
        with open(os.path.join(CRATE_SRC, "Cargo.toml.in")) as f:
            _write_if_changed(os.path.join(CRATE, "Cargo.toml"), f.read().replace("@REPO@", common.REPO))
        with open(os.path.join(common.REPO, "Cargo.lock")) as f:
            _write_if_changed(os.path.join(CRATE, "Cargo.lock"), f.read())
        with open(os.path.join(CRATE_SRC, ".cargo", "config.toml")) as f:
            _write_if_changed(os.path.join(CRATE, ".cargo", "config.toml"), f.read())
        link = os.path.join(CRATE, "src")
        if not os.path.islink(link):
            os.symlink(os.path.join(CRATE_SRC, "src"), link)


class Slot:
    """Exclusive use of one /verif/.cache/kani-target-<i> (flock; works across threads and processes)."""

    def __enter__(self):
        os.makedirs(common.CACHE, exist_ok=True)
        while True:
            for i in range(K_POOL):
                fd = os.open(os.path.join(common.CACHE, "kani-target-%d.lock" % i), os.O_CREAT | os.O_RDWR, 0o644)
                try:
                    fcntl.flock(fd, fcntl.LOCK_EX | fcntl.LOCK_NB)
                except OSError:
                    os.close(fd)
                    continue
                self.fd, self.index = fd, i
                self.target = os.path.join(common.CACHE, "kani-target-%d" % i)
                return self
            time.sleep(1.0)

    def __exit__(self, *a):
        fcntl.flock(self.fd, fcntl.LOCK_UN)
        os.close(self.fd)


# ---------------------------------------------------------------------------------------------
# running cargo kani

def _kani_cmd(names, target, harness_timeout, extra=()):
    # `--concrete-playback=print` costs nothing on successful harnesses and spares a second CBMC run
    # on failing ones: Kani prints a unit test with the counterexample values after the section.
    cmd = ["cargo", "kani", "--target-dir", target, "-Z", "stubbing", "-Z", "unstable-options",
           "--harness-timeout", "%ds" % harness_timeout, "--exact",
           "-Z", "concrete-playback", "--concrete-playback=print"]
    for n in names:
        cmd += ["--harness", n]
    return cmd + list(extra)


_live = set()          # process groups of running cargo-kani invocations (killed if we die)
_live_lock = threading.Lock()


def _kill_live(*_a):
    with _live_lock:
        for pg in list(_live):
            try:
                os.killpg(pg, signal.SIGKILL)
            except OSError:
                pass
    if _a:      # called as a signal handler
        os._exit(130)


atexit.register(_kill_live)


def _run_limited(cmd, cwd, wall_timeout, log_path, env=None):
    """Run under `ulimit -v` (address space, inherited by every child incl. each cbmc) and `timeout`,
    in its own process group (so that nothing - cargo, kani-driver, cbmc - survives this engine).
    Output -> log_path.  Returns (rc, seconds)."""
    sh = "ulimit -v %d; exec timeout -k 10 %d \"$@\"" % (MEM_KB, int(wall_timeout))
    t0 = time.time()
    with open(log_path, "w") as lf:
        p = subprocess.Popen(["bash", "-c", sh, "k"] + cmd, cwd=cwd, stdout=lf, stderr=subprocess.STDOUT,
                             env=common.env_offline(env), start_new_session=True)
        with _live_lock:
            _live.add(p.pid)
        try:
            rc = p.wait()
        finally:
            try:
                os.killpg(p.pid, signal.SIGKILL)   # stragglers of a timed-out / interrupted run
            except OSError:
                pass
            with _live_lock:
                _live.discard(p.pid)
    return rc, time.time() - t0


PRIMARY = os.path.join(common.CACHE, "kani-target-primary-" + _REPO_TAG)


class _Flock:
    def __init__(self, path, shared=False):
        self.path, self.mode = path, (fcntl.LOCK_SH if shared else fcntl.LOCK_EX)

    def __enter__(self):
        self.fd = os.open(self.path, os.O_CREAT | os.O_RDWR, 0o644)
        fcntl.flock(self.fd, self.mode)
        return self

    def __exit__(self, *a):
        fcntl.flock(self.fd, fcntl.LOCK_UN)
        os.close(self.fd)


def build_primary(any_harness, tag):
    """Bring the *primary* target dir up to date with the sources (common.REPO + /verif/kani): one
    `cargo kani --only-codegen` restricted to a single harness, so that only the dependency crates and
    the harness crate's metadata are (re)built - ~20 s cold, ~1 s warm.  Batches then run on private
    clones of this directory (see run_batch): six concurrent cold builds were measured at 140 s wall
    against 19 s for one, and cargo accepts a `cp -a` clone as fresh.
    Returns (ok, log_path)."""
    log_path = os.path.join(LOGS, "%s.build.log" % tag)
    with _Flock(PRIMARY + ".lock"):
        cmd = ["cargo", "kani", "--target-dir", PRIMARY, "-Z", "stubbing", "--only-codegen", "--exact",
               "--harness", any_harness]
        rc, secs = _run_limited(cmd, CRATE, BUILD_ALLOWANCE_S, log_path)
    common.log("K build (%s): rc=%s %.1fs" % (tag, rc, secs))
    return rc == 0, log_path


def run_batch(names, tier, tag, extra=()):
    """One cargo-kani invocation for `names` on a private clone of the primary target dir.
    Returns (log_text, rc, wall_s, log_path)."""
    ht = HARNESS_TIMEOUT[tier]
    with Slot() as slot:
        with _Flock(PRIMARY + ".lock", shared=True):
            shutil.rmtree(slot.target, ignore_errors=True)
            subprocess.run(["cp", "-a", "--reflink=auto", PRIMARY, slot.target], check=False)
        log_path = os.path.join(LOGS, "%s.slot%d.log" % (tag, slot.index))
        wall = BUILD_ALLOWANCE_S + min(BATCH_BUDGET[tier] + ht, ht * len(names)) + 30
        rc, secs = _run_limited(_kani_cmd(names, slot.target, ht, extra), CRATE, wall, log_path)
    with open(log_path, errors="replace") as f:
        return f.read(), rc, secs, log_path


# ---------------------------------------------------------------------------------------------
# log parsing

_RE_CHECK = re.compile(r"^Check (\d+): (.+?)[ \t]*\n\s*- Status: (\w+)\s*\n\s*- Description: \"(.*)\"\s*\n(?:\s*- Location: (.*)\n)?",
                       re.M)


_RE_TEST = re.compile(r"^```\s*\n([\s\S]*?#\[test\][\s\S]*?)^```", re.M)


def parse_log(text):
    """Split a cargo-kani log into per-harness sections.
    -> {harness: dict(status, seconds, failed=[(check, desc, loc)], covers=[(desc, status)], raw)}
    status: 'SUCCESSFUL' | 'FAILED' | 'ERROR' | 'TIMEOUT' | 'UNKNOWN'."""
    out = {}
    parts = re.split(r"^Checking harness (\S+?)\.\.\.\s*$", text, flags=re.M)
    # parts = [preamble, name1, body1, name2, body2, ...]
    for i in range(1, len(parts) - 1, 2):
        name, body = parts[i], parts[i + 1]
        body = body.split("Manual Harness Summary:")[0]
        status = "UNKNOWN"
        m = re.search(r"^VERIFICATION:- (\w+)(.*)$", body, re.M)
        if m:
            status = m.group(1)
        if re.search(r"Status: ERROR|CBMC failed|out of memory|std::bad_alloc|Killed|SIGKILL|SIGSEGV|signal", body) and status != "SUCCESSFUL":
            status = "ERROR" if status in ("UNKNOWN", "FAILED") and not re.search(r"- Status: FAILURE", body) else status
        if "CBMC timed out" in body:
            status = "TIMEOUT"
        tm = re.search(r"^Verification Time: ([0-9.]+)s", body, re.M)
        failed, covers, undetermined = [], [], 0
        for cm in _RE_CHECK.finditer(body):
            _, check, st, desc, loc = cm.groups()
            if ".cover." in check or desc.startswith("cover condition"):
                covers.append((desc, st))
            elif st == "FAILURE":
                failed.append((check, desc, (loc or "").strip()))
            elif st == "UNDETERMINED":
                undetermined += 1
        out[name] = dict(status=status, seconds=float(tm.group(1)) if tm else None, failed=failed,
                         covers=covers, undetermined=undetermined, raw=body, tests=_RE_TEST.findall(body),
                         panics_expected="encountered one or more panics as expected" in body)
    return out


def is_unwind_or_unsupported(check, desc):
    return (".unwind." in check or "unwinding assertion" in desc or "unsupported_construct" in check
            or "is not currently supported by Kani" in desc or "recursion" in check and "unwinding" in desc)


def short_fn(h):
    f = h["functions"][0]
    return f.split("::")[-1]


# ---------------------------------------------------------------------------------------------
# concrete playback



def playback(h, fam, prop, res, want_desc, log_path):
    """Store the unit test Kani generated for the failing check under /verif/replays/<obligation id>.rs,
    write <obligation id>.sh that runs it natively against the real code (no stubs), and run it.
    Returns (reproduced: True|False|None, sh_path or None, detail)."""
    os.makedirs(REPLAYS, exist_ok=True)
    mod, fn = h["name"].rsplit("::", 1)
    base = "%s.K.%s.%s" % (prop, fam, fn)
    tests = res["tests"]
    rs_path = os.path.join(REPLAYS, base + ".rs")
    if not tests:
        # keep at least a pointer to the CBMC result as an artefact; no native confirmation possible
        with open(rs_path, "w") as f:
            f.write("// no concrete playback test was generated by Kani for %s\n// log: %s\n" % (h["name"], log_path))
        return None, None, "Kani produced no concrete playback test"
    # one test per failed check / satisfied cover: take the one for the check we report
    tests = [t for t in tests if want_desc and want_desc in t] or tests
    test_src = tests[0].rstrip() + "\n"
    tm = re.search(r"fn (kani_concrete_playback_\w+)", test_src)
    test_name = tm.group(1) if tm else "kani_concrete_playback"
    with open(rs_path, "w") as f:
        f.write("// Concrete counterexample generated by Kani for harness `%s` (property %s, family %s).\n"
                "// To be appended to /verif/kani/src/%s.rs (same module as the harness); run with %s\n"
                % (h["name"], prop, fam, mod.replace("::", "/"), base + ".sh"))
        f.write(test_src)
    sh_path = os.path.join(REPLAYS, base + ".sh")
    with open(sh_path, "w") as f:
        f.write(REPLAY_SH.format(harness=h["name"], rs=rs_path, module_file="src/%s.rs" % mod.replace("::", "/"),
                                 test=test_name, crate=CRATE_SRC, cache=common.CACHE,
                                 fail_rc=0 if h["should_panic"] else 1, pass_rc=1 if h["should_panic"] else 0,
                                 sense=("INVERTED (should_panic harness): the counterexample is an input on which the call "
                                        "returns, so the playback test PASSING is the reproduction") if h["should_panic"]
                                 else "the playback test FAILING is the reproduction"))
    os.chmod(sh_path, 0o755)
    # one native playback at a time (machine-wide): they share one cargo target dir, and two concurrent
    # `cargo kani playback` runs were seen to disturb each other ("test exited abnormally")
    with _Flock(os.path.join(common.CACHE, "kani-playback.lock")):
        p = subprocess.run(["/bin/sh", sh_path], stdout=subprocess.PIPE, stderr=subprocess.STDOUT,
                           env=common.env_offline({"VERIF_REPO": common.REPO}))
    out = p.stdout.decode(errors="replace")
    tail = out[-1500:]
    if p.returncode == 1:
        pm = re.search(r"panicked at ([^\n]*\n[^\n]*)", out)
        return True, sh_path, "reproduced natively: " + (pm.group(1).replace("\n", " ") if pm else "playback test outcome as predicted")
    if p.returncode == 0:
        return False, sh_path, "native playback of the counterexample does not reproduce the failure"
    return None, sh_path, "native playback could not be run (rc=%d): %s" % (p.returncode, tail[-300:])


REPLAY_SH = r"""#!/bin/sh
# Replay of the Kani counterexample for harness {harness}.
# Copies the harness crate to a scratch dir, appends the generated unit test to the harness' module
# and runs it natively (real code, no stubs, dev profile) with `cargo kani playback`.
#   {sense}
#   exit 1  violation reproduced against the real code
#   exit 0  not reproduced
#   exit 2  could not build / run
REPO="${{VERIF_REPO:-/repo}}"
S=$(mktemp -d /var/tmp/plonky2-verif-kreplay-XXXXXX) || exit 2
trap 'rm -rf "$S"' EXIT INT TERM
mkdir -p "$S/src" "$S/.cargo"
cp {crate}/src/*.rs "$S/src/" && cp {crate}/.cargo/config.toml "$S/.cargo/" || exit 2
sed "s#@REPO@#$REPO#g" {crate}/Cargo.toml.in > "$S/Cargo.toml"
cp "$REPO/Cargo.lock" "$S/Cargo.lock"
cat {rs} >> "$S/{module_file}"
cd "$S" || exit 2
CARGO_NET_OFFLINE=true CARGO_TARGET_DIR={cache}/kani-playback-target \
  cargo kani playback -Z concrete-playback -- {test} > "$S/out.log" 2>&1
grep -v '^warning\|^ *|\|^ *= note\|^ *-->\|^$' "$S/out.log" | tail -n 40
if grep -q 'test result: FAILED' "$S/out.log"; then echo "playback test fails natively -> exit {fail_rc}"; exit {fail_rc}; fi
if grep -q 'test result: ok. 1 passed' "$S/out.log"; then echo "playback test passes natively -> exit {pass_rc}"; exit {pass_rc}; fi
echo "playback did not run"; exit 2
"""


# ---------------------------------------------------------------------------------------------
# verdicts

MAX_PLAYBACKS_PER_KEY = 3   # native replays per finding key and run (each costs a native build + test)
_pb_lock = threading.Lock()
_pb_count = {}


def judge(h, res, fam, prop, log_path):
    """Turn the parsed section of one harness into an obligation record."""
    oid = "%s.K.%s.%s" % (prop, fam, h["name"].split("::", 1)[1])
    kw = dict(solver=SOLVER, assumptions=h["assumptions"], sample=h["sample"])
    if res is None:
        return common.ob(oid, prop, "K", h["functions"], h["bounds"], "inconclusive", nontrivial=False,
                         detail="no result section in the Kani log (build failure, batch timeout or crash); log %s" % log_path, **kw)
    secs = res["seconds"] or 0.0
    real_fail = [c for c in res["failed"] if not is_unwind_or_unsupported(c[0], c[1])]
    soft_fail = [c for c in res["failed"] if is_unwind_or_unsupported(c[0], c[1])]
    cov_ok = [c for c in res["covers"] if c[1] == "SATISFIED"]
    cov_unsat = [c for c in res["covers"] if c[1] in ("UNSATISFIABLE", "UNREACHABLE")]

    if h["should_panic"]:
        # "f(x) panics for every admitted x": Kani's should_panic run is SUCCESSFUL iff a panic is reachable
        # and nothing but panics fails; the cover placed after the call must be unreachable.  A SATISFIED
        # cover is the counterexample (f returned).
        if (res["status"] == "SUCCESSFUL" and res["panics_expected"] and not soft_fail and res["covers"]
                and len(cov_unsat) == len(res["covers"])):
            return common.ob(oid, prop, "K", h["functions"], h["bounds"], "holds", secs, **kw)
        real_fail = [("cover", "cover satisfied, i.e. the call returned: " + cov_ok[0][0], "")] if cov_ok else []
    elif res["status"] == "SUCCESSFUL" and not res["failed"] and not res["undetermined"]:
        if cov_ok and len(cov_ok) == len(res["covers"]):
            return common.ob(oid, prop, "K", h["functions"], h["bounds"], "holds", secs, **kw)
        return common.ob(oid, prop, "K", h["functions"], h["bounds"], "inconclusive", secs, nontrivial=False,
                         detail="vacuous: cover witness not satisfied %r" % (res["covers"],), **kw)

    if real_fail and not soft_fail:
        check, desc, loc = real_fail[0]
        what = "%s [%s] at %s" % (desc, check, loc)
        key = "%s:%s" % (short_fn(h), h["role"])
        with _pb_lock:
            n_done = _pb_count.get((fam, key), 0)
            _pb_count[(fam, key)] = n_done + 1
        if n_done >= MAX_PLAYBACKS_PER_KEY:
            return common.ob(oid, prop, "K", h["functions"], h["bounds"], "inconclusive", secs,
                             detail="Kani: FAILED check: %s; native playback skipped (%d counterexamples with finding key "
                                    "%s already replayed in this run); log %s" % (what, n_done, key, log_path), **kw)
        rep, sh, pdetail = playback(h, fam, prop, res, desc if check != "cover" else "cover", log_path)
        if rep:
            return common.ob(oid, prop, "K", h["functions"], h["bounds"], "violated", secs,
                             detail="Kani: FAILED check: %s; %s (+%d more failed checks)" % (what, pdetail, len(real_fail) - 1),
                             replay=sh, finding_key=key, **kw)
        return common.ob(oid, prop, "K", h["functions"], h["bounds"], "inconclusive", secs,
                         detail="Kani: FAILED check: %s; but %s; log %s" % (what, pdetail, log_path), replay=sh, **kw)
    why = []
    if soft_fail:
        why.append("unwinding/unsupported-construct check failed: %s [%s]" % (soft_fail[0][1], soft_fail[0][0]))
    if res["status"] in ("ERROR", "TIMEOUT", "UNKNOWN"):
        why.append("CBMC status %s (out of memory / crash / timeout)" % res["status"])
    if not why:
        why.append("status %s, %d failed, %d undetermined checks, covers %r" % (
            res["status"], len(res["failed"]), res["undetermined"], res["covers"]))
    return common.ob(oid, prop, "K", h["functions"], h["bounds"], "inconclusive", secs, nontrivial=False,
                     detail="; ".join(why) + "; log " + log_path, **kw)


# ---------------------------------------------------------------------------------------------
# entry point

def split_batches(hs, nslots, budget):
    """Longest-processing-time-first assignment of harnesses to at most nslots batches."""
    nslots = max(1, min(nslots, len(hs)))
    bins = [[0.0, []] for _ in range(nslots)]
    for h in sorted(hs, key=lambda h: -h["est"]):
        b = min(bins, key=lambda b: b[0])
        b[0] += h["est"] + 0.5
        b[1].append(h)
    return [b[1] for b in bins if b[1]]


def run(family, tier="quick", seed=0, prop=None, only=None, id_regex=None):
    if family not in HARNESSES:
        return [common.ob("%s.K.%s.unknown-family" % (prop, family), prop or "-", "K", [], "-", "inconclusive",
                          detail="engine K has no family %r" % family, nontrivial=False)]
    dprop, mk = HARNESSES[family]
    prop = prop or dprop
    hs = [h for h in mk() if tier == "thorough" or h["tier"] == "quick"]
    if only:
        hs = [h for h in hs if only in h["name"]]
    if id_regex:
        hs = [h for h in hs if re.search(id_regex, "%s.K.%s.%s" % (prop, family, h["name"].split("::", 1)[1]))]
    if not hs:
        return []
    prepare_crate()
    tag0 = "%s.%s.%d" % (prop, family, os.getpid())
    ok, blog = build_primary(hs[0]["name"], tag0)
    if not ok:
        with open(blog, errors="replace") as f:
            err = [l for l in f.read().splitlines() if l.startswith("error")][:3]
        return [common.ob("%s.K.%s.%s" % (prop, family, h["name"].split("::", 1)[1]), prop, "K", h["functions"],
                          h["bounds"], "inconclusive", solver=SOLVER, nontrivial=False, sample=h["sample"],
                          detail="harness crate does not build against %s: %s; log %s" % (common.REPO, " | ".join(err), blog))
                for h in hs]
    batches = split_batches(hs, K_SLOTS, BATCH_BUDGET[tier])
    parsed, logs = {}, {}
    lock = threading.Lock()

    def work(i, batch):
        names = [h["name"] for h in batch]
        text, rc, secs, log_path = run_batch(names, tier, "%s.%s.%d.b%d" % (prop, family, os.getpid(), i))
        common.log("K %s batch %d: %d harnesses, rc=%s, %.1fs wall, log %s" % (family, i, len(names), rc, secs, log_path))
        sections = parse_log(text)
        with lock:
            for n in names:
                logs[n] = log_path
                if n in sections:
                    parsed[n] = sections[n]

    threads = [threading.Thread(target=work, args=(i, b)) for i, b in enumerate(batches)]
    for t in threads:
        t.start()
    for t in threads:
        t.join()
    # harnesses that timed out or left no section (heavily loaded machine): one retry with the
    # thorough-tier time limits before they are reported as inconclusive
    retry = [h for h in hs if parsed.get(h["name"]) is None or parsed[h["name"]]["status"] in ("TIMEOUT", "UNKNOWN")]
    if retry and tier == "quick":
        common.log("K %s: retrying %d harnesses with longer limits" % (family, len(retry)))
        for n in [h["name"] for h in retry]:
            parsed.pop(n, None)
        rb = split_batches(retry, K_SLOTS, BATCH_BUDGET["thorough"])

        def rework(i, batch):
            names = [h["name"] for h in batch]
            text, rc, secs, log_path = run_batch(names, "thorough", "%s.%s.%d.r%d" % (prop, family, os.getpid(), i))
            sections = parse_log(text)
            with lock:
                for n in names:
                    logs[n] = log_path
                    if n in sections:
                        parsed[n] = sections[n]

        threads = [threading.Thread(target=rework, args=(i, b)) for i, b in enumerate(rb)]
        for t in threads:
            t.start()
        for t in threads:
            t.join()
    # verdicts; native playbacks of failing harnesses run concurrently (they share one cargo target dir,
    # so the builds serialise on cargo's lock, the rest overlaps)
    with _pb_lock:
        for k in [k for k in _pb_count if k[0] == family]:
            del _pb_count[k]
    from concurrent.futures import ThreadPoolExecutor
    with ThreadPoolExecutor(max_workers=4) as ex:
        return list(ex.map(lambda h: judge(h, parsed.get(h["name"]), family, prop, logs.get(h["name"], "-")), hs))


def main(argv):
    import argparse
    ap = argparse.ArgumentParser(description=__doc__.split("\n")[0])
    ap.add_argument("family", choices=sorted(HARNESSES) + ["all"])
    ap.add_argument("tier", nargs="?", default="quick", choices=["quick", "thorough"])
    ap.add_argument("--prop", default=None)
    ap.add_argument("--only", default=None, help="only harnesses whose name contains this")
    a = ap.parse_args(argv)
    signal.signal(signal.SIGTERM, _kill_live)
    signal.signal(signal.SIGINT, _kill_live)
    t0 = time.time()
    fams = sorted(HARNESSES) if a.family == "all" else [a.family]
    recs = []
    for fam in fams:
        recs += run(fam, a.tier, int(os.environ.get("VERIF_SEED", "0") or 0), a.prop, a.only)
    for r in recs:
        print(json.dumps(r, sort_keys=True))
    cnt = {v: sum(1 for r in recs if r["verdict"] == v) for v in ("holds", "violated", "inconclusive")}
    print("K %s tier=%s: %d obligations, %d hold, %d violated, %d inconclusive, cbmc %.1fs, wall %.1fs" % (
        ",".join(fams), a.tier, len(recs), cnt["holds"], cnt["violated"], cnt["inconclusive"],
        sum(r["seconds"] for r in recs), time.time() - t0), file=sys.stderr)
    for r in recs:
        if r["verdict"] != "holds":
            print("  %-12s %s: %s" % (r["verdict"], r["id"], r["detail"][:300]), file=sys.stderr)
    return 0 if recs and cnt["holds"] == len(recs) else 1


if __name__ == "__main__":
    sys.exit(main(sys.argv[1:]))
