#!/usr/bin/env python3
"""Build the harness crates once (offline) so that the checks only pay for incremental rebuilds."""
import os, sys
sys.path.insert(0, os.path.dirname(os.path.abspath(__file__)))
from engines import s
s.build()
try:
    from engines import m
    if hasattr(m, "setup"):
        m.setup()
except Exception as e:
    print("engine M setup skipped:", e)
print("setup ok")
