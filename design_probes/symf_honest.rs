use plonky2::gates::arithmetic_base::ArithmeticGate;
use plonky2::gates::arithmetic_extension::ArithmeticExtensionGate;
use plonky2::gates::poseidon::PoseidonGate;
use plonky2::gates::coset_interpolation::CosetInterpolationGate;
use plonky2::gates::random_access::RandomAccessGate;
use plonky2::gates::exponentiation::ExponentiationGate;
use plonky2::gates::reducing::ReducingGate;
use plonky2::gates::gate::Gate;
use plonky2::hash::hash_types::HashOut;
use plonky2::iop::generator::GeneratedValues;
use plonky2::iop::target::Target;
use plonky2::iop::witness::{PartitionWitness, Witness, WitnessWrite};
use plonky2::plonk::vars::EvaluationVars;
use plonky2_field::extension::quadratic::QuadraticExtension;
use plonky2_field::types::Field;
use symf::*;
use std::collections::HashMap;

type FE = QuadraticExtension<SymF>;

fn run<Gt: Gate<SymF, 2>>(name: &str, gate: Gt) {
    let nw = gate.num_wires();
    let nc = gate.num_constants();
    let consts: Vec<SymF> = (0..nc).map(|i| SymF::var(&format!("c{}", i))).collect();
    let rep: Vec<usize> = (0..nw).collect();
    let mut pw = PartitionWitness::<SymF>::new(nw, 1, &rep);
    let gens = gate.generators(0, &consts);
    // set every watched-but-unset target to a fresh variable, run generators to a fixpoint
    let mut done = vec![false; gens.len()];
    let mut written: Vec<Target> = vec![];
    loop {
        let mut progress = false;
        for (gi, g) in gens.iter().enumerate() {
            if done[gi] { continue; }
            let mut buf = GeneratedValues::empty();
            if g.0.run(&pw, &mut buf) {
                done[gi] = true; progress = true;
                for (t, v) in buf.target_values { pw.set_target(t, v).unwrap(); written.push(t); }
            }
        }
        if done.iter().all(|d| *d) { break; }
        if !progress {
            // seed inputs: first unset watched target of first pending generator
            let mut seeded = false;
            for (gi, g) in gens.iter().enumerate() {
                if done[gi] { continue; }
                for t in g.0.watch_list() {
                    if pw.try_get_target(t).is_none() {
                        if let Target::Wire(w) = t { pw.set_target(t, SymF::var(&format!("w{}", w.column))).unwrap(); seeded = true; }
                    }
                }
                if seeded { break; }
            }
            assert!(seeded, "stuck");
        }
    }
    let wires: Vec<FE> = (0..nw).map(|j| {
        let t = Target::wire(0, j);
        let v = pw.try_get_target(t).unwrap_or_else(|| SymF::var(&format!("free{}", j)));
        QuadraticExtension([v, SymF::ZERO])
    }).collect();
    let cext: Vec<FE> = consts.iter().map(|c| QuadraticExtension([*c, SymF::ZERO])).collect();
    let pih = HashOut::<SymF> { elements: [SymF::var("pi0"), SymF::var("pi1"), SymF::var("pi2"), SymF::var("pi3")] };
    let vars = EvaluationVars { local_constants: &cext, local_wires: &wires, public_inputs_hash: &pih };
    let cs = gate.eval_unfiltered(vars);
    assert_eq!(cs.len(), gate.num_constraints());
    let mut out = String::from("(set-logic ALL)\n");
    let mut dn = HashMap::new();
    let mut goals = vec![];
    for c in &cs { for limb in c.0 { goals.push(smt_of(limb.op(), &mut out, &mut dn)); } }
    out.push_str("(assert (or\n");
    for g in &goals { out.push_str(&format!("  (not (= (mod {} 18446744069414584321) 0))\n", g)); }
    out.push_str("))\n(check-sat)\n");
    std::fs::write(format!("/tmp/probe/{}.smt2", name), &out).unwrap();
    let n = symf::ARENA.lock().unwrap().as_ref().unwrap().nodes.len();
    println!("{}: wires={} constraints={} generated={} arena_nodes={} smt_bytes={}", name, nw, cs.len(), written.len(), n, out.len());
}

fn main() {
    let which = std::env::args().nth(1).unwrap();
    match which.as_str() {
        "arith" => run("arith", ArithmeticGate { num_ops: 20 }),
        "arithext" => run("arithext", ArithmeticExtensionGate::<2> { num_ops: 10 }),
        "poseidon" => run("poseidon", PoseidonGate::<SymF, 2>::new()),
        "coset" => run("coset", CosetInterpolationGate::<SymF, 2>::new(3)),
        "ra" => run("ra", RandomAccessGate::<SymF, 2>::new_from_config(&plonky2::plonk::circuit_data::CircuitConfig::standard_recursion_config(), 3)),
        "exp" => run("exp", ExponentiationGate::<SymF, 2>::new(8)),
        "reducing" => run("reducing", ReducingGate::<2>::new(10)),
        _ => panic!(),
    }
}
