use plonky2::iop::witness::{PartialWitness, WitnessWrite, Witness};
use plonky2::iop::generator::generate_partial_witness;
use plonky2::plonk::circuit_builder::CircuitBuilder;
use plonky2::plonk::circuit_data::CircuitConfig;
use plonky2::plonk::config::GenericConfig;
use plonky2::hash::poseidon::PoseidonHash;
use plonky2_field::extension::quadratic::QuadraticExtension;
use symf::*;
use std::collections::HashMap;

#[derive(Debug, Copy, Clone, Default, Eq, PartialEq)]
pub struct SymConfig;
impl GenericConfig<2> for SymConfig {
    type F = SymF;
    type FE = QuadraticExtension<SymF>;
    type Hasher = PoseidonHash;
    type InnerHasher = PoseidonHash;
}

fn main() {
    let t0 = std::time::Instant::now();
    let config = CircuitConfig::standard_recursion_config();
    let mut b = CircuitBuilder::<SymF, 2>::new(config);
    let x = b.add_virtual_target();
    let y = b.add_virtual_target();
    let xe = b.add_virtual_extension_target();
    let z = b.mul(x, y);
    let w = b.exp_u64(z, 5);
    let s = b.add(w, x);
    let ee = b.mul_extension(xe, xe);
    let q = b.div(s, y);
    b.register_public_input(s);
    let data = b.build::<SymConfig>();
    println!("built in {:?}, degree {}", t0.elapsed(), data.common.degree());
    let mut pw = PartialWitness::<SymF>::new();
    pw.set_target(x, SymF::var("x")).unwrap();
    pw.set_target(y, SymF::var("y")).unwrap();
    pw.set_extension_target(xe, QuadraticExtension([SymF::var("e0"), SymF::var("e1")])).unwrap();
    let wit = generate_partial_witness(pw, &data.prover_only, &data.common).unwrap();
    let mut out = String::new(); let mut done = HashMap::new();
    let ts = smt_of(wit.get_target(s).op(), &mut out, &mut done);
    let tq = smt_of(wit.get_target(q).op(), &mut out, &mut done);
    let te = smt_of(wit.get_extension_target(ee).0[1].op(), &mut out, &mut done);
    println!("{}\n; s = {} ; q = {} ; ee1 = {}", out, ts, tq, te);
    println!("sym compares: {}", symf::ARENA.lock().unwrap().as_ref().unwrap().sym_compares);
}
