pub fn noop() {}
pub unsafe fn add_model(x: u64, y: u64) -> u64 {
    let (res_wrapped, carry) = x.overflowing_add(y);
    let adjustment: u64 = if carry { 0xffff_ffff } else { 0 };
    plonky2_util::assume(x != 0 || (res_wrapped == y && adjustment == 0));
    plonky2_util::assume(y != 0 || (res_wrapped == x && adjustment == 0));
    res_wrapped + adjustment
}
#[cfg(kani)]
mod proofs {
    use plonky2_field::goldilocks_field::GoldilocksField as F;
    use plonky2_field::types::{Field, PrimeField64, Field64};

    const P: u64 = 0xFFFF_FFFF_0000_0001;
    const EPS: u128 = 0xFFFF_FFFF;
    fn canon(x: u64) -> u128 { if x >= P { (x - P) as u128 } else { x as u128 } }

    #[kani::proof]
    #[kani::stub(plonky2_util::branch_hint, super::noop)]
    #[kani::stub(plonky2_field::goldilocks_field::add_no_canonicalize_trashing_input, super::add_model)]
    fn reduce128_rem() {
        let n: u128 = kani::any();
        let r = F::from_noncanonical_u128(n);
        assert_eq!(r.to_canonical_u64() as u128, n % (P as u128));
    }

    #[kani::proof]
    #[kani::stub(plonky2_util::branch_hint, super::noop)]
    #[kani::stub(plonky2_field::goldilocks_field::add_no_canonicalize_trashing_input, super::add_model)]
    fn reduce128_shift() {
        let n: u128 = kani::any();
        let r = F::from_noncanonical_u128(n).to_canonical_u64() as u128;
        let lo = n & 0xFFFF_FFFF_FFFF_FFFF;
        let hl = (n >> 64) & EPS;
        let hh = n >> 96;
        let v = lo + (hl << 32) - hl + (P as u128) - hh;
        let p = P as u128;
        assert!(v == r || v == r + p || v == r + 2*p || v == r + 3*p);
    }

    #[kani::proof]
    #[kani::stub(plonky2_util::branch_hint, super::noop)]
    #[kani::stub(plonky2_field::goldilocks_field::add_no_canonicalize_trashing_input, super::add_model)]
    fn reduce96_shift() {
        let lo: u64 = kani::any();
        let hi: u32 = kani::any();
        let r = F::from_noncanonical_u96((lo, hi)).to_canonical_u64() as u128;
        let hl = hi as u128;
        let v = lo as u128 + (hl << 32) - hl;
        let p = P as u128;
        assert!(v == r || v == r + p || v == r + 2*p);
    }

    #[kani::proof]
    #[kani::stub(plonky2_util::branch_hint, super::noop)]
    #[kani::stub(plonky2_field::goldilocks_field::add_no_canonicalize_trashing_input, super::add_model)]
    fn i64_conv() {
        let n: i64 = kani::any();
        let r = F::from_noncanonical_i64(n).to_canonical_u64() as i128;
        let v = n as i128;
        let p = P as i128;
        assert!(r < p && (v == r || v + p == r));
    }

    // spec without division: n = hh*2^96 + hl*2^64 + lo ; 2^64 = EPS, 2^96 = -1 mod p
    #[kani::proof]
    #[kani::stub(plonky2_util::branch_hint, super::noop)]
    #[kani::stub(plonky2_field::goldilocks_field::add_no_canonicalize_trashing_input, super::add_model)]
    fn reduce128_lin() {
        let n: u128 = kani::any();
        let r = F::from_noncanonical_u128(n).to_canonical_u64() as u128;
        let lo = n & 0xFFFF_FFFF_FFFF_FFFF;
        let hl = (n >> 64) & EPS;
        let hh = n >> 96;
        // v = lo + hl*EPS - hh + P   in [0, 2^64 + 2^64 + P) 
        let v = lo + hl * EPS + (P as u128) - hh;
        let p = P as u128;
        assert!(v == r || v == r + p || v == r + 2*p || v == r + 3*p);
    }
}
