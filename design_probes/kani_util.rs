pub fn noop() {}
#[cfg(kani)]
mod proofs {
    use plonky2_util::*;
    fn rev(i: usize, bits: usize) -> usize { if bits == 0 { 0 } else { i.reverse_bits() >> (usize::BITS as usize - bits) } }

    #[kani::proof]
    #[kani::unwind(130)]
    fn rib_in_place_128() {
        let a: [u8; 128] = kani::any();
        let mut b = a;
        reverse_index_bits_in_place(&mut b[..]);
        let i: usize = kani::any();
        kani::assume(i < 128);
        assert_eq!(b[i], a[rev(i, 7)]);
    }

    #[kani::proof]
    #[kani::unwind(34)]
    fn rib_in_place_pow2_le_32() {
        let lb: usize = kani::any();
        kani::assume(lb <= 5);
        let n = 1usize << lb;
        let a: [u8; 32] = kani::any();
        let mut b = a;
        reverse_index_bits_in_place(&mut b[..n]);
        let i: usize = kani::any();
        kani::assume(i < n);
        assert_eq!(b[i], a[rev(i, lb)]);
    }

    #[kani::proof]
    fn log2s() {
        let n: usize = kani::any();
        kani::assume(n >= 1);
        let c = log2_ceil(n);
        assert!(c <= 64);
        if c < 64 { assert!((1usize << c) >= n); }
        if c > 0 { assert!((1usize << (c - 1)) < n); }
        if n.is_power_of_two() { assert_eq!(1usize << log2_strict(n), n); }
    }
}
