import z3, time, sys
P = 2**64 - 2**32 + 1; EPS = 2**32 - 1; M64 = 2**64
def add_nc(s, x, y):
    s_ = x + y
    carry = s_ >= M64
    res = z3.If(carry, s_ - M64, s_)
    adj = z3.If(carry, z3.IntVal(EPS), z3.IntVal(0))
    # overflow obligation: res + adj < 2^64
    return res + adj, (res + adj < M64)
def reduce128(x):
    lo = x % M64; hi = x / M64
    hh = hi / 2**32; hl = hi % 2**32
    borrow = lo < hh
    t0 = z3.If(borrow, lo - hh + M64, lo - hh)
    ob1 = z3.Implies(borrow, t0 >= EPS)
    t0 = z3.If(borrow, t0 - EPS, t0)
    t1 = hl * EPS
    ob2 = t1 < M64
    r, ob3 = add_nc(None, t0, t1)
    return r, [ob1, ob2, ob3]
x = z3.Int('x')
r, obs = reduce128(x)
for name, goal in [("congruent", (r - x) % P == 0), ("range", z3.And(r >= 0, r < M64)), ("no-overflow", z3.And(*obs))]:
    s = z3.Solver(); s.add(x >= 0, x < 2**128); s.add(z3.Not(goal))
    t = time.time(); print(name, s.check(), round(time.time()-t, 3))
# mul: a*b opaque
a, b = z3.Ints('a b')
prod = a*b
r, obs = reduce128(prod)
s = z3.Solver(); s.add(a >= 0, a < M64, b >= 0, b < M64, prod >= 0, prod <= (M64-1)**2)
s.add(z3.Not(z3.And((r - a*b) % P == 0, r < M64, *obs)))
t = time.time(); print("mul", s.check(), round(time.time()-t, 3))
with open('r128.smt2','w') as f:
    s = z3.Solver(); s.add(x >= 0, x < 2**128); s.add(z3.Not((r - x) % P == 0)); 
    r2, _ = reduce128(x); s2 = z3.Solver(); s2.add(x >= 0, x < 2**128); s2.add(z3.Not((r2 - x) % P == 0)); f.write("(set-logic ALL)\n"+s2.to_smt2())
