//! Prototype: a term-recording field type that the *real* generic plonky2 code can be
//! instantiated with.
use core::fmt::{self, Debug, Display, Formatter};
use core::hash::{Hash, Hasher};
use core::iter::{Product, Sum};
use core::ops::{Add, AddAssign, Div, DivAssign, Mul, MulAssign, Neg, Sub, SubAssign};
use std::collections::HashMap;
use std::sync::Mutex;

use num::BigUint;
use plonky2::hash::hash_types::RichField;
use plonky2::hash::poseidon::Poseidon;
use plonky2_field::extension::quadratic::QuadraticExtension;
use plonky2_field::extension::{Extendable, Frobenius};
use plonky2_field::goldilocks_field::GoldilocksField as G;
use plonky2_field::types::{Field, Field64, PrimeField, PrimeField64, Sample};
use serde::{Deserialize, Serialize};

#[derive(Copy, Clone, Serialize, Deserialize)]
pub struct SymF {
    /// 0 = concrete (val holds a Goldilocks representation), 1 = symbolic (id indexes the arena)
    k: u32,
    id: u32,
    val: u64,
}

#[derive(Clone, PartialEq, Eq, Hash, Debug)]
pub enum Node {
    Var(String),
    Add(Op, Op),
    Sub(Op, Op),
    Mul(Op, Op),
    Neg(Op),
    Inv(Op),
    Perm(u8, Vec<Op>),
}
#[derive(Copy, Clone, PartialEq, Eq, Hash, Debug)]
pub enum Op {
    C(u64),
    N(u32),
}

#[derive(Default)]
pub struct Arena {
    pub nodes: Vec<Node>,
    pub index: HashMap<Node, u32>,
    pub sym_compares: usize,
}
pub static ARENA: Mutex<Option<Arena>> = Mutex::new(None);

fn with<R>(f: impl FnOnce(&mut Arena) -> R) -> R {
    let mut g = ARENA.lock().unwrap();
    if g.is_none() {
        *g = Some(Arena::default());
    }
    f(g.as_mut().unwrap())
}

impl SymF {
    pub const fn c(v: u64) -> Self {
        SymF { k: 0, id: 0, val: v }
    }
    pub fn var(name: &str) -> Self {
        Self::mk(Node::Var(name.to_string()))
    }
    fn mk(n: Node) -> Self {
        with(|a| {
            if let Some(&i) = a.index.get(&n) {
                return SymF { k: 1, id: i, val: 0 };
            }
            let i = a.nodes.len() as u32;
            a.nodes.push(n.clone());
            a.index.insert(n, i);
            SymF { k: 1, id: i, val: 0 }
        })
    }
    pub fn op(&self) -> Op {
        if self.k == 0 {
            Op::C(G(self.val).to_canonical_u64())
        } else {
            Op::N(self.id)
        }
    }
    pub fn is_concrete(&self) -> bool {
        self.k == 0
    }
    fn g(&self) -> G {
        assert!(self.k == 0, "concretization of a symbolic field element");
        G(self.val)
    }
    fn lift(g: G) -> Self {
        SymF::c(g.0)
    }
}

pub fn smt_of(op: Op, out: &mut String, done: &mut HashMap<u32, ()>) -> String {
    match op {
        Op::C(v) => format!("{}", v),
        Op::N(i) => {
            if done.contains_key(&i) {
                return format!("n{}", i);
            }
            let node = with(|a| a.nodes[i as usize].clone());
            let def = match node {
                Node::Var(s) => {
                    out.push_str(&format!("(declare-const n{} Int) ; {}\n", i, s));
                    done.insert(i, ());
                    return format!("n{}", i);
                }
                Node::Add(a, b) => format!("(+ {} {})", smt_of(a, out, done), smt_of(b, out, done)),
                Node::Sub(a, b) => format!("(- {} {})", smt_of(a, out, done), smt_of(b, out, done)),
                Node::Mul(a, b) => format!("(* {} {})", smt_of(a, out, done), smt_of(b, out, done)),
                Node::Neg(a) => format!("(- {})", smt_of(a, out, done)),
                Node::Inv(_) | Node::Perm(..) => {
                    out.push_str(&format!("(declare-const n{} Int)\n", i));
                    done.insert(i, ());
                    return format!("n{}", i);
                }
            };
            out.push_str(&format!("(define-fun n{} () Int {})\n", i, def));
            done.insert(i, ());
            format!("n{}", i)
        }
    }
}

impl PartialEq for SymF {
    fn eq(&self, o: &Self) -> bool {
        if self.k == 0 && o.k == 0 {
            self.g() == o.g()
        } else {
            with(|a| a.sym_compares += 1);
            if self.k == o.k && self.id == o.id { return true; }
            decide_eq(self.op(), o.op())
        }
    }
}
impl Eq for SymF {}
impl Hash for SymF {
    fn hash<H: Hasher>(&self, s: &mut H) {
        self.op().hash(s)
    }
}
impl Default for SymF {
    fn default() -> Self {
        Self::ZERO
    }
}
impl Debug for SymF {
    fn fmt(&self, f: &mut Formatter<'_>) -> fmt::Result {
        write!(f, "{:?}", self.op())
    }
}
impl Display for SymF {
    fn fmt(&self, f: &mut Formatter<'_>) -> fmt::Result {
        write!(f, "{:?}", self.op())
    }
}
impl Sample for SymF {
    fn sample<R: rand::RngCore + ?Sized>(rng: &mut R) -> Self {
        Self::lift(G::sample(rng))
    }
}

macro_rules! binop {
    ($tr:ident, $f:ident, $node:ident, $tra:ident, $fa:ident) => {
        impl $tr for SymF {
            type Output = Self;
            fn $f(self, r: Self) -> Self {
                if self.k == 0 && r.k == 0 {
                    Self::lift(self.g().$f(r.g()))
                } else {
                    Self::mk(Node::$node(self.op(), r.op()))
                }
            }
        }
        impl $tra for SymF {
            fn $fa(&mut self, r: Self) {
                *self = (*self).$f(r);
            }
        }
    };
}
binop!(Add, add, Add, AddAssign, add_assign);
binop!(Sub, sub, Sub, SubAssign, sub_assign);
binop!(Mul, mul, Mul, MulAssign, mul_assign);
impl Neg for SymF {
    type Output = Self;
    fn neg(self) -> Self {
        if self.k == 0 {
            Self::lift(-self.g())
        } else {
            Self::mk(Node::Neg(self.op()))
        }
    }
}
impl Div for SymF {
    type Output = Self;
    fn div(self, r: Self) -> Self {
        self * r.inverse()
    }
}
impl DivAssign for SymF {
    fn div_assign(&mut self, r: Self) {
        *self = *self / r;
    }
}
impl Sum for SymF {
    fn sum<I: Iterator<Item = Self>>(i: I) -> Self {
        i.fold(Self::ZERO, |a, x| a + x)
    }
}
impl Product for SymF {
    fn product<I: Iterator<Item = Self>>(i: I) -> Self {
        i.fold(Self::ONE, |a, x| a * x)
    }
}

impl Field for SymF {
    const ZERO: Self = SymF::c(0);
    const ONE: Self = SymF::c(1);
    const TWO: Self = SymF::c(2);
    const NEG_ONE: Self = SymF::c(G::NEG_ONE.0);
    const TWO_ADICITY: usize = G::TWO_ADICITY;
    const CHARACTERISTIC_TWO_ADICITY: usize = G::CHARACTERISTIC_TWO_ADICITY;
    const MULTIPLICATIVE_GROUP_GENERATOR: Self = SymF::c(G::MULTIPLICATIVE_GROUP_GENERATOR.0);
    const POWER_OF_TWO_GENERATOR: Self = SymF::c(G::POWER_OF_TWO_GENERATOR.0);
    const BITS: usize = 64;
    fn order() -> BigUint {
        G::order()
    }
    fn characteristic() -> BigUint {
        G::order()
    }
    fn try_inverse(&self) -> Option<Self> {
        if self.k == 0 {
            self.g().try_inverse().map(Self::lift)
        } else {
            Some(Self::mk(Node::Inv(self.op())))
        }
    }
    fn from_noncanonical_biguint(n: BigUint) -> Self {
        Self::lift(G::from_noncanonical_biguint(n))
    }
    fn from_canonical_u64(n: u64) -> Self {
        Self::lift(G::from_canonical_u64(n))
    }
    fn from_noncanonical_u128(n: u128) -> Self {
        Self::lift(G::from_noncanonical_u128(n))
    }
    fn from_noncanonical_u64(n: u64) -> Self {
        Self::lift(G::from_noncanonical_u64(n))
    }
    fn from_noncanonical_i64(n: i64) -> Self {
        Self::lift(G::from_noncanonical_i64(n))
    }
}
impl PrimeField for SymF {
    fn to_canonical_biguint(&self) -> BigUint {
        self.g().to_canonical_biguint()
    }
}
impl Field64 for SymF {
    const ORDER: u64 = G::ORDER;
}
impl PrimeField64 for SymF {
    fn to_canonical_u64(&self) -> u64 {
        self.g().to_canonical_u64()
    }
    fn to_noncanonical_u64(&self) -> u64 {
        self.g().to_noncanonical_u64()
    }
}
impl Frobenius<1> for SymF {}
impl Extendable<2> for SymF {
    type Extension = QuadraticExtension<Self>;
    const W: Self = SymF::c(7);
    const DTH_ROOT: Self = SymF::c(<G as Extendable<2>>::DTH_ROOT.0);
    const EXT_MULTIPLICATIVE_GROUP_GENERATOR: [Self; 2] = [
        SymF::c(<G as Extendable<2>>::EXT_MULTIPLICATIVE_GROUP_GENERATOR[0].0),
        SymF::c(<G as Extendable<2>>::EXT_MULTIPLICATIVE_GROUP_GENERATOR[1].0),
    ];
    const EXT_POWER_OF_TWO_GENERATOR: [Self; 2] = [
        SymF::c(<G as Extendable<2>>::EXT_POWER_OF_TWO_GENERATOR[0].0),
        SymF::c(<G as Extendable<2>>::EXT_POWER_OF_TWO_GENERATOR[1].0),
    ];
}
impl Poseidon for SymF {
    const MDS_MATRIX_CIRC: [u64; 12] = <G as Poseidon>::MDS_MATRIX_CIRC;
    const MDS_MATRIX_DIAG: [u64; 12] = <G as Poseidon>::MDS_MATRIX_DIAG;
    const FAST_PARTIAL_FIRST_ROUND_CONSTANT: [u64; 12] =
        <G as Poseidon>::FAST_PARTIAL_FIRST_ROUND_CONSTANT;
    const FAST_PARTIAL_ROUND_CONSTANTS: [u64; 22] = <G as Poseidon>::FAST_PARTIAL_ROUND_CONSTANTS;
    const FAST_PARTIAL_ROUND_VS: [[u64; 11]; 22] = <G as Poseidon>::FAST_PARTIAL_ROUND_VS;
    const FAST_PARTIAL_ROUND_W_HATS: [[u64; 11]; 22] = <G as Poseidon>::FAST_PARTIAL_ROUND_W_HATS;
    const FAST_PARTIAL_ROUND_INITIAL_MATRIX: [[u64; 11]; 11] =
        <G as Poseidon>::FAST_PARTIAL_ROUND_INITIAL_MATRIX;
    fn poseidon(input: [Self; 12]) -> [Self; 12] {
        if input.iter().all(|x| x.k == 0) {
            let out = <G as Poseidon>::poseidon(input.map(|x| x.g()));
            out.map(Self::lift)
        } else {
            let ops: Vec<Op> = input.iter().map(|x| x.op()).collect();
            core::array::from_fn(|i| Self::mk(Node::Perm(i as u8, ops.clone())))
        }
    }
}
impl RichField for SymF {}

/// Solver-decided equality: true iff (a - b) = 0 (mod p) is valid given the Inv axioms.
pub fn decide_eq(a: Op, b: Op) -> bool {
    use std::io::Write;
    let mut out = String::from("(set-logic ALL)\n");
    let mut done = HashMap::new();
    let ta = smt_of(a, &mut out, &mut done);
    let tb = smt_of(b, &mut out, &mut done);
    // Inv axioms for every Inv node emitted so far
    let invs: Vec<(u32, Op)> = with(|ar| ar.nodes.iter().enumerate().filter_map(|(i, n)| if let Node::Inv(x) = n { Some((i as u32, *x)) } else { None }).collect());
    for (i, x) in invs {
        if done.contains_key(&i) {
            let tx = smt_of(x, &mut out, &mut done);
            out.push_str(&format!("(assert (= (mod (- (* {} n{}) 1) 18446744069414584321) 0))\n", tx, i));
        }
    }
    out.push_str(&format!("(assert (not (= (mod (- {} {}) 18446744069414584321) 0)))\n(check-sat)\n", ta, tb));
    let mut child = std::process::Command::new("z3-new").arg("-in").arg("-T:20")
        .stdin(std::process::Stdio::piped()).stdout(std::process::Stdio::piped()).spawn().unwrap();
    child.stdin.take().unwrap().write_all(out.as_bytes()).unwrap();
    let o = child.wait_with_output().unwrap();
    let ans = String::from_utf8_lossy(&o.stdout).trim().to_string();
    eprintln!("decide_eq {:?} {:?} -> {}", a, b, ans);
    ans == "unsat"
}
