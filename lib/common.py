"""Shared plumbing for the /verif checks: obligation records, evidence files, known findings,
scratch directories, solver invocation.

An *obligation result* is a plain dict:

  id           unique string, e.g. "C14.M.reduce128.congruent"
  property     "C14"
  engine       "M" | "S" | "K"
  functions    list of "path::function" strings naming the /repo code that was encoded
  bounds       free text: the bound within which the solver decided the query
  assumptions  list of strings (stubs, assumes, idealisations)
  verdict      "holds" | "violated" | "inconclusive"
  solver       e.g. "z3-5.1.0", "cbmc-6.11/cadical"
  seconds      solver (or CBMC) time for this obligation
  queries      number of solver queries issued for this obligation (default 1)
  nontrivial   bool - query not closed by simplification alone / vacuity twin satisfiable
  detail       free text (why inconclusive, counterexample summary ...)
  replay       path of a replay artefact (only for "violated": the counterexample reproduced natively)
  finding_key  role-based key used for the known-findings file (only for "violated")
  sample       short human-readable rendering of the obligation
"""
import hashlib
import json
import os
import shutil
import subprocess
import sys
import tempfile
import time

VERIF = os.path.dirname(os.path.dirname(os.path.abspath(__file__)))
REPO = os.environ.get("VERIF_REPO", "/repo")
CACHE = os.path.join(VERIF, ".cache")
P = 2**64 - 2**32 + 1

Z3_NEW = "z3-new"      # z3 5.1.0 (primary)
Z3_OLD = "/usr/bin/z3"  # z3 4.8.12
CVC5 = "/usr/bin/cvc5"


def ncpu():
    try:
        return max(1, int(os.environ.get("VERIF_JOBS", os.cpu_count() or 4)))
    except ValueError:
        return 4


def env_offline(extra=None):
    e = dict(os.environ)
    e["CARGO_NET_OFFLINE"] = "true"
    e.setdefault("CARGO_TERM_COLOR", "never")
    if extra:
        e.update(extra)
    return e


def scratch_dir(tag):
    """Scratch outside /repo, /verif and /tmp; caller removes it (use Scratch)."""
    base = os.environ.get("VERIF_SCRATCH", "/var/tmp")
    os.makedirs(base, exist_ok=True)
    return tempfile.mkdtemp(prefix="plonky2-verif-%s-" % tag, dir=base)


class Scratch:
    def __init__(self, tag):
        self.tag = tag
        self.path = None

    def __enter__(self):
        self.path = scratch_dir(self.tag)
        return self.path

    def __exit__(self, *a):
        if self.path and not os.environ.get("VERIF_KEEP_SCRATCH"):
            shutil.rmtree(self.path, ignore_errors=True)


def file_sha(path):
    try:
        with open(path, "rb") as f:
            return hashlib.sha256(f.read()).hexdigest()[:16]
    except OSError:
        return None


def ob(id, prop, engine, functions, bounds, verdict, seconds=0.0, solver="", assumptions=None,
       nontrivial=True, detail="", replay=None, finding_key=None, sample=None, queries=1):
    assert verdict in ("holds", "violated", "inconclusive"), verdict
    return dict(id=id, property=prop, engine=engine, functions=list(functions), bounds=bounds,
                assumptions=list(assumptions or []), verdict=verdict, solver=solver,
                seconds=round(float(seconds), 3), nontrivial=bool(nontrivial), detail=detail,
                replay=replay, finding_key=finding_key, sample=sample or id, queries=queries)


# ---------------------------------------------------------------------------------------------
# solver invocation

def run_solver(smt_text, solver=Z3_NEW, timeout_s=60, mem_mb=8000):
    """Run one SMT-LIB script through a solver CLI. Returns (answer, seconds, raw) where answer is
    'sat' | 'unsat' | 'unknown' | 'timeout' | 'error'. Any '(error' line => 'error'."""
    t0 = time.time()
    if solver == CVC5:
        cmd = [CVC5, "--lang", "smt2", "--tlimit=%d" % int(timeout_s * 1000), "--produce-models"]
    else:
        cmd = [solver, "-in", "-T:%d" % int(timeout_s), "-memory:%d" % mem_mb]
    try:
        p = subprocess.run(cmd, input=smt_text.encode(), stdout=subprocess.PIPE,
                           stderr=subprocess.PIPE, timeout=timeout_s + 15)
    except subprocess.TimeoutExpired:
        return "timeout", time.time() - t0, ""
    out = p.stdout.decode(errors="replace")
    dt = time.time() - t0
    # `(get-model)` after an `unsat` answer is the one benign error
    errs = [l for l in out.splitlines() if "(error" in l and "model is not available" not in l]
    if errs:
        return "error", dt, out
    first = out.strip().split("\n", 1)[0].strip() if out.strip() else ""
    if first in ("sat", "unsat", "unknown"):
        return first, dt, out
    if "timeout" in out or "interrupted" in out.lower() or "resource limit" in out.lower():
        return "timeout", dt, out
    return "error", dt, out + p.stderr.decode(errors="replace")


def _classify(out):
    errs = [l for l in out.splitlines() if "(error" in l and "model is not available" not in l
            and "cannot get model" not in l.lower()]
    if errs:
        return "error"
    first = out.strip().split("\n", 1)[0].strip() if out.strip() else ""
    if first in ("sat", "unsat", "unknown"):
        return first
    return "timeout" if ("timeout" in out or "interrupted" in out.lower() or not out.strip()) else "error"


def run_portfolio(smt_text, timeout_s=60, mem_mb=8000, linger_s=3):
    """z3 5.1 and cvc5 side by side on the same query; the first decisive answer (sat/unsat) wins.
    The other solver is given `linger_s` more seconds: if it answers the opposite, the result is
    'disagree'. Returns (answer, seconds, raw_output_of_winner, solver_name, note)."""
    t0 = time.time()
    data = smt_text.encode()
    cmds = {
        "z3-5.1.0": [Z3_NEW, "-in", "-T:%d" % int(timeout_s), "-memory:%d" % mem_mb],
        "cvc5-1.0": [CVC5, "--lang", "smt2", "--tlimit=%d" % int(timeout_s * 1000), "--produce-models"],
    }
    procs = {}
    for name, cmd in cmds.items():
        p = subprocess.Popen(cmd, stdin=subprocess.PIPE, stdout=subprocess.PIPE, stderr=subprocess.DEVNULL)
        try:
            p.stdin.write(data)
            p.stdin.close()
        except BrokenPipeError:
            pass
        procs[name] = p
    answers = {}
    winner = None
    deadline = t0 + timeout_s + 10
    while procs and time.time() < deadline:
        for name in list(procs):
            p = procs[name]
            if p.poll() is not None:
                out = p.stdout.read().decode(errors="replace")
                answers[name] = (_classify(out), out)
                del procs[name]
                if winner is None and answers[name][0] in ("sat", "unsat"):
                    winner = name
                    deadline = min(deadline, time.time() + linger_s)
        if procs:
            time.sleep(0.01)
    for p in procs.values():
        p.kill()
        try:
            p.wait(timeout=5)
        except Exception:
            pass
    dt = time.time() - t0
    note = ",".join("%s:%s" % (k, v[0]) for k, v in sorted(answers.items()))
    if winner is None:
        kinds = {v[0] for v in answers.values()}
        ans = "error" if kinds == {"error"} else ("unknown" if "unknown" in kinds else "timeout")
        return ans, dt, "", "z3-5.1.0+cvc5-1.0", note
    decisive = {v[0] for v in answers.values() if v[0] in ("sat", "unsat")}
    if len(decisive) == 2:
        return "disagree", dt, answers[winner][1], winner, note
    return answers[winner][0], dt, answers[winner][1], winner, note


def parse_model(raw):
    """Parse z3 `(get-model)` output for Int constants -> {name: int}."""
    import re
    model = {}
    for m in re.finditer(r"\(define-fun\s+(\S+)\s+\(\)\s+Int\s+(\(-\s+(\d+)\)|(\d+))\s*\)", raw):
        name = m.group(1)
        model[name] = -int(m.group(3)) if m.group(3) else int(m.group(4))
    return model


# ---------------------------------------------------------------------------------------------
# known findings

def load_known_findings():
    path = os.path.join(VERIF, "known_findings.json")
    if not os.path.exists(path):
        return {"findings": [], "fixed": []}
    with open(path) as f:
        return json.load(f)


# ---------------------------------------------------------------------------------------------
# evidence + exit code

def finish(prop, tier, seed, results, t_start, explanation, trusted_base, checker_cmd,
           extra_assumptions=None):
    """Write evidence/<prop>.json, print VIOLATION / KNOWN-FINDING lines, return exit code."""
    known = load_known_findings()
    known_keys = {(k["property"], k["key"]): k for k in known.get("findings", [])}
    violations, inconclusive, held = [], [], []
    known_hit = []
    for r in results:
        if r["verdict"] == "violated":
            k = (prop, r.get("finding_key") or r["id"])
            if k in known_keys:
                known_hit.append((r, known_keys[k]))
            else:
                violations.append(r)
        elif r["verdict"] == "inconclusive":
            inconclusive.append(r)
        else:
            held.append(r)
    # Each listed finding is printed when it is (still) reproduced by this run.
    printed = set()
    for r, k in known_hit:
        if k["key"] not in printed:
            printed.add(k["key"])
            n = sum(1 for _, k2 in known_hit if k2["key"] == k["key"])
            print("KNOWN-FINDING: property=%s %s [key %s; reproduced by %d obligation(s) of this run, e.g. %s]" % (
                prop, k.get("what", k["key"]), k["key"], n, r["id"]))
    for r in violations:
        print("VIOLATION property=%s replay=%s" % (prop, r.get("replay") or "-"))
        print("  obligation %s [key %s]: %s" % (r["id"], r.get("finding_key") or r["id"], r.get("detail", "")))
    for r in inconclusive:
        print("INCONCLUSIVE %s: %s" % (r["id"], r.get("detail", "")))

    functions = sorted({f for r in results for f in r["functions"]})
    engines = sorted({r["engine"] for r in results})
    assumptions = sorted({a for r in results for a in r["assumptions"]} | set(extra_assumptions or []))
    samples = []
    seen_eng = set()
    for r in results:
        if len(samples) < 12 and (r["engine"], r["id"].split(".")[2] if r["id"].count(".") >= 2 else "") not in seen_eng:
            seen_eng.add((r["engine"], r["id"].split(".")[2] if r["id"].count(".") >= 2 else ""))
            samples.append({"id": r["id"], "obligation": r["sample"], "bounds": r["bounds"],
                            "verdict": r["verdict"], "solver": r["solver"], "seconds": r["seconds"]})
    n_queries = sum(int(r.get("queries", 1)) for r in results)
    ev = {
        "property_id": prop,
        "tier": tier,
        "seed": int(seed),
        "level": "other",
        "coverage": {
            "explanation": explanation,
            "obligations": len(results),
            "discharged": len(held),
            "inconclusive": len(inconclusive),
            "evaluations": n_queries,
            "distinct_nontrivial": len({r["id"] for r in results if r["nontrivial"] and r["verdict"] == "holds"}),
            "rule": "one evaluation = one solver query (SMT check-sat or CBMC run) over code taken from "
                    "/repo's working tree in this run; an obligation is non-trivial when its vacuity/"
                    "reachability twin is satisfiable (the hypotheses are consistent and the assertion is "
                    "reached) and its id is distinct",
            "samples": samples,
            "checker_cmd": checker_cmd,
            "trusted_base": trusted_base,
            "functions_encoded": functions,
            "engines": engines,
            "solver_seconds": round(sum(r["seconds"] for r in results), 2),
            "per_obligation": [
                {k: r[k] for k in ("id", "engine", "functions", "bounds", "verdict", "solver", "seconds", "queries")}
                for r in results
            ],
            "source_hashes": {f.split("::")[0]: file_sha(os.path.join(REPO, f.split("::")[0]))
                              for f in functions if "::" in f},
        },
        "assumptions": assumptions,
        "wall_s": round(time.time() - t_start, 2),
        "violations": len(violations),
    }
    evdir = os.environ.get("VERIF_EVIDENCE_DIR") or os.path.join(VERIF, "evidence")
    os.makedirs(evdir, exist_ok=True)
    with open(os.path.join(evdir, prop + ".json"), "w") as f:
        json.dump(ev, f, indent=1, sort_keys=True)
        f.write("\n")
    print("%s tier=%s: %d obligations, %d hold, %d violated (%d known), %d inconclusive, %.1fs" % (
        prop, tier, len(results), len(held), len(violations) + len(known_hit), len(known_hit),
        len(inconclusive), time.time() - t_start))
    if violations:
        return 1
    if inconclusive or not results:
        return 2
    return 0


def log(*a):
    print(*a, file=sys.stderr, flush=True)
