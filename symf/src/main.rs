//! symf-ob emit <family> <quick|thorough> <outdir> [only-substring]
//! symf-ob replay <family> <quick|thorough> <obligation-id> <model.json>
use std::collections::HashMap;

use plonky2_field::goldilocks_field::GoldilocksField as G;
use symf::ctx::{Ctx, Mode, VF};
use symf::SymF;

fn run_family<F>(family: &str, ctx: &mut Ctx)
where
    F: VF
        + plonky2_field::extension::Extendable<2, Extension = plonky2_field::extension::quadratic::QuadraticExtension<F>>
        + plonky2_field::extension::Extendable<4, Extension = plonky2_field::extension::quartic::QuarticExtension<F>>
        + plonky2_field::extension::Extendable<5, Extension = plonky2_field::extension::quintic::QuinticExtension<F>>,
{
    match family {
        "algebra" => symf::algebra::family::<F>(ctx),
        "gates" => symf::gates::family::<F>(ctx),
        "fri" => symf::fri::family::<F>(ctx),
        "lookup" => symf::lookup::family::<F>(ctx),
        "merkle" => symf::merkle::family::<F>(ctx),
        "codec" => symf::codec::family(ctx),
        "plonk" => symf::plonk::family::<F>(ctx),
        "plonkv" => symf::plonkv::family::<F>(ctx),
        "recursion" => symf::recursion::family::<F>(ctx),
        "stark" => symf::stark::family::<F>(ctx),
        "transcript" => symf::transcript::family::<F>(ctx),
        _ => panic!("unknown family {family}"),
    }
}

fn real_main() -> i32 {
    let args: Vec<String> = std::env::args().collect();
    let cmd = args[1].as_str();
    let family = args[2].clone();
    let thorough = args[3] == "thorough";
    match cmd {
        "emit" => {
            let dir = args[4].clone();
            std::fs::create_dir_all(&dir).unwrap();
            let mut ctx = Ctx {
                mode: Mode::Emit { dir: dir.clone() },
                tier_thorough: thorough,
                metas: vec![],
                replay_result: None,
                only: args.get(5).cloned(),
                witness: vec![],
            };
            run_family::<SymF>(&family, &mut ctx);
            let js = serde_json::to_string_pretty(&ctx.metas).unwrap();
            std::fs::write(format!("{dir}/index.json"), js).unwrap();
            eprintln!("emitted {} obligations for {family}", ctx.metas.len());
            0
        }
        "replay" => {
            let target = args[4].clone();
            let model: HashMap<String, u64> =
                serde_json::from_str(&std::fs::read_to_string(&args[5]).unwrap()).unwrap();
            *symf::ctx::MODEL.lock().unwrap() = Some(model);
            let mut ctx = Ctx {
                mode: Mode::Replay { target: target.clone() },
                tier_thorough: thorough,
                metas: vec![],
                replay_result: None,
                only: None,
                witness: vec![],
            };
            run_family::<G>(&family, &mut ctx);
            match ctx.replay_result {
                Some((true, d)) => {
                    println!("REPRODUCED {target}: {d}");
                    1
                }
                Some((false, d)) => {
                    println!("NOT-REPRODUCED {target}: {d}");
                    0
                }
                None => {
                    println!("NOT-FOUND {target}");
                    3
                }
            }
        }
        "witness" => {
            // symf witness <family> <tier> <seed> : which obligations' hypotheses hold on a
            // pseudo-random concrete input (printed as JSON {id: bool})
            let seed: u64 = args[4].parse().unwrap();
            let mut model = HashMap::new();
            model.insert("__random_seed__".to_string(), seed);
            *symf::ctx::MODEL.lock().unwrap() = Some(model);
            let mut ctx = Ctx {
                mode: Mode::Witness,
                tier_thorough: thorough,
                metas: vec![],
                replay_result: None,
                only: None,
                witness: vec![],
            };
            run_family::<G>(&family, &mut ctx);
            let m: HashMap<String, bool> = ctx.witness.into_iter().collect();
            println!("{}", serde_json::to_string(&m).unwrap());
            0
        }
        _ => panic!("usage"),
    }
}

fn main() {
    // deep term DAGs: run on a big stack
    let h = std::thread::Builder::new().stack_size(1 << 30).spawn(real_main).unwrap();
    let code = h.join().unwrap_or(101);
    std::process::exit(code);
}
