//! C17 on whole circuits: the binary encodings of complete circuits, their prover / verifier /
//! common parts, proofs and compressed proofs round-trip, and a circuit restored from bytes is
//! interchangeable with the one it was saved from. These obligations execute the real
//! writers / readers natively on concrete circuits that between them use every gate and generator
//! type of the default registries the builder emits for them; they are evaluated facts (the
//! per-primitive and per-gate encodings are decided for all values by the Kani families).
use std::sync::Arc;

use plonky2::gates::noop::NoopGate;
use plonky2::iop::target::Target;
use plonky2::iop::witness::{PartialWitness, WitnessWrite};
use plonky2::plonk::circuit_builder::CircuitBuilder;
use plonky2::plonk::circuit_data::{CircuitConfig, CircuitData, CommonCircuitData, ProverCircuitData, VerifierCircuitData};
use plonky2::plonk::config::{GenericConfig, PoseidonGoldilocksConfig};
use plonky2::plonk::proof::{CompressedProofWithPublicInputs, ProofWithPublicInputs};
use plonky2::util::serialization::{DefaultGateSerializer, DefaultGeneratorSerializer};
use plonky2_field::goldilocks_field::GoldilocksField as G;
use plonky2_field::extension::FieldExtension;
use plonky2_field::types::Field;

use crate::ctx::{Ctx, Ob, A};

const FILES: &[&str] = &[
    "plonky2/src/util/serialization/mod.rs::Write::write_circuit_data",
    "plonky2/src/util/serialization/mod.rs::Read::read_circuit_data",
    "plonky2/src/util/serialization/mod.rs::Write::write_prover_only_circuit_data",
    "plonky2/src/util/serialization/mod.rs::Read::read_prover_only_circuit_data",
    "plonky2/src/util/serialization/mod.rs::Write::write_common_circuit_data",
    "plonky2/src/util/serialization/mod.rs::Read::read_common_circuit_data",
    "plonky2/src/util/serialization/mod.rs::Write::write_verifier_only_circuit_data",
    "plonky2/src/util/serialization/mod.rs::Read::read_verifier_only_circuit_data",
    "plonky2/src/util/serialization/mod.rs::Write::write_proof_with_public_inputs",
    "plonky2/src/util/serialization/mod.rs::Read::read_proof_with_public_inputs",
    "plonky2/src/util/serialization/mod.rs::Write::write_compressed_proof_with_public_inputs",
    "plonky2/src/util/serialization/mod.rs::Read::read_compressed_proof_with_public_inputs",
    "plonky2/src/util/serialization/gate_serialization.rs::DefaultGateSerializer",
    "plonky2/src/util/serialization/generator_serialization.rs::DefaultGeneratorSerializer",
    "plonky2/src/plonk/circuit_data.rs::CircuitData::to_bytes",
    "plonky2/src/plonk/circuit_data.rs::CircuitData::from_bytes",
    "plonky2/src/plonk/circuit_data.rs::ProverCircuitData::to_bytes",
    "plonky2/src/plonk/circuit_data.rs::VerifierCircuitData::to_bytes",
    "plonky2/src/plonk/circuit_data.rs::CommonCircuitData::to_bytes",
    "plonky2/src/plonk/proof.rs::ProofWithPublicInputs::to_bytes",
    "plonky2/src/plonk/proof.rs::CompressedProofWithPublicInputs::to_bytes",
];

type Built<C> = (CircuitData<G, C, 2>, PartialWitness<G>);

/// arithmetic, random access of several list sizes (so that bits != num_copies), exponentiation,
/// base-2 splits and sums, range check, equality, selection, extension arithmetic, constants
fn arith<C: GenericConfig<2, F = G>>(cfg: CircuitConfig) -> Built<C> {
    let mut b = CircuitBuilder::<G, 2>::new(cfg);
    let x = b.add_virtual_target();
    let y = b.add_virtual_target();
    let xy = b.mul(x, y);
    let s = b.add(xy, x);
    let e = b.exp_u64(s, 11);
    let q = b.div(e, y);
    let bits = b.split_le(x, 10);
    let back = b.le_sum(bits.iter());
    b.connect(back, x);
    b.range_check(x, 12);
    let three = b.constant(G::from_canonical_u64(3));
    let idx8 = b.le_sum(bits[..3].iter());
    let list8: Vec<Target> = vec![x, y, xy, s, e, q, three, back];
    let r8 = b.random_access(idx8, list8);
    let idx2 = bits[0].target;
    let r2 = b.random_access(idx2, vec![s, e]);
    let idx32 = b.le_sum(bits[..5].iter());
    let list32: Vec<Target> = (0..32).map(|i| if i % 2 == 0 { x } else { xy }).collect();
    let r32 = b.random_access(idx32, list32);
    let eqb = b.is_equal(r2, e);
    let sel = b.select(eqb, q, r8);
    let ex = b.add_virtual_extension_target();
    let ey = b.mul_extension(ex, ex);
    let ez = b.div_extension(ey, ex);
    b.connect_extension(ez, ex);
    let w = b.exp(x, idx8, 3);
    for o in [q, r8, r2, r32, sel, w] {
        b.register_public_input(o);
    }
    b.register_public_inputs(&ey.0);
    let data = b.build::<C>();
    let mut pw = PartialWitness::<G>::new();
    pw.set_target(x, G::from_canonical_u64(0x2b5)).unwrap();
    pw.set_target(y, G::from_canonical_u64(0xdead_beef_17)).unwrap();
    pw.set_extension_target(ex, <G as plonky2_field::extension::Extendable<2>>::Extension::from_basefield_array([G::from_canonical_u64(5), G::from_canonical_u64(9)])).unwrap();
    (data, pw)
}

/// two lookup tables, one of them spanning several LookupTableGate rows
fn lookups<C: GenericConfig<2, F = G>>(cfg: CircuitConfig) -> Built<C> {
    let mut b = CircuitBuilder::<G, 2>::new(cfg);
    let t57: Vec<(u16, u16)> = (0..57u16).map(|i| (i, (7 * i + 3) % 101)).collect();
    let t5: Vec<(u16, u16)> = (0..5u16).map(|i| (i + 100, 3 * i + 1)).collect();
    let l57 = b.add_lookup_table_from_pairs(Arc::new(t57));
    let l5 = b.add_lookup_table_from_pairs(Arc::new(t5));
    let a = b.add_virtual_target();
    let c = b.add_virtual_target();
    let o1 = b.add_lookup_from_index(a, l57);
    let o2 = b.add_lookup_from_index(c, l5);
    let k = b.constant(G::from_canonical_u64(56));
    let o3 = b.add_lookup_from_index(k, l57);
    let sum = b.add_many([o1, o2, o3]);
    for o in [o1, o2, o3, sum] {
        b.register_public_input(o);
    }
    let data = b.build::<C>();
    let mut pw = PartialWitness::<G>::new();
    pw.set_target(a, G::from_canonical_u64(41)).unwrap();
    pw.set_target(c, G::from_canonical_u64(102)).unwrap();
    (data, pw)
}

/// a circuit verifying a proof of the arithmetic circuit: Poseidon, Poseidon-MDS, coset
/// interpolation, reducing, extension arithmetic gates and their generators
fn recursion(cfg: CircuitConfig) -> Built<PoseidonGoldilocksConfig> {
    type C = PoseidonGoldilocksConfig;
    let (inner, ipw) = arith::<C>(cfg.clone());
    let inner_proof = inner.prove(ipw).expect("inner proof");
    let mut b = CircuitBuilder::<G, 2>::new(cfg);
    let mut pw = PartialWitness::<G>::new();
    let pt = b.add_virtual_proof_with_pis(&inner.common);
    pw.set_proof_with_pis_target(&pt, &inner_proof).unwrap();
    let vd = b.add_virtual_verifier_data(inner.common.config.fri_config.cap_height);
    pw.set_cap_target(&vd.constants_sigmas_cap, &inner.verifier_only.constants_sigmas_cap).unwrap();
    pw.set_hash_target(vd.circuit_digest, inner.verifier_only.circuit_digest).unwrap();
    b.verify_proof::<C>(&pt, &vd, &inner.common);
    b.add_gate(NoopGate, vec![]);
    for t in pt.public_inputs.iter().take(2) {
        b.register_public_input(*t);
    }
    (b.build::<C>(), pw)
}

fn check<C: GenericConfig<2, F = G> + 'static>(ctx: &mut Ctx, name: &str, what: &str, mk: impl FnOnce() -> Built<C>)
where
    C::Hasher: plonky2::plonk::config::AlgebraicHasher<G>,
{
    let idp = format!("C17.S.codec.{name}");
    ctx.guarded(&idp.clone(), FILES, |ctx| {
        let (data, pw) = mk();
        let gs = DefaultGateSerializer;
        let ws = DefaultGeneratorSerializer::<C, 2> { _phantom: std::marker::PhantomData };
        let mut facts: Vec<(&str, bool)> = vec![];
        let bytes = data.to_bytes(&gs, &ws);
        facts.push(("CircuitData::to_bytes succeeds", bytes.is_ok()));
        let restored = bytes.as_ref().ok().and_then(|b| CircuitData::<G, C, 2>::from_bytes(b, &gs, &ws).ok());
        facts.push(("CircuitData::from_bytes succeeds", restored.is_some()));
        let proof = data.prove(pw.clone());
        facts.push(("the original circuit proves", proof.is_ok()));
        if let (Some(restored), Ok(proof)) = (restored, proof) {
            facts.push(("restored circuit == original (all three parts)", restored == data));
            facts.push(("same digest", restored.verifier_only.circuit_digest == data.verifier_only.circuit_digest));
            facts.push(("re-encoding the restored circuit gives the same bytes", restored.to_bytes(&gs, &ws).ok() == bytes.as_ref().ok().cloned()));
            let proof2 = std::panic::catch_unwind(std::panic::AssertUnwindSafe(|| restored.prove(pw.clone())));
            let proof2 = match proof2 {
                Ok(Ok(p)) => Some(p),
                _ => None,
            };
            facts.push(("the restored circuit proves the same inputs", proof2.is_some()));
            if let Some(p2) = proof2 {
                facts.push(("same public inputs", p2.public_inputs == proof.public_inputs));
                facts.push(("the original verifier accepts the restored prover's proof", data.verify(p2).is_ok()));
            }
            facts.push(("the restored verifier accepts the original proof", matches!(std::panic::catch_unwind(std::panic::AssertUnwindSafe(|| restored.verify(proof.clone()))), Ok(Ok(())))));
            // the parts
            let vdata = data.verifier_data();
            let vb = vdata.to_bytes(&gs);
            let v2 = vb.as_ref().ok().and_then(|b| VerifierCircuitData::<G, C, 2>::from_bytes(b.clone(), &gs).ok());
            facts.push(("VerifierCircuitData round-trips", v2.as_ref().map_or(false, |v| *v == vdata)));
            facts.push(("the restored verifier data accepts the proof", v2.map_or(false, |v| matches!(std::panic::catch_unwind(std::panic::AssertUnwindSafe(|| v.verify(proof.clone()))), Ok(Ok(()))))));
            let cb = data.common.to_bytes(&gs);
            let c2 = cb.as_ref().ok().and_then(|b| CommonCircuitData::<G, 2>::from_bytes(b.clone(), &gs).ok());
            facts.push(("CommonCircuitData round-trips", c2.map_or(false, |c| c == data.common)));
            // proofs
            let pb = proof.to_bytes();
            facts.push(("ProofWithPublicInputs round-trips", ProofWithPublicInputs::<G, C, 2>::from_bytes(pb, &data.common).map_or(false, |p| p == proof)));
            let comp = data.compress(proof.clone());
            facts.push(("compress succeeds", comp.is_ok()));
            if let Ok(comp) = comp {
                let cbytes = comp.to_bytes();
                let c2 = CompressedProofWithPublicInputs::<G, C, 2>::from_bytes(cbytes, &data.common);
                facts.push(("CompressedProofWithPublicInputs round-trips", c2.as_ref().map_or(false, |c| *c == comp)));
                facts.push(("the decoded compressed proof verifies", c2.map_or(false, |c| data.verify_compressed(c).is_ok())));
            }
            let pdata: ProverCircuitData<G, C, 2> = data.prover_data();
            let pbytes = pdata.to_bytes(&gs, &ws);
            let p2 = pbytes.as_ref().ok().and_then(|b| ProverCircuitData::<G, C, 2>::from_bytes(b, &gs, &ws).ok());
            facts.push(("ProverCircuitData round-trips", p2.as_ref().map_or(false, |p| p.prover_only == pdata.prover_only && p.common == pdata.common)));
            let p3 = p2.and_then(|p| match std::panic::catch_unwind(std::panic::AssertUnwindSafe(|| p.prove(pw.clone()))) {
                Ok(Ok(x)) => Some(x),
                _ => None,
            });
            facts.push(("the restored prover data proves, and the verifier data accepts", p3.map_or(false, |p| vdata.verify(p).is_ok())));
        }
        let failed: Vec<&str> = facts.iter().filter(|(_, ok)| !ok).map(|(n, _)| *n).collect();
        ctx.add(
            Ob::new(idp.clone(), FILES, format!("{what}; one concrete input; default gate / generator serializers; native run"))
                .sample(format!("{} facts: encodings of the circuit, its prover / verifier / common parts, a proof and its compressed form decode to equal values; the restored circuit has the same digest, proves, and each side accepts the other's proofs; failed: {failed:?}", facts.len()))
                .goals(facts.iter().map(|(_, ok)| A::Bool(*ok)).collect())
                .key(format!("codec:circuit-roundtrip:{}", failed.first().copied().unwrap_or("-"))),
        );
    });
}

pub fn family(ctx: &mut Ctx) {
    if ctx.is_witness_run() {
        return;
    }
    let std_cfg = CircuitConfig::standard_recursion_config();
    let mut zk = CircuitConfig::standard_recursion_zk_config();
    zk.fri_config.cap_height = 2;
    let mut narrow = CircuitConfig::standard_recursion_config();
    narrow.num_routed_wires = 37;
    narrow.num_challenges = 3;
    narrow.fri_config.reduction_strategy = plonky2::fri::reduction_strategies::FriReductionStrategy::Fixed(vec![2, 1]);
    check::<PoseidonGoldilocksConfig>(ctx, "arith.standard", "arithmetic / random access (lists of 2, 8, 32) / exponentiation / base-2 split / range check / select / extension circuit, standard config, Poseidon", || arith(std_cfg.clone()));
    check::<PoseidonGoldilocksConfig>(ctx, "arith.narrow", "the same circuit with 37 routed wires, 3 challenges, FRI arities [4, 2] (the default generator serializer needs an algebraic hasher: Keccak configurations are outside)", || arith(narrow.clone()));
    check::<PoseidonGoldilocksConfig>(ctx, "arith.zk", "the same circuit with zero-knowledge blinding, cap height 2", || arith(zk.clone()));
    check::<PoseidonGoldilocksConfig>(ctx, "lookups", "two lookup tables (57 entries over several LookupTableGate rows, and 5 entries), three lookups", || lookups(std_cfg.clone()));
    check::<PoseidonGoldilocksConfig>(ctx, "lookups.zk", "the lookup circuit with zero-knowledge blinding", || lookups(CircuitConfig::standard_recursion_zk_config()));
    check::<PoseidonGoldilocksConfig>(ctx, "recursion", "a circuit verifying a proof of the arithmetic circuit (Poseidon, Poseidon-MDS, coset interpolation, reducing, extension gates)", || recursion(std_cfg.clone()));
}
