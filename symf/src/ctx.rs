//! Obligation plumbing shared by the symbolic run (F = SymF: emit SMT) and the native replay
//! (F = GoldilocksField: evaluate a solver model against the real code).
use std::collections::HashMap;
use std::sync::Mutex;

use plonky2::hash::hash_types::RichField;
use plonky2_field::extension::{Extendable, FieldExtension};
use plonky2_field::goldilocks_field::GoldilocksField as G;
use plonky2_field::types::Field;
use serde::Serialize;

use crate::{smt, Atom, EqMode, Op, SymF};

pub static MODEL: Mutex<Option<HashMap<String, u64>>> = Mutex::new(None);

/// The field a family of obligations is generic over.
pub trait VF: RichField + Extendable<2> {
    const SYMBOLIC: bool;
    /// symbolic: a named variable; native: the model's value for that name (0 if absent)
    fn var(name: &str) -> Self;
    fn ext(name: &str) -> <Self as Extendable<2>>::Extension {
        <<Self as Extendable<2>>::Extension as FieldExtension<2>>::from_basefield_array([
            Self::var(&format!("{name}.0")),
            Self::var(&format!("{name}.1")),
        ])
    }
    fn to_op(&self) -> Op;
    /// Run a verifier-like closure in accept-path mode. Returns whether it returned Ok (on the
    /// all-comparisons-equal path) and the recorded equality atoms (empty natively).
    fn accept<T, E>(f: impl FnOnce() -> Result<T, E>) -> (bool, Vec<(Op, Op)>);
    /// Cut points: replace each symbolic value by a fresh symbol; returns (symbols, definitions)
    /// where definition k is value k with every *other* cut value replaced by its symbol.
    /// Natively both are the values themselves.
    fn cut(vals: &[Self], prefix: &str) -> (Vec<Self>, Vec<Self>) {
        let _ = prefix;
        (vals.to_vec(), vals.to_vec())
    }
    /// Run `f` with undetermined symbolic comparisons (guards such as `if x.is_one()` /
    /// `if x == 0` in library code) taken as *unequal*; each such decision is added to the path
    /// hypotheses of the obligations emitted afterwards and reported in their assumptions.
    /// Natively a no-op.
    fn assume_ne<R>(f: impl FnOnce() -> R) -> R {
        f()
    }
    /// multiplicative factors of the term: x == 0 iff some factor == 0 (natively: [x])
    fn factors(x: Self) -> Vec<Self> {
        vec![x]
    }
    /// total degree of the (division-free) term in the listed symbols, every other symbol being a
    /// constant; natively `None` (callers fall back to finite differences along a line)
    fn degree_in(term: Self, vars: &[Self]) -> Option<usize> {
        let _ = (term, vars);
        None
    }
    /// does `term` syntactically depend on symbol `sym`? (natively: true)
    fn mentions(term: Self, sym: Self) -> bool {
        let _ = (term, sym);
        true
    }
    type Cfg: plonky2::plonk::config::GenericConfig<
            2,
            F = Self,
            FE = <Self as Extendable<2>>::Extension,
            Hasher = plonky2::hash::poseidon::PoseidonHash,
            InnerHasher = plonky2::hash::poseidon::PoseidonHash,
        > + 'static;
}

#[derive(Debug, Copy, Clone, Default, Eq, PartialEq)]
pub struct SymConfig;
impl plonky2::plonk::config::GenericConfig<2> for SymConfig {
    type F = SymF;
    type FE = plonky2_field::extension::quadratic::QuadraticExtension<SymF>;
    type Hasher = plonky2::hash::poseidon::PoseidonHash;
    type InnerHasher = plonky2::hash::poseidon::PoseidonHash;
}

impl VF for SymF {
    const SYMBOLIC: bool = true;
    fn var(name: &str) -> Self {
        SymF::var(name)
    }
    fn to_op(&self) -> Op {
        self.op()
    }
    fn accept<T, E>(f: impl FnOnce() -> Result<T, E>) -> (bool, Vec<(Op, Op)>) {
        let saved: Vec<(Op, Op)> = crate::with(|a| core::mem::take(&mut a.recorded));
        // restored on unwind too (a caller may catch a panic of the verifier under test)
        struct Restore(Option<(EqMode, bool, Vec<(Op, Op)>)>);
        impl Restore {
            fn finish(&mut self) -> Vec<(Op, Op)> {
                let (m, p, saved) = self.0.take().unwrap();
                crate::set_placeholders(p);
                crate::set_mode(m);
                crate::with(|a| core::mem::replace(&mut a.recorded, saved))
            }
        }
        impl Drop for Restore {
            fn drop(&mut self) {
                if self.0.is_some() {
                    self.finish();
                }
            }
        }
        let old = crate::set_mode(EqMode::Record);
        // Hasher::hash_or_noop round-trips short leaves through to_canonical_u64/from_canonical_u64
        let oldp = crate::set_placeholders(true);
        let mut g = Restore(Some((old, oldp, saved)));
        let r = f();
        let atoms = g.finish();
        (r.is_ok(), atoms)
    }
    fn cut(vals: &[Self], prefix: &str) -> (Vec<Self>, Vec<Self>) {
        let mut map: HashMap<u32, Op> = HashMap::new();
        let mut syms = vec![];
        for (k, v) in vals.iter().enumerate() {
            match v.op() {
                Op::C(_) => syms.push(*v),
                Op::N(i) => {
                    let s = *map.entry(i).or_insert_with(|| SymF::var(&format!("{prefix}{k}")).op());
                    syms.push(SymF::from_op(s));
                }
            }
        }
        let defs = vals.iter().map(|v| SymF::from_op(crate::subst(v.op(), &map, true))).collect();
        (syms, defs)
    }
    fn assume_ne<R>(f: impl FnOnce() -> R) -> R {
        // restored on unwind too, so that a caller may catch a panic of the code under test
        struct Restore(Option<crate::Unknown>);
        impl Drop for Restore {
            fn drop(&mut self) {
                if let Some(u) = self.0.take() {
                    crate::set_unknown(u);
                }
            }
        }
        let _g = Restore(Some(crate::set_unknown(crate::Unknown::AssumeNe)));
        f()
    }
    fn degree_in(term: Self, vars: &[Self]) -> Option<usize> {
        let ids: std::collections::HashSet<u32> = vars.iter().filter_map(|v| if let Op::N(i) = v.op() { Some(i) } else { None }).collect();
        let f = crate::poly::NORM.with(|n| n.borrow_mut().of(term.op()));
        if !f.den.is_empty() {
            return None;
        }
        Some(f.num.t.keys().map(|m| m.iter().filter(|(a, _)| ids.contains(a)).map(|(_, e)| *e as usize).sum::<usize>()).max().unwrap_or(0))
    }
    fn factors(x: Self) -> Vec<Self> {
        crate::factors(x.op()).into_iter().map(SymF::from_op).collect()
    }
    fn mentions(term: Self, sym: Self) -> bool {
        match sym.op() {
            Op::C(_) => true,
            Op::N(i) => crate::mentions(term.op(), i),
        }
    }
    type Cfg = SymConfig;
}

impl VF for G {
    const SYMBOLIC: bool = false;
    fn var(name: &str) -> Self {
        let g = MODEL.lock().unwrap();
        let m = g.as_ref();
        if let Some(v) = m.and_then(|m| m.get(name).copied()) {
            return G::from_noncanonical_u64(v);
        }
        // witness mode: unnamed inputs are pseudo-random (seeded), perturbations are zero
        if let Some(seed) = m.and_then(|m| m.get("__random_seed__").copied()) {
            if name.starts_with("delta") {
                return G::ZERO;
            }
            let mut h: u64 = seed ^ 0x9E37_79B9_7F4A_7C15;
            for b in name.bytes() {
                h = (h ^ b as u64).wrapping_mul(0x100_0000_01B3);
                h ^= h >> 29;
            }
            return G::from_noncanonical_u64(h.wrapping_mul(0xD6E8_FEB8_6659_FD93));
        }
        G::ZERO
    }
    fn to_op(&self) -> Op {
        use plonky2_field::types::PrimeField64;
        Op::C(self.to_canonical_u64())
    }
    fn accept<T, E>(f: impl FnOnce() -> Result<T, E>) -> (bool, Vec<(Op, Op)>) {
        (f().is_ok(), vec![])
    }
    type Cfg = plonky2::plonk::config::PoseidonGoldilocksConfig;
}

/// Hypothesis / goal atoms over the generic field.
#[derive(Clone, Debug)]
pub enum A {
    Eq(Op, Op),
    /// definitional hypothesis symbol == term
    Def(Op, Op),
    Ne(Op, Op),
    AnyNe(Vec<(Op, Op)>),
    AnyEq(Vec<(Op, Op)>),
    /// acceptance of a verifier run: ok-flag and recorded atoms
    Accept(bool, Vec<(Op, Op)>),
    Bool(bool),
}

pub fn eq<F: VF>(a: F, b: F) -> A {
    A::Eq(a.to_op(), b.to_op())
}
pub fn def<F: VF>(sym: F, term: F) -> A {
    A::Def(sym.to_op(), term.to_op())
}
/// x == 0, stated through the zero-product law over the syntactic factors of x
pub fn eqz_factored<F: VF>(x: F) -> A {
    let fs = F::factors(x);
    if fs.len() == 1 {
        return eq(x, F::ZERO);
    }
    A::AnyEq(fs.into_iter().map(|f| (f.to_op(), Op::C(0))).collect())
}
pub fn ne<F: VF>(a: F, b: F) -> A {
    A::Ne(a.to_op(), b.to_op())
}
pub fn eq_ext<F: VF>(a: F::Extension, b: F::Extension) -> Vec<A> {
    let (x, y) = (a.to_basefield_array(), b.to_basefield_array());
    vec![eq(x[0], y[0]), eq(x[1], y[1])]
}
pub fn is_zero_ext<F: VF>(a: F::Extension) -> Vec<A> {
    let x = a.to_basefield_array();
    vec![eq(x[0], F::ZERO), eq(x[1], F::ZERO)]
}

impl A {
    fn to_atoms(&self) -> Vec<Atom> {
        match self {
            A::Eq(a, b) => vec![Atom::Eq(*a, *b)],
            A::Def(a, b) => vec![Atom::Def(*a, *b)],
            A::Ne(a, b) => vec![Atom::Ne(*a, *b)],
            A::AnyNe(v) => vec![Atom::AnyNe(v.clone())],
            A::AnyEq(v) => vec![Atom::AnyEq(v.clone())],
            A::Accept(ok, atoms) => {
                if !*ok {
                    vec![Atom::False]
                } else {
                    vec![Atom::AllEq(atoms.clone())]
                }
            }
            A::Bool(b) => {
                if *b {
                    vec![]
                } else {
                    vec![Atom::False]
                }
            }
        }
    }
    /// concrete truth value (native replay: every Op is a constant)
    fn truth(&self) -> bool {
        let c = |o: &Op| match o {
            Op::C(v) => *v,
            Op::N(_) => panic!("symbolic op in native evaluation"),
        };
        match self {
            A::Eq(a, b) | A::Def(a, b) => c(a) == c(b),
            A::Ne(a, b) => c(a) != c(b),
            A::AnyNe(v) => v.iter().any(|(a, b)| c(a) != c(b)),
            A::AnyEq(v) => v.iter().any(|(a, b)| c(a) == c(b)),
            A::Accept(ok, atoms) => *ok && atoms.iter().all(|(a, b)| c(a) == c(b)),
            A::Bool(b) => *b,
        }
    }
}

#[derive(Serialize, Clone, Debug)]
pub struct ObMeta {
    pub id: String,
    pub functions: Vec<String>,
    pub bounds: String,
    pub assumptions: Vec<String>,
    pub sample: String,
    /// smt file (relative to the output dir); None when closed syntactically
    pub smt: Option<String>,
    /// vacuity twin (hypotheses only; must be sat)
    pub vacuity: Option<String>,
    /// "holds" when closed without a solver query
    pub closed: Option<String>,
    /// map smt variable name -> harness variable name
    pub vars: HashMap<String, String>,
    pub nodes: usize,
    /// only z3 5.x is expected to decide it (Inv / domain axioms)
    pub single_solver: bool,
    pub finding_key: String,
    /// counterexample candidate found by the algebraic model search (file with name -> value)
    pub candidate: Option<String>,
}

pub struct Ob {
    pub id: String,
    pub functions: Vec<&'static str>,
    pub bounds: String,
    pub assumptions: Vec<String>,
    pub sample: String,
    pub hyps: Vec<A>,
    /// conjunction; empty = `false` (the hypotheses must be contradictory)
    pub goals: Vec<A>,
    pub domain_axioms: bool,
    pub perm_injective: bool,
    pub finding_key: Option<String>,
}

impl Ob {
    pub fn new(id: impl Into<String>, functions: &[&'static str], bounds: impl Into<String>) -> Self {
        let id = id.into();
        Ob {
            sample: id.clone(),
            id,
            functions: functions.to_vec(),
            bounds: bounds.into(),
            assumptions: vec![],
            hyps: vec![],
            goals: vec![],
            domain_axioms: false,
            perm_injective: false,
            finding_key: None,
        }
    }
    pub fn sample(mut self, s: impl Into<String>) -> Self {
        self.sample = s.into();
        self
    }
    pub fn assume(mut self, s: impl Into<String>) -> Self {
        self.assumptions.push(s.into());
        self
    }
    pub fn hyp(mut self, a: A) -> Self {
        self.hyps.push(a);
        self
    }
    pub fn hyps(mut self, a: Vec<A>) -> Self {
        self.hyps.extend(a);
        self
    }
    pub fn goal(mut self, a: A) -> Self {
        self.goals.push(a);
        self
    }
    pub fn goals(mut self, a: Vec<A>) -> Self {
        self.goals.extend(a);
        self
    }
    pub fn domain(mut self) -> Self {
        self.domain_axioms = true;
        self
    }
    pub fn injective(mut self) -> Self {
        self.perm_injective = true;
        self
    }
    pub fn key(mut self, k: impl Into<String>) -> Self {
        self.finding_key = Some(k.into());
        self
    }
}

pub enum Mode {
    /// write SMT files + index
    Emit { dir: String },
    /// evaluate one obligation natively against a model
    Replay { target: String },
    /// evaluate the hypotheses of every obligation natively on a pseudo-random input
    /// (vacuity witness: hypotheses that hold on a concrete input are satisfiable)
    Witness,
}

pub struct Ctx {
    pub mode: Mode,
    pub tier_thorough: bool,
    pub metas: Vec<ObMeta>,
    pub replay_result: Option<(bool, String)>,
    pub only: Option<String>,
    pub witness: Vec<(String, bool)>,
}

impl Ctx {
    pub fn thorough(&self) -> bool {
        self.tier_thorough
    }
    /// witness runs only establish that hypotheses are satisfiable: groups whose obligations have
    /// no hypotheses (concrete facts) need not be re-run for them
    pub fn is_witness_run(&self) -> bool {
        matches!(self.mode, Mode::Witness)
    }
    /// skip expensive construction of obligations that are not the replay target
    pub fn wants(&self, id_prefix: &str) -> bool {
        match &self.mode {
            Mode::Emit { .. } => self.only.as_ref().map_or(true, |o| id_prefix.contains(o.as_str()) || o.contains(id_prefix)),
            Mode::Replay { target } => target.starts_with(id_prefix),
            Mode::Witness => true,
        }
    }
    /// Run a group of obligations; a panic inside (unexpected concretisation, undetermined
    /// comparison, harness bug) is recorded as an *inconclusive* obligation, never as a pass.
    pub fn guarded(&mut self, idp: &str, functions: &[&'static str], f: impl FnOnce(&mut Ctx)) {
        if !self.wants(idp) {
            return;
        }
        let r = std::panic::catch_unwind(std::panic::AssertUnwindSafe(|| f(self)));
        if r.is_ok() {
            if let Mode::Replay { target } = &self.mode {
                if target == &format!("{idp}.panic") && self.replay_result.is_none() {
                    self.replay_result = Some((false, "the native run of this group does not panic".into()));
                }
            }
        }
        if let Err(e) = r {
            let msg = if let Some(s) = e.downcast_ref::<String>() {
                s.clone()
            } else if let Some(s) = e.downcast_ref::<&str>() {
                s.to_string()
            } else {
                "panic".to_string()
            };
            // leave the arena usable
            crate::set_mode(EqMode::Decide);
            crate::set_placeholders(false);
            if let Mode::Replay { target } = &self.mode {
                // replay of a recorded harness panic: the same group panics on concrete values too
                if target == &format!("{idp}.panic") {
                    self.replay_result = Some((true, format!("native run panicked: {msg}")));
                }
            }
            if let Mode::Emit { .. } = self.mode {
                self.metas.push(ObMeta {
                    id: format!("{idp}.panic"),
                    functions: functions.iter().map(|s| s.to_string()).collect(),
                    bounds: "-".into(),
                    assumptions: vec![],
                    sample: format!("harness panicked: {msg}"),
                    smt: None,
                    vacuity: None,
                    closed: Some(format!("panic: {msg}")),
                    vars: HashMap::new(),
                    nodes: 0,
                    single_solver: false,
                    candidate: None,
                    finding_key: format!("{idp}.panic"),
                });
            }
        }
    }

    pub fn add(&mut self, ob: Ob) {
        match &self.mode {
            Mode::Emit { dir } => {
                let path_hyps: Vec<Atom> = crate::with(|a| a.path.clone());
                let assumed: Vec<(Op, Op)> = crate::with(|a| a.assumed_ne.clone());
                let mut hyps: Vec<Atom> = path_hyps;
                for h in &ob.hyps {
                    hyps.extend(h.to_atoms());
                }
                let mut goals: Vec<Atom> = vec![];
                for g in &ob.goals {
                    goals.extend(g.to_atoms());
                }
                if !ob.goals.is_empty() && goals.is_empty() {
                    // every goal was a concrete fact that evaluated to true: keep the goal
                    // non-empty (an empty goal list means "goal = false")
                    goals.push(Atom::Eq(Op::C(0), Op::C(0)));
                }
                let mut assumptions = ob.assumptions.clone();
                if !assumed.is_empty() {
                    assumptions.push(format!(
                        "{} undetermined zero-tests taken as non-zero (added as hypotheses)",
                        assumed.len()
                    ));
                }
                let fname = ob.id.replace('/', "_");
                // goal trivially true? (syntactically identical sides)
                let trivial = !ob.goals.is_empty()
                    && goals.iter().all(|g| match g {
                        Atom::Eq(a, b) | Atom::Def(a, b) => a == b,
                        Atom::AllEq(v) => v.iter().all(|(a, b)| a == b),
                        _ => false,
                    });
                let ql = smt::query(&hyps, &goals, true, ob.perm_injective, true);
                let qn = smt::query(&hyps, &goals, false, ob.perm_injective, true);
                let closed_kind = if trivial { Some("syntactic") } else if ql.goals_trivial { Some("normal-form") } else { None };
                // perturbation obligations that are not closed by the preprocessing: look for a
                // counterexample candidate algebraically (the solvers are poor at constructing one)
                let mut candidate = None;
                if closed_kind.is_none() && ob.domain_axioms && !ob.perm_injective {
                    let prep = smt::prepare(&hyps, &goals);
                    if let Some(m) = crate::modelsearch::search(&prep, 0x5eed ^ hyps.len() as u64, 24) {
                        let mut named: HashMap<String, u64> = HashMap::new();
                        for (atom, v) in m {
                            if let crate::Node::Var(nm) = crate::node_of(atom) {
                                named.insert(nm, v);
                            }
                        }
                        let cf = format!("{}.candidate.json", ob.id.replace('/', "_"));
                        std::fs::write(format!("{}/{}", dir, cf), serde_json::to_string(&named).unwrap()).unwrap();
                        candidate = Some(cf);
                    }
                }
                let vars = qn.vars.clone();
                if ql.n_dens > 0 {
                    assumptions.push(format!("{} inverted quantities are non-zero (the real code panics / returns None otherwise)", ql.n_dens));
                }
                if ob.perm_injective {
                    assumptions.push("ideal-hash model: Poseidon permutation is a free function symbol whose digest lanes are collision-free".into());
                }
                let smt_file = format!("{}.smt2", fname);
                std::fs::write(format!("{}/{}", dir, smt_file), &ql.text).unwrap();
                std::fs::write(format!("{}/{}.nl.smt2", dir, fname), &qn.text).unwrap();
                let has_inv = ql.n_dens > 0;
                let vac = if hyps.is_empty() {
                    None
                } else {
                    // exact (nonlinear) rendering: a `sat` answer is a real model of the hypotheses
                    let vt = smt::query(&hyps, &[Atom::False], false, ob.perm_injective, false);
                    let vf = format!("{}.vac.smt2", fname);
                    std::fs::write(format!("{}/{}", dir, vf), &vt.text).unwrap();
                    Some(vf)
                };
                let nodes = crate::with(|a| a.nodes.len());
                self.metas.push(ObMeta {
                    id: ob.id.clone(),
                    functions: ob.functions.iter().map(|s| s.to_string()).collect(),
                    bounds: ob.bounds.clone(),
                    assumptions,
                    sample: ob.sample.clone(),
                    smt: Some(smt_file),
                    vacuity: vac,
                    closed: closed_kind.map(|s| s.to_string()),
                    vars: vars.values().map(|n| (smt::var_smt_name(n), n.clone())).collect(),
                    nodes,
                    single_solver: has_inv && false,
                    candidate,
                    finding_key: ob.finding_key.clone().unwrap_or_else(|| ob.id.clone()),
                });
            }
            Mode::Witness => {
                let ok = ob.hyps.iter().all(|h| h.truth());
                self.witness.push((ob.id.clone(), ok));
            }
            Mode::Replay { target } => {
                if &ob.id == target {
                    let hyps_ok = ob.hyps.iter().all(|h| h.truth());
                    let goals_ok = !ob.goals.is_empty() && ob.goals.iter().all(|g| g.truth());
                    let reproduced = hyps_ok && !goals_ok;
                    let detail = format!(
                        "hyps={:?} goals={:?}",
                        ob.hyps.iter().map(|h| h.truth()).collect::<Vec<_>>(),
                        ob.goals.iter().map(|g| g.truth()).collect::<Vec<_>>()
                    );
                    self.replay_result = Some((reproduced, detail));
                }
            }
        }
    }
}

/// Total degree of `f` in its `n` arguments (all other symbols constant), at most `cap`.
/// Symbolically: read off the polynomial normal form on fresh symbols `<tag>0..`. Natively (witness
/// and replay runs): restrict `f` to the line a + t b through two points given by the same symbols
/// (model / pseudo-random values) and take the order of the first vanishing forward difference
/// over t = 0..cap+1.
pub fn degree_of<F: VF>(tag: &str, n: usize, cap: usize, f: impl Fn(&[F]) -> Vec<F>) -> usize {
    let a: Vec<F> = (0..n).map(|i| F::var(&format!("{tag}{i}"))).collect();
    if F::SYMBOLIC {
        let out = f(&a);
        return out.iter().map(|o| F::degree_in(*o, &a).expect("division-free term")).max().unwrap_or(0);
    }
    let b: Vec<F> = (0..n).map(|i| F::var(&format!("{tag}dir{i}"))).collect();
    let mut rows: Vec<Vec<F>> = (0..=cap + 1)
        .map(|t| {
            let tt = F::from_canonical_u64(t as u64);
            let x: Vec<F> = a.iter().zip(&b).map(|(p, q)| *p + tt * *q).collect();
            f(&x)
        })
        .collect();
    let mut d = 0;
    loop {
        if rows.iter().all(|r| r.iter().all(|v| *v == F::ZERO)) {
            return d.max(1) - 1;
        }
        if rows.len() == 1 {
            return cap + 1;
        }
        rows = rows.windows(2).map(|w| w[1].iter().zip(&w[0]).map(|(x, y)| *x - *y).collect()).collect();
        d += 1;
    }
}
