//! SMT-LIB emission over unbounded integers; every atom is a congruence modulo p.
//! Reduction mod p is a ring homomorphism Z -> GF(p), so "exists integers with lhs !== rhs
//! (mod p)" iff "exists field elements with lhs != rhs": the encoding is exact.
//!
//! Terms are first brought to the canonical fraction normal form of `poly.rs`; each atom
//! `a == b` becomes "numerator(a - b) == 0 (mod p)" under the hypothesis that every inverted
//! quantity (denominator atom) is non-zero. Two renderings of the same query are produced:
//!  * L ("linearised"): every monomial of degree >= 2 is an opaque Int variable, tied to its
//!    factors only by the zero-product law (m == 0 <=> some factor == 0). `unsat` in L implies
//!    `unsat` of the real query (L over-approximates the models); `sat` in L may be spurious.
//!  * N ("nonlinear"): monomials are spelled out as products; exact.
use std::collections::{BTreeMap, BTreeSet};
use std::fmt::Write as _;
use std::io::Write as _;

use crate::poly::{Mono, Poly, NORM};
use crate::{node_of, with, Atom, Node, Op, Unknown, P};

fn cst(v: u64) -> String {
    // signed representative: keeps coefficients small
    if v > P / 2 {
        format!("(- {})", P - v)
    } else {
        format!("{}", v)
    }
}

pub fn var_smt_name(name: &str) -> String {
    let mut s = String::from("v_");
    for ch in name.chars() {
        if ch.is_ascii_alphanumeric() || ch == '_' || ch == '.' {
            s.push(ch);
        } else {
            s.push_str(&format!("!{:x}!", ch as u32));
        }
    }
    s
}

pub struct Emit {
    linear: bool,
    decls: String,
    atoms_done: BTreeSet<u32>,
    pub vars: BTreeMap<u32, String>,
    monos: BTreeMap<Mono, String>,
    perm_states: BTreeMap<Vec<Op>, Vec<String>>, // state -> rendered args
    body: Vec<String>,
}

impl Emit {
    pub fn new(linear: bool) -> Self {
        Emit {
            linear,
            decls: String::new(),
            atoms_done: BTreeSet::new(),
            vars: BTreeMap::new(),
            monos: BTreeMap::new(),
            perm_states: BTreeMap::new(),
            body: vec![],
        }
    }

    fn atom_name(&mut self, id: u32) -> String {
        if self.atoms_done.contains(&id) {
            return format!("a{}", id);
        }
        self.atoms_done.insert(id);
        match node_of(id) {
            Node::Var(s) => {
                let nm = var_smt_name(&s);
                writeln!(self.decls, "(declare-const {} Int)\n(define-fun a{} () Int {})", nm, id, nm).unwrap();
                self.vars.insert(id, s);
            }
            Node::Perm(k, st) => {
                // free function symbol applied to the normalised (mod p) arguments
                let mut args = vec![];
                let mut ok = true;
                for o in &st {
                    let f = NORM.with(|n| n.borrow_mut().of(*o));
                    if !f.den.is_empty() {
                        ok = false;
                        break;
                    }
                    let f = f.num.clone();
                    args.push(format!("(mod {} P)", self.poly(&f)));
                }
                if ok {
                    writeln!(self.decls, "(define-fun a{} () Int (perm{} {}))", id, k, args.join(" ")).unwrap();
                    self.perm_states.entry(st.clone()).or_insert(args);
                } else {
                    writeln!(self.decls, "(declare-const a{} Int)", id).unwrap();
                }
            }
            other => panic!("not an atom: {other:?}"),
        }
        format!("a{}", id)
    }

    fn mono(&mut self, m: &Mono) -> String {
        if m.is_empty() {
            return "1".into();
        }
        if m.len() == 1 && m[0].1 == 1 {
            return self.atom_name(m[0].0);
        }
        if let Some(s) = self.monos.get(m) {
            return s.clone();
        }
        let mut factors = vec![];
        for (a, e) in m {
            let n = self.atom_name(*a);
            for _ in 0..*e {
                factors.push(n.clone());
            }
        }
        let name = format!("m{}", self.monos.len());
        if self.linear {
            writeln!(self.decls, "(declare-const {} Int)", name).unwrap();
        } else {
            writeln!(self.decls, "(define-fun {} () Int (* {}))", name, factors.join(" ")).unwrap();
        }
        // zero-product law (GF(p) is a field): m == 0 <=> some factor == 0
        let mut uniq = factors.clone();
        uniq.dedup();
        let disj: Vec<String> = uniq.iter().map(|f| format!("(= (mod {} P) 0)", f)).collect();
        self.body.push(format!("(assert (= (= (mod {} P) 0) (or {})))", name, disj.join(" ")));
        self.monos.insert(m.clone(), name.clone());
        name
    }

    pub fn poly(&mut self, p: &Poly) -> String {
        if p.t.is_empty() {
            return "0".into();
        }
        let mut parts = vec![];
        for (m, c) in &p.t {
            let ms = self.mono(m);
            if ms == "1" {
                parts.push(cst(*c));
            } else if *c == 1 {
                parts.push(ms);
            } else {
                parts.push(format!("(* {} {})", cst(*c), ms));
            }
        }
        if parts.len() == 1 {
            parts.pop().unwrap()
        } else {
            format!("(+ {})", parts.join(" "))
        }
    }

    fn eqz_poly(&mut self, d: &Poly) -> String {
        if d.is_zero() {
            return "true".into();
        }
        if d.as_constant().is_some() {
            return "false".into();
        }
        format!("(= (mod {} P) 0)", self.poly(d))
    }

    fn patom(&mut self, at: &PAtom) -> String {
        match at {
            PAtom::Eq(d) => self.eqz_poly(d),
            PAtom::Ne(d) => format!("(not {})", self.eqz_poly(d)),
            PAtom::AnyNe(ps) => {
                let v: Vec<String> = ps.iter().map(|d| format!("(not {})", self.eqz_poly(d))).collect();
                format!("(or false {})", v.join(" "))
            }
            PAtom::AllEq(ps) => {
                let v: Vec<String> = ps.iter().map(|d| self.eqz_poly(d)).collect();
                format!("(and true {})", v.join(" "))
            }
            PAtom::AnyEq(ps) => {
                let v: Vec<String> = ps.iter().map(|d| self.eqz_poly(d)).collect();
                format!("(or false {})", v.join(" "))
            }
            PAtom::False => "false".into(),
        }
    }
}

/// atoms after normalisation: each polynomial is the numerator of (lhs - rhs)
#[derive(Clone, Debug)]
pub enum PAtom {
    Eq(Poly),
    Ne(Poly),
    AnyNe(Vec<Poly>),
    AllEq(Vec<Poly>),
    AnyEq(Vec<Poly>),
    False,
}

impl PAtom {
    fn of(at: &Atom) -> PAtom {
        let d = |a: &Op, b: &Op| NORM.with(|n| n.borrow_mut().diff(*a, *b));
        match at {
            Atom::Eq(a, b) | Atom::Def(a, b) => PAtom::Eq(d(a, b)),
            Atom::Ne(a, b) => PAtom::Ne(d(a, b)),
            Atom::AnyNe(v) => PAtom::AnyNe(v.iter().map(|(a, b)| d(a, b)).collect()),
            Atom::AllEq(v) => PAtom::AllEq(v.iter().map(|(a, b)| d(a, b)).collect()),
            Atom::AnyEq(v) => PAtom::AnyEq(v.iter().map(|(a, b)| d(a, b)).collect()),
            Atom::False => PAtom::False,
        }
    }
    fn polys_mut(&mut self) -> Vec<&mut Poly> {
        match self {
            PAtom::Eq(p) | PAtom::Ne(p) => vec![p],
            PAtom::AnyNe(v) | PAtom::AllEq(v) | PAtom::AnyEq(v) => v.iter_mut().collect(),
            PAtom::False => vec![],
        }
    }
}

/// Use a definitional hypothesis `a == R` (a an atom occurring in its polynomial only as the
/// monomial `c*a`, R free of a) to rewrite the *linear* occurrences of `a` in `q` (sound: it
/// substitutes equals; occurrences of `a` inside higher monomials are left alone).
fn rewrite_linear(q: &mut Poly, a: u32, r: &Poly) {
    // a small affine definition (a == b - c, a == const, ...) is substituted everywhere,
    // including inside higher monomials; a big one only at linear occurrences
    let small = r.t.len() <= 4 && r.t.keys().all(|m| m.iter().map(|(_, e)| *e as u32).sum::<u32>() <= 1);
    if small {
        if !q.t.keys().any(|m| m.iter().any(|(x, _)| *x == a)) {
            return;
        }
        let mut out = Poly::zero();
        for (m, c) in &q.t {
            match m.iter().position(|(x, _)| *x == a) {
                None => out = out.add(&Poly { t: [(m.clone(), *c)].into_iter().collect() }),
                Some(pos) => {
                    let e = m[pos].1;
                    let mut rest = m.clone();
                    rest.remove(pos);
                    let base = Poly { t: [(rest, *c)].into_iter().collect() };
                    out = out.add(&base.mul(&r.pow(e)));
                }
            }
        }
        *q = out;
        return;
    }
    let key = vec![(a, 1u16)];
    if let Some(c) = q.t.remove(&key) {
        *q = q.add(&r.scale(c));
    }
}

/// If `d` (numerator of sym - term) has the solved form c*a + rest with `rest` free of `a`,
/// return R = -rest/c.
fn solved_form(d: &Poly, a: u32) -> Option<Poly> {
    let key = vec![(a, 1u16)];
    let c = *d.t.get(&key)?;
    let mut rest = d.clone();
    rest.t.remove(&key);
    for m in rest.t.keys() {
        if m.iter().any(|(x, _)| *x == a) {
            return None;
        }
    }
    Some(rest.scale(crate::poly::invm(c)).neg())
}

pub fn header() -> String {
    let mut s = String::from("(set-logic ALL)\n(define-fun P () Int 18446744069414584321)\n");
    for k in 0..12 {
        writeln!(s, "(declare-fun perm{} (Int Int Int Int Int Int Int Int Int Int Int Int) Int)", k).unwrap();
    }
    s
}

pub struct Query {
    pub text: String,
    pub vars: BTreeMap<u32, String>,
    /// goal closed by normalisation alone (every goal atom rendered `true`)
    pub goals_trivial: bool,
    pub n_dens: usize,
    pub n_monos: usize,
}

/// hyps /\ (denominators non-zero) /\ not(goals); `goals` empty means goal = false.
pub fn query(hyps: &[Atom], goals: &[Atom], linear: bool, perm_injective: bool, get_model: bool) -> Query {
    let prep = prepare(hyps, goals);
    render(&prep, !goals.is_empty(), linear, perm_injective, get_model)
}

/// The obligation's atoms after the encoder's preprocessing (normal form, definitional
/// rewriting, GF(p) row reduction).
pub struct Prepared {
    pub hyps: Vec<PAtom>,
    pub goals: Vec<PAtom>,
    pub dens: Vec<Poly>,
}

pub fn prepare(hyps: &[Atom], goals: &[Atom]) -> Prepared {
    let mut ph: Vec<PAtom> = hyps.iter().map(PAtom::of).collect();
    let mut pg: Vec<PAtom> = goals.iter().map(PAtom::of).collect();
    // every denominator atom registered so far is assumed non-zero
    let mut dens: Vec<Poly> = NORM.with(|n| n.borrow().dens.clone());
    // definitional hypotheses, in order: rewrite linear occurrences everywhere else
    for (i, h) in hyps.iter().enumerate() {
        if let Atom::Def(Op::N(a), _) = h {
            let d = match &ph[i] {
                PAtom::Eq(d) => d.clone(),
                _ => continue,
            };
            if let Some(r) = solved_form(&d, *a) {
                for (j, other) in ph.iter_mut().enumerate() {
                    if j != i {
                        for q in other.polys_mut() {
                            rewrite_linear(q, *a, &r);
                        }
                    }
                }
                for other in pg.iter_mut() {
                    for q in other.polys_mut() {
                        rewrite_linear(q, *a, &r);
                    }
                }
                for q in dens.iter_mut() {
                    rewrite_linear(q, *a, &r);
                }
            }
        }
    }
    // Linear algebra over GF(p) on the equational hypotheses (monomials as unknowns):
    // Gauss-Jordan elimination, then every other polynomial is reduced by the pivot rows. This is
    // equivalence-preserving (row operations with units of GF(p)); integer-arithmetic solvers
    // are erratic on systems of congruences with a 64-bit modulus, so it is done here.
    {
        let mut rows: Vec<Poly> = vec![];
        let mut rest: Vec<PAtom> = vec![];
        let mut contradiction = false;
        for h in ph.drain(..) {
            match h {
                PAtom::Eq(p) => rows.push(p),
                PAtom::AllEq(ps) => rows.extend(ps),
                other => rest.push(other),
            }
        }
        let mut pivots: Vec<(Mono, Poly)> = vec![];
        for mut r in rows {
            for (m, prow) in &pivots {
                if let Some(c) = r.t.get(m).copied() {
                    r = r.sub(&prow.scale(c));
                }
            }
            if r.is_zero() {
                continue;
            }
            if r.as_constant().is_some() {
                contradiction = true;
                continue;
            }
            let (m, c) = r.t.iter().next_back().map(|(m, c)| (m.clone(), *c)).unwrap();
            let r = r.scale(crate::poly::invm(c));
            pivots.push((m, r));
        }
        for k in (0..pivots.len()).rev() {
            let (mk, rk) = pivots[k].clone();
            for j in 0..k {
                if let Some(c) = pivots[j].1.t.get(&mk).copied() {
                    pivots[j].1 = pivots[j].1.sub(&rk.scale(c));
                }
            }
        }
        let reduce = |q: &mut Poly| {
            for (m, prow) in &pivots {
                if let Some(c) = q.t.get(m).copied() {
                    *q = q.sub(&prow.scale(c));
                }
            }
        };
        for a in rest.iter_mut().chain(pg.iter_mut()) {
            for q in a.polys_mut() {
                reduce(q);
            }
        }
        for q in dens.iter_mut() {
            reduce(q);
        }
        ph = pivots.into_iter().map(|(_, r)| PAtom::Eq(r)).collect();
        ph.extend(rest);
        if contradiction {
            ph.push(PAtom::False);
        }
    }
    Prepared { hyps: ph, goals: pg, dens }
}

fn render(prep: &Prepared, has_goals: bool, linear: bool, perm_injective: bool, get_model: bool) -> Query {
    let mut e = Emit::new(linear);
    let (ph, pg, dens) = (&prep.hyps, &prep.goals, &prep.dens);
    let hs: Vec<String> = ph.iter().map(|h| e.patom(h)).collect();
    let gs: Vec<String> = pg.iter().map(|g| e.patom(g)).collect();
    let goals_trivial = has_goals && gs.iter().all(|g| g == "true" || g == "(and true )");
    let mut dn = vec![];
    for d in dens.iter() {
        if d.as_constant().map_or(false, |c| c != 0) {
            continue;
        }
        let ps = e.poly(d);
        dn.push(format!("(assert (not (= (mod {} P) 0)))", ps));
    }
    let mut inj = vec![];
    if perm_injective {
        // ideal-hash model: two applications of the permutation that agree on the digest lanes
        // (outputs 0..4) have congruent inputs. One instance per pair of states.
        let states: Vec<(Vec<Op>, Vec<String>)> = e.perm_states.iter().map(|(k, v)| (k.clone(), v.clone())).collect();
        for x in 0..states.len() {
            for y in (x + 1)..states.len() {
                let (ax, ay) = (&states[x].1, &states[y].1);
                let outs: Vec<String> = (0..4)
                    .map(|k| format!("(= (mod (- (perm{k} {}) (perm{k} {})) P) 0)", ax.join(" "), ay.join(" ")))
                    .collect();
                let ins: Vec<String> = ax.iter().zip(ay.iter()).filter(|(a, b)| a != b).map(|(a, b)| format!("(= {} {})", a, b)).collect();
                inj.push(format!("(assert (=> (and {}) (and true {})))", outs.join(" "), ins.join(" ")));
            }
        }
    }
    let mut s = header();
    s.push_str(&e.decls);
    for b in &e.body {
        s.push_str(b);
        s.push('\n');
    }
    for d in dn {
        s.push_str(&d);
        s.push('\n');
    }
    for i in inj {
        s.push_str(&i);
        s.push('\n');
    }
    for h in hs {
        writeln!(s, "(assert {})", h).unwrap();
    }
    if has_goals {
        writeln!(s, "(assert (not (and true {})))", gs.join(" ")).unwrap();
    }
    s.push_str("(check-sat)\n");
    if get_model {
        s.push_str("(get-model)\n");
    }
    Query { text: s, vars: e.vars, goals_trivial, n_dens: dens.len(), n_monos: e.monos.len() }
}

fn run_z3(text: &str, timeout_s: u32) -> String {
    let mut child = std::process::Command::new("z3-new")
        .arg("-in")
        .arg(format!("-T:{}", timeout_s))
        .stdin(std::process::Stdio::piped())
        .stdout(std::process::Stdio::piped())
        .stderr(std::process::Stdio::null())
        .spawn()
        .expect("z3-new");
    child.stdin.take().unwrap().write_all(text.as_bytes()).unwrap();
    let o = child.wait_with_output().unwrap();
    String::from_utf8_lossy(&o.stdout).lines().next().unwrap_or("").trim().to_string()
}

/// Is `goal` valid under `path`? Some(true) valid, Some(false) refutable (exact N rendering or
/// normal form), None = no answer.
fn valid(path: &[Atom], goal: Atom) -> Option<bool> {
    let l = query(path, &[goal.clone()], true, false, false);
    if l.goals_trivial {
        return Some(true);
    }
    if run_z3(&l.text, 20) == "unsat" {
        return Some(true);
    }
    let n = query(path, &[goal], false, false, false);
    match run_z3(&n.text, 20).as_str() {
        "unsat" => Some(true),
        "sat" => Some(false),
        _ => None,
    }
}

/// Solver-decided equality under the current path hypotheses.
pub fn decide_eq(a: Op, b: Op) -> bool {
    let t0 = std::time::Instant::now();
    let path: Vec<Atom> = with(|ar| ar.path.clone());
    let d = NORM.with(|n| n.borrow_mut().diff(a, b));
    let res: Option<bool> = if d.is_zero() {
        Some(true)
    } else if d.as_constant().is_some() {
        Some(false)
    } else if path.is_empty() {
        // a non-zero polynomial of degree < p is not the zero function and (not being a non-zero
        // constant) has roots in general position: undetermined without hypotheses
        None
    } else if path.iter().all(|h| matches!(h, Atom::Ne(..))) {
        // only disequalities assumed so far (zero-tests taken as non-zero): they cannot force a
        // non-zero polynomial to vanish; `a != b` is known if it is literally one of them
        // (up to a unit), otherwise the comparison is undetermined (and, under AssumeNe,
        // becomes one more assumption). No solver call needed.
        let (dm, _) = d.monic();
        let known = path.iter().any(|h| match h {
            Atom::Ne(x, y) => {
                let e = NORM.with(|n| n.borrow_mut().diff(*x, *y));
                !e.is_zero() && e.monic().0 == dm
            }
            _ => false,
        });
        if known {
            Some(false)
        } else {
            None
        }
    } else {
        match valid(&path, Atom::Eq(a, b)) {
            Some(true) => Some(true),
            Some(false) => match valid(&path, Atom::Ne(a, b)) {
                Some(true) => Some(false),
                Some(false) => None,
                None => panic!("decide_eq: no solver answer (inconclusive comparison)"),
            },
            None => panic!("decide_eq: no solver answer (inconclusive comparison)"),
        }
    };
    with(|ar| {
        ar.decided += 1;
        ar.decide_seconds += t0.elapsed().as_secs_f64();
    });
    match res {
        Some(v) => v,
        None => {
            let pol = with(|ar| ar.unknown.unwrap_or(Unknown::Panic));
            match pol {
                Unknown::Panic => panic!("undetermined comparison of symbolic values {a:?} vs {b:?}"),
                Unknown::AssumeNe => {
                    with(|ar| {
                        ar.path.push(Atom::Ne(a, b));
                        ar.assumed_ne.push((a, b));
                    });
                    false
                }
            }
        }
    }
}
