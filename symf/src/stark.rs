//! C09 / C10 / C11: the STARK crate.
//!
//! The repo's sample STARKs are `#[cfg(test)]`, so four sample `Stark` implementations live here
//! (generic over the field): S1 Fibonacci with public inputs (as starky/src/fibonacci_stark.rs),
//! S2 a 3-column STARK with a degree-3 transition constraint, S3 a logUp lookup STARK, S4 a
//! table of a cross-table-lookup system.  Every obligation executes the *real* generic starky
//! code (`ConstraintConsumer`, `eval_l_0_and_l_last`, `eval_vanishing_poly`,
//! `verify_stark_proof_with_challenges`, `eval_packed_lookups_generic`, `lookup_helper_columns`,
//! `eval_cross_table_lookup_checks`, `cross_table_lookup_data`/`partial_sums`,
//! `verify_cross_table_lookups`, natively also `prove` / `get_challenges` / `verify_stark_proof`,
//! and the `_circuit` twins through a real `CircuitBuilder` + `generate_partial_witness`) on
//! symbolic inputs and compares with a reference written here from the doc comments.
//!
//! Groups (ids `C09.S.stark.*`, `C10.S.stark.*`, `C11.S.stark.*`):
//!  1. consumer.*        Ob9.1  accumulators == sum alpha^(m-1-k) filter_k c_k for every call
//!                              sequence; recursive consumer == native (C11)
//!  2. lagrange.*        Ob9.2  L_0, L_last == Lagrange definition / closed form; circuit twin
//!  3. vanishing.*, rows.*      Ob9.3/9.4 eval_vanishing_poly == reference list; row semantics on
//!                              the real subgroup incl. the wrap-around exemption
//!  4. verify.*          Ob9.3  the real verifier in accept-path mode. The *vanishing stage*
//!                              (everything before `verify_fri_proof`) is isolated by calling the
//!                              same real function on a proof whose FRI final polynomial is one
//!                              coefficient short: symbolically the recorded equalities are then
//!                              exactly the quotient checks, natively the error message tells
//!                              whether they passed.  identity.{sound,complete}: the stage is
//!                              equivalent to the reference identity for BOTH challenge indices;
//!                              pin.*: every opening / public input / quotient chunk is pinned by
//!                              the stage alone (FRI would pin openings regardless, which would
//!                              hide "identity checked for one challenge only"); full.*: the whole
//!                              verifier, honest proof from the real prover natively.
//!  5. lookup.*, ctl.*   Ob10   evaluators == reference; generated helper/Z columns satisfy the
//!                              constraints on every row and reject an absent value / tuple;
//!                              verify_cross_table_lookups acceptance == reference; circuit twins
//!  6. vanishing.*.circuit Ob11.1
//!
//! Three obligations are expected to be reported `violated` on the unmodified tree (findings):
//!  * C11.S.stark.ctl.PairNoHelper.circuit: `eval_cross_table_lookup_checks_circuit`, branch
//!    "no helper column, two column sets", emits the Z-difference constraint with
//!    `constraint_last_row` where the native evaluator uses `constraint_transition`.
//!  * C10.S.stark.lookup.degree0-enforced: a STARK declaring `constraint_degree() == 0` (as
//!    starky/src/permutation_stark.rs does) gets no quotient polynomial, so no constraint - in
//!    particular no lookup constraint - is ever checked; the real prover + verifier accept a trace
//!    whose looked-up value is not in the table.
//!  * C10.S.stark.lookup.next-row-table.helper-columns.satisfy: `lookup_helper_columns` reads the
//!    table / frequencies columns with `eval_table` (honours a next-row component) while
//!    `eval_packed_lookups_generic` reads them with `Column::eval` (silently drops it).
use core::marker::PhantomData;

use hashbrown::HashMap as HbMap;
use plonky2::field::packed::PackedField;
use plonky2::field::polynomial::PolynomialValues;
use plonky2::fri::proof::FriChallenges;
use plonky2::fri::reduction_strategies::FriReductionStrategy;
use plonky2::fri::FriConfig;
use plonky2::hash::hash_types::RichField;
use plonky2::iop::ext_target::ExtensionTarget;
use plonky2::iop::generator::generate_partial_witness;
use plonky2::iop::target::Target;
use plonky2::iop::witness::{PartialWitness, Witness, WitnessWrite};
use plonky2::plonk::circuit_builder::CircuitBuilder;
use plonky2::plonk::circuit_data::CircuitConfig;
use plonky2::util::timing::TimingTree;
use plonky2_field::extension::{Extendable, FieldExtension};
use plonky2_field::types::Field;
use starky::config::StarkConfig;
use starky::constraint_consumer::{ConstraintConsumer, RecursiveConstraintConsumer};
use starky::cross_table_lookup::{verify_cross_table_lookups, CrossTableLookup, TableWithColumns};
use starky::evaluation_frame::{StarkEvaluationFrame, StarkFrame};
use starky::lookup::{Column, Filter, GrandProductChallenge, GrandProductChallengeSet, Lookup};
use starky::proof::{StarkOpeningSet, StarkProof, StarkProofChallenges, StarkProofWithPublicInputs};
use starky::prover::prove;
use starky::stark::Stark;
use starky::verif_hooks as hk;
use starky::verifier::verify_stark_proof_with_challenges;

use crate::ctx::{eq, eq_ext, Ctx, Ob, A, VF};
use crate::fri::{self, Shape};

type Ext<F> = <F as Extendable<2>>::Extension;

fn ext_of<F: VF>(a: F, b: F) -> Ext<F> {
    <Ext<F> as FieldExtension<2>>::from_basefield_array([a, b])
}
fn emb<F: VF>(a: F) -> Ext<F> {
    ext_of::<F>(a, F::ZERO)
}
fn pow<E: Field>(x: E, k: usize) -> E {
    (0..k).fold(E::ONE, |a, _| a * x)
}


/// Extension-field inversion first tests `is_zero()` (limb-wise comparison with 0), which is
/// undetermined for a symbolic element. The comparison is taken as "not zero"; the path atom this
/// leaves behind is dropped again because the inversion itself registers the element's norm as a
/// denominator atom (assumed non-zero in every query), which is the exact condition: the real
/// code behaves identically for every non-zero element and panics for zero.
fn nonzero_inverses<R>(f: impl FnOnce() -> R) -> R {
    let (pl, al) = crate::with(|a| (a.path.len(), a.assumed_ne.len()));
    let old = crate::set_unknown(crate::Unknown::AssumeNe);
    let r = f();
    crate::set_unknown(old);
    crate::with(|a| {
        a.path.truncate(pl);
        a.assumed_ne.truncate(al);
    });
    r
}

// ------------------------------------------------------------------------------------------
// sample STARKs
// ------------------------------------------------------------------------------------------

/// S1: exactly the constraints of starky/src/fibonacci_stark.rs.
#[derive(Copy, Clone, Debug)]
pub struct Fib<F, const D: usize>(PhantomData<F>);

impl<F: RichField + Extendable<D>, const D: usize> Stark<F, D> for Fib<F, D> {
    type EvaluationFrame<FE, P, const D2: usize>
        = StarkFrame<P, P::Scalar, 2, 3>
    where
        FE: FieldExtension<D2, BaseField = F>,
        P: PackedField<Scalar = FE>;
    type EvaluationFrameTarget = StarkFrame<ExtensionTarget<D>, ExtensionTarget<D>, 2, 3>;

    fn eval_packed_generic<FE, P, const D2: usize>(&self, vars: &Self::EvaluationFrame<FE, P, D2>, yield_constr: &mut ConstraintConsumer<P>)
    where
        FE: FieldExtension<D2, BaseField = F>,
        P: PackedField<Scalar = FE>,
    {
        let lv = vars.get_local_values();
        let nv = vars.get_next_values();
        let pi = vars.get_public_inputs();
        yield_constr.constraint_first_row(lv[0] - pi[0]);
        yield_constr.constraint_first_row(lv[1] - pi[1]);
        yield_constr.constraint_last_row(lv[1] - pi[2]);
        yield_constr.constraint_transition(nv[0] - lv[1]);
        yield_constr.constraint_transition(nv[1] - lv[0] - lv[1]);
    }

    fn eval_ext_circuit(&self, builder: &mut CircuitBuilder<F, D>, vars: &Self::EvaluationFrameTarget, yield_constr: &mut RecursiveConstraintConsumer<F, D>) {
        let lv = vars.get_local_values();
        let nv = vars.get_next_values();
        let pi = vars.get_public_inputs();
        let c0 = builder.sub_extension(lv[0], pi[0]);
        let c1 = builder.sub_extension(lv[1], pi[1]);
        let c2 = builder.sub_extension(lv[1], pi[2]);
        yield_constr.constraint_first_row(builder, c0);
        yield_constr.constraint_first_row(builder, c1);
        yield_constr.constraint_last_row(builder, c2);
        let t0 = builder.sub_extension(nv[0], lv[1]);
        yield_constr.constraint_transition(builder, t0);
        let t1 = builder.sub_extension(nv[1], lv[0]);
        let t1 = builder.sub_extension(t1, lv[1]);
        yield_constr.constraint_transition(builder, t1);
    }

    fn constraint_degree(&self) -> usize {
        2
    }
}

/// S2: columns (x, y, z), public inputs (p_first, p_last, p_c):
///   first row: x = p_first;  transition: x' = x*y*z (degree 3);  every row: z = y + p_c;
///   transition: y' = y + z;  last row: x = p_last.
#[derive(Copy, Clone, Debug)]
pub struct Cubic<F, const D: usize>(PhantomData<F>);

impl<F: RichField + Extendable<D>, const D: usize> Stark<F, D> for Cubic<F, D> {
    type EvaluationFrame<FE, P, const D2: usize>
        = StarkFrame<P, P::Scalar, 3, 3>
    where
        FE: FieldExtension<D2, BaseField = F>,
        P: PackedField<Scalar = FE>;
    type EvaluationFrameTarget = StarkFrame<ExtensionTarget<D>, ExtensionTarget<D>, 3, 3>;

    fn eval_packed_generic<FE, P, const D2: usize>(&self, vars: &Self::EvaluationFrame<FE, P, D2>, yield_constr: &mut ConstraintConsumer<P>)
    where
        FE: FieldExtension<D2, BaseField = F>,
        P: PackedField<Scalar = FE>,
    {
        let lv = vars.get_local_values();
        let nv = vars.get_next_values();
        let pi = vars.get_public_inputs();
        yield_constr.constraint_first_row(lv[0] - pi[0]);
        yield_constr.constraint_transition(nv[0] - lv[0] * lv[1] * lv[2]);
        yield_constr.constraint(lv[2] - lv[1] - pi[2]);
        yield_constr.constraint_transition(nv[1] - lv[1] - lv[2]);
        yield_constr.constraint_last_row(lv[0] - pi[1]);
    }

    fn eval_ext_circuit(&self, builder: &mut CircuitBuilder<F, D>, vars: &Self::EvaluationFrameTarget, yield_constr: &mut RecursiveConstraintConsumer<F, D>) {
        let lv = vars.get_local_values();
        let nv = vars.get_next_values();
        let pi = vars.get_public_inputs();
        let c0 = builder.sub_extension(lv[0], pi[0]);
        yield_constr.constraint_first_row(builder, c0);
        let xy = builder.mul_extension(lv[0], lv[1]);
        let xyz = builder.mul_extension(xy, lv[2]);
        let c1 = builder.sub_extension(nv[0], xyz);
        yield_constr.constraint_transition(builder, c1);
        let c2 = builder.sub_extension(lv[2], lv[1]);
        let c2 = builder.sub_extension(c2, pi[2]);
        yield_constr.constraint(builder, c2);
        let c3 = builder.sub_extension(nv[1], lv[1]);
        let c3 = builder.sub_extension(c3, lv[2]);
        yield_constr.constraint_transition(builder, c3);
        let c4 = builder.sub_extension(lv[0], pi[1]);
        yield_constr.constraint_last_row(builder, c4);
    }

    fn constraint_degree(&self) -> usize {
        3
    }
}

/// S3: columns (a, b, t, m, f): the values of column a (always) and of column b (on rows with
/// f = 1) are looked up in the table column t with multiplicities m.  Own constraint: f boolean.
/// `deg` is the declared constraint degree (3: both looking columns share one helper column,
/// 2: one helper column each).
#[derive(Copy, Clone, Debug)]
pub struct LookupS<F, const D: usize> {
    pub deg: usize,
    /// the table column is read from the NEXT row (`Column::single_next_row`)
    pub next_table: bool,
    _p: PhantomData<F>,
}

impl<F: RichField + Extendable<D>, const D: usize> Stark<F, D> for LookupS<F, D> {
    type EvaluationFrame<FE, P, const D2: usize>
        = StarkFrame<P, P::Scalar, 5, 0>
    where
        FE: FieldExtension<D2, BaseField = F>,
        P: PackedField<Scalar = FE>;
    type EvaluationFrameTarget = StarkFrame<ExtensionTarget<D>, ExtensionTarget<D>, 5, 0>;

    fn eval_packed_generic<FE, P, const D2: usize>(&self, vars: &Self::EvaluationFrame<FE, P, D2>, yield_constr: &mut ConstraintConsumer<P>)
    where
        FE: FieldExtension<D2, BaseField = F>,
        P: PackedField<Scalar = FE>,
    {
        let lv = vars.get_local_values();
        yield_constr.constraint(lv[4] * lv[4] - lv[4]);
    }

    fn eval_ext_circuit(&self, builder: &mut CircuitBuilder<F, D>, vars: &Self::EvaluationFrameTarget, yield_constr: &mut RecursiveConstraintConsumer<F, D>) {
        let lv = vars.get_local_values();
        let c = builder.mul_sub_extension(lv[4], lv[4], lv[4]);
        yield_constr.constraint(builder, c);
    }

    fn constraint_degree(&self) -> usize {
        self.deg
    }

    fn lookups(&self) -> Vec<Lookup<F>> {
        vec![Lookup {
            columns: vec![Column::single(0), Column::single(1)],
            table_column: if self.next_table { Column::single_next_row(2) } else { Column::single(2) },
            frequencies_column: Column::single(3),
            filter_columns: vec![Filter::default(), Filter::new_simple(Column::single(4))],
        }]
    }
}

/// S4: a table of a cross-table-lookup system: columns (v0, v1, f); no constraints of its own.
#[derive(Copy, Clone, Debug)]
pub struct CtlS<F, const D: usize>(PhantomData<F>);

impl<F: RichField + Extendable<D>, const D: usize> Stark<F, D> for CtlS<F, D> {
    type EvaluationFrame<FE, P, const D2: usize>
        = StarkFrame<P, P::Scalar, 3, 0>
    where
        FE: FieldExtension<D2, BaseField = F>,
        P: PackedField<Scalar = FE>;
    type EvaluationFrameTarget = StarkFrame<ExtensionTarget<D>, ExtensionTarget<D>, 3, 0>;

    fn eval_packed_generic<FE, P, const D2: usize>(&self, _vars: &Self::EvaluationFrame<FE, P, D2>, _yield_constr: &mut ConstraintConsumer<P>)
    where
        FE: FieldExtension<D2, BaseField = F>,
        P: PackedField<Scalar = FE>,
    {
    }

    fn eval_ext_circuit(&self, _builder: &mut CircuitBuilder<F, D>, _vars: &Self::EvaluationFrameTarget, _yield_constr: &mut RecursiveConstraintConsumer<F, D>) {}

    fn constraint_degree(&self) -> usize {
        3
    }

    fn requires_ctls(&self) -> bool {
        true
    }
}

// ------------------------------------------------------------------------------------------
// reference semantics (written from the doc comments, independent of the code under test)
// ------------------------------------------------------------------------------------------

#[derive(Copy, Clone, Debug, PartialEq, Eq)]
pub enum K {
    All,
    Trans,
    First,
    Last,
}
const KINDS: [K; 4] = [K::All, K::Trans, K::First, K::Last];

/// sum_k alpha^(m-1-k) * filter_k * c_k with filters (1, z_last, L_first, L_last)
fn combine_ref<E: Field>(cs: &[(K, E)], alpha: E, z_last: E, l_first: E, l_last: E) -> E {
    let m = cs.len();
    let mut s = E::ZERO;
    for (k, (kind, c)) in cs.iter().enumerate() {
        let filt = match kind {
            K::All => E::ONE,
            K::Trans => z_last,
            K::First => l_first,
            K::Last => l_last,
        };
        s += pow(alpha, m - 1 - k) * filt * *c;
    }
    s
}

/// the constraint list of S1, in order
fn fib_ref<E: Field>(lv: &[E], nv: &[E], pi: &[E]) -> Vec<(K, E)> {
    vec![
        (K::First, lv[0] - pi[0]),
        (K::First, lv[1] - pi[1]),
        (K::Last, lv[1] - pi[2]),
        (K::Trans, nv[0] - lv[1]),
        (K::Trans, nv[1] - (lv[0] + lv[1])),
    ]
}

/// the constraint list of S2, in order
fn cubic_ref<E: Field>(lv: &[E], nv: &[E], pi: &[E]) -> Vec<(K, E)> {
    vec![
        (K::First, lv[0] - pi[0]),
        (K::Trans, nv[0] - lv[0] * (lv[1] * lv[2])),
        (K::All, lv[2] - (lv[1] + pi[2])),
        (K::Trans, nv[1] - (lv[1] + lv[2])),
        (K::Last, lv[0] - pi[1]),
    ]
}

/// Lagrange basis polynomial of the subgroup point h_j = g^j, by its definition
/// prod_{k != j} (x - h_k) / (h_j - h_k)
fn lagrange_def<E: Field>(log_n: usize, j: usize, x: E) -> E {
    let n = 1usize << log_n;
    let g = E::primitive_root_of_unity(log_n);
    let h: Vec<E> = (0..n).map(|k| pow(g, k)).collect();
    let mut num = E::ONE;
    let mut den = E::ONE;
    for k in 0..n {
        if k != j {
            num *= x - h[k];
            den *= h[j] - h[k];
        }
    }
    num * den.inverse()
}

fn all_seqs(len: usize) -> Vec<Vec<K>> {
    let mut out = vec![vec![]];
    for _ in 0..len {
        let mut nx = vec![];
        for s in &out {
            for k in KINDS {
                let mut t = s.clone();
                t.push(k);
                nx.push(t);
            }
        }
        out = nx;
    }
    out
}

// ------------------------------------------------------------------------------------------
// circuit helper: run a fragment built with the real CircuitBuilder through the real generators
// ------------------------------------------------------------------------------------------

struct Circ<F: VF> {
    b: CircuitBuilder<F, 2>,
    ext_in: Vec<(ExtensionTarget<2>, Ext<F>)>,
    base_in: Vec<(Target, F)>,
}

impl<F: VF> Circ<F> {
    fn new() -> Self {
        Circ { b: CircuitBuilder::<F, 2>::new(CircuitConfig::standard_recursion_config()), ext_in: vec![], base_in: vec![] }
    }
    fn ext(&mut self, v: Ext<F>) -> ExtensionTarget<2> {
        let t = self.b.add_virtual_extension_target();
        self.ext_in.push((t, v));
        t
    }
    fn exts(&mut self, v: &[Ext<F>]) -> Vec<ExtensionTarget<2>> {
        v.iter().map(|x| self.ext(*x)).collect()
    }
    fn base(&mut self, v: F) -> Target {
        let t = self.b.add_virtual_target();
        self.base_in.push((t, v));
        t
    }
    /// real `build`, real `generate_partial_witness`; values of the output targets
    fn run(self, outs: &[ExtensionTarget<2>]) -> Vec<Ext<F>> {
        let Circ { b, ext_in, base_in } = self;
        let data = b.build::<F::Cfg>();
        let mut pw = PartialWitness::<F>::new();
        for (t, v) in &ext_in {
            pw.set_extension_target(*t, *v).unwrap();
        }
        for (t, v) in &base_in {
            pw.set_target(*t, *v).unwrap();
        }
        let wit = generate_partial_witness(pw, &data.prover_only, &data.common).expect("witness generation");
        let vals = outs.iter().map(|t| wit.get_extension_target(*t)).collect();
        core::mem::forget(wit);
        vals
    }
}

const F_CONSUMER: &[&str] = &[
    "starky/src/constraint_consumer.rs::ConstraintConsumer::constraint",
    "starky/src/constraint_consumer.rs::ConstraintConsumer::constraint_transition",
    "starky/src/constraint_consumer.rs::ConstraintConsumer::constraint_first_row",
    "starky/src/constraint_consumer.rs::ConstraintConsumer::constraint_last_row",
    "starky/src/constraint_consumer.rs::ConstraintConsumer::accumulators",
];
const F_RCONSUMER: &[&str] = &[
    "starky/src/constraint_consumer.rs::RecursiveConstraintConsumer::constraint",
    "starky/src/constraint_consumer.rs::RecursiveConstraintConsumer::constraint_transition",
    "starky/src/constraint_consumer.rs::RecursiveConstraintConsumer::constraint_first_row",
    "starky/src/constraint_consumer.rs::RecursiveConstraintConsumer::constraint_last_row",
    "plonky2/src/iop/generator.rs::generate_partial_witness",
];
const F_LAGRANGE: &[&str] = &["starky/src/vanishing_poly.rs::eval_l_0_and_l_last"];
const F_LAGRANGE_C: &[&str] = &["starky/src/vanishing_poly.rs::eval_l_0_and_l_last_circuit", "plonky2/src/iop/generator.rs::generate_partial_witness"];
const F_VANISH: &[&str] = &[
    "starky/src/vanishing_poly.rs::eval_vanishing_poly",
    "starky/src/stark.rs::Stark::eval_packed_generic",
    "starky/src/constraint_consumer.rs::ConstraintConsumer",
    "starky/src/evaluation_frame.rs::StarkFrame::from_values",
];

// ------------------------------------------------------------------------------------------
// group 1: the constraint consumer (Ob9.1, and the recursive one for C11)
// ------------------------------------------------------------------------------------------

fn apply<P: PackedField>(cons: &mut ConstraintConsumer<P>, kind: K, c: P) {
    match kind {
        K::All => cons.constraint(c),
        K::Trans => cons.constraint_transition(c),
        K::First => cons.constraint_first_row(c),
        K::Last => cons.constraint_last_row(c),
    }
}

fn consumer_obs<F: VF>(ctx: &mut Ctx) {
    let maxlen = if ctx.thorough() { 5 } else { 4 };
    for m in 0..=maxlen {
        let idp = format!("C09.S.stark.consumer.len{m}");
        ctx.guarded(&idp.clone(), F_CONSUMER, |ctx| {
            if F::SYMBOLIC {
                crate::reset();
            }
            let seqs = all_seqs(m);
            // extension-field consumer (the verifier's instantiation)
            let c: Vec<Ext<F>> = (0..m).map(|k| F::ext(&format!("c{k}"))).collect();
            let al = [F::ext("alpha0"), F::ext("alpha1")];
            let (zl, lf, ll) = (F::ext("zlast"), F::ext("lfirst"), F::ext("llast"));
            let mut goals = vec![];
            for s in &seqs {
                let mut cons = ConstraintConsumer::<Ext<F>>::new(al.to_vec(), zl, lf, ll);
                for (k, kind) in s.iter().enumerate() {
                    apply(&mut cons, *kind, c[k]);
                }
                let acc = cons.accumulators();
                goals.push(A::Bool(acc.len() == 2));
                let cs: Vec<(K, Ext<F>)> = s.iter().copied().zip(c.iter().copied()).collect();
                for i in 0..2 {
                    goals.extend(eq_ext::<F>(acc[i], combine_ref(&cs, al[i], zl, lf, ll)));
                }
            }
            ctx.add(
                Ob::new(format!("{idp}.ext"), F_CONSUMER, format!("all {} call sequences of length {m} over {{constraint, constraint_transition, constraint_first_row, constraint_last_row}}; constraint values, 2 alphas, z_last, lagrange_basis_first/last: symbols over the quadratic extension", seqs.len()))
                    .sample("ConstraintConsumer::<F::Extension>: accumulators()[i] == sum_k alpha_i^(m-1-k) * filter_k * c_k, filters (1, z_last, L_first, L_last)")
                    .goals(goals)
                    .key("constraint-consumer:wrong-accumulation"),
            );
            // base-field consumer (the prover's instantiation), three alphas
            let c: Vec<F> = (0..m).map(|k| F::var(&format!("b{k}"))).collect();
            let al = [F::var("balpha0"), F::var("balpha1"), F::var("balpha2")];
            let (zl, lf, ll) = (F::var("bzlast"), F::var("blfirst"), F::var("bllast"));
            let mut goals = vec![];
            for s in &seqs {
                let mut cons = ConstraintConsumer::<F>::new(al.to_vec(), zl, lf, ll);
                for (k, kind) in s.iter().enumerate() {
                    apply(&mut cons, *kind, c[k]);
                }
                let acc = cons.accumulators();
                goals.push(A::Bool(acc.len() == 3));
                let cs: Vec<(K, F)> = s.iter().copied().zip(c.iter().copied()).collect();
                for i in 0..3 {
                    goals.push(eq(acc[i], combine_ref(&cs, al[i], zl, lf, ll)));
                }
            }
            ctx.add(
                Ob::new(format!("{idp}.base"), F_CONSUMER, format!("all {} call sequences of length {m}; everything a base-field symbol; 3 alphas", seqs.len()))
                    .sample("ConstraintConsumer::<F>: accumulators()[i] == sum_k alpha_i^(m-1-k) * filter_k * c_k")
                    .goals(goals)
                    .key("constraint-consumer:wrong-accumulation"),
            );
        });
    }

    // recursive consumer through the real builder, against the native consumer
    let idp = "C11.S.stark.consumer.circuit".to_string();
    ctx.guarded(&idp.clone(), F_RCONSUMER, |ctx| {
        if F::SYMBOLIC {
            crate::reset();
        }
        let mut seqs: Vec<Vec<K>> = (0..=3).flat_map(all_seqs).collect();
        // length 4: every kind at every position, rest rotating
        for p in 0..4 {
            for (ki, k) in KINDS.iter().enumerate() {
                let mut s: Vec<K> = (0..4).map(|q| KINDS[(q + ki + 1) % 4]).collect();
                s[p] = *k;
                seqs.push(s);
            }
        }
        if ctx.thorough() {
            seqs.extend(all_seqs(4));
        }
        let c: Vec<Ext<F>> = (0..4).map(|k| F::ext(&format!("c{k}"))).collect();
        // in the circuit the alphas are base-field targets
        let al = [F::var("alpha0"), F::var("alpha1")];
        let (zl, lf, ll) = (F::ext("zlast"), F::ext("lfirst"), F::ext("llast"));
        let mut circ = Circ::<F>::new();
        let ct = circ.exts(&c);
        let at = [circ.base(al[0]), circ.base(al[1])];
        let (zt, lft, llt) = (circ.ext(zl), circ.ext(lf), circ.ext(ll));
        let mut outs = vec![];
        let mut natives = vec![];
        for s in &seqs {
            let zero = circ.b.zero_extension();
            let mut rc = RecursiveConstraintConsumer::<F, 2>::new(zero, at.to_vec(), zt, lft, llt);
            let mut nc = ConstraintConsumer::<Ext<F>>::new(vec![emb::<F>(al[0]), emb::<F>(al[1])], zl, lf, ll);
            for (k, kind) in s.iter().enumerate() {
                match kind {
                    K::All => rc.constraint(&mut circ.b, ct[k]),
                    K::Trans => rc.constraint_transition(&mut circ.b, ct[k]),
                    K::First => rc.constraint_first_row(&mut circ.b, ct[k]),
                    K::Last => rc.constraint_last_row(&mut circ.b, ct[k]),
                }
                apply(&mut nc, *kind, c[k]);
            }
            let acc = rc.accumulators();
            let nacc = nc.accumulators();
            assert_eq!(acc.len(), 2);
            assert_eq!(nacc.len(), 2);
            outs.extend(acc);
            natives.extend(nacc);
        }
        let vals = circ.run(&outs);
        let mut goals = vec![];
        for (v, n) in vals.iter().zip(&natives) {
            goals.extend(eq_ext::<F>(*v, *n));
        }
        ctx.add(
            Ob::new(idp.clone(), F_RCONSUMER, format!("{} call sequences (all of length <= 3, a covering set of length 4); constraint values / filters extension symbols, alphas base-field symbols; circuit built with the real CircuitBuilder, values from the real generators", seqs.len()))
                .sample("value(RecursiveConstraintConsumer.accumulators()[i]) == ConstraintConsumer::<F::Extension>.accumulators()[i] after the same call sequence")
                .goals(goals)
                .key("recursive-constraint-consumer:differs-from-native"),
        );
    });
}

// ------------------------------------------------------------------------------------------
// group 2: L_0 and L_last (Ob9.2)
// ------------------------------------------------------------------------------------------

fn lagrange_obs<F: VF>(ctx: &mut Ctx) {
    for log_n in 0..=5usize {
        let idp = format!("C09.S.stark.lagrange.log{log_n}");
        ctx.guarded(&idp.clone(), F_LAGRANGE, |ctx| {
            if F::SYMBOLIC {
                crate::reset();
            }
            let n = 1usize << log_n;
            let g = F::primitive_root_of_unity(log_n);
            let nf = F::from_canonical_usize(n);
            // base field, symbolic x
            let x = F::var("x");
            let (l0, ll) = hk::eval_l_0_and_l_last::<F>(log_n, x);
            let zx = pow(x, n) - F::ONE;
            ctx.add(
                Ob::new(format!("{idp}.base.definition"), F_LAGRANGE, format!("n = 2^{log_n}; all base-field x (with n(x-1) != 0, n(gx-1) != 0)"))
                    .sample("eval_l_0_and_l_last(log_n, x) == (prod_{k!=0} (x-g^k)/(1-g^k), prod_{k!=n-1} (x-g^k)/(g^(n-1)-g^k))  [Lagrange basis by definition]")
                    .goals(vec![eq(l0, lagrange_def::<F>(log_n, 0, x)), eq(ll, lagrange_def::<F>(log_n, n - 1, x))])
                    .key("lagrange:l0-llast-wrong"),
            );
            ctx.add(
                Ob::new(format!("{idp}.base.closed-form"), F_LAGRANGE, format!("n = 2^{log_n}; all base-field x"))
                    .sample("L_0(x) * n * (x - 1) == x^n - 1  and  L_last(x) * n * (g*x - 1) == x^n - 1")
                    .goals(vec![eq(l0 * nf * (x - F::ONE), zx), eq(ll * nf * (g * x - F::ONE), zx)])
                    .key("lagrange:l0-llast-wrong"),
            );
            // extension field, symbolic x: the extension inverse tests `is_zero` first
            let xe = F::ext("xe");
            let (l0e, lle) = nonzero_inverses(|| hk::eval_l_0_and_l_last::<Ext<F>>(log_n, xe));
            let zxe = pow(xe, n) - Ext::<F>::ONE;
            let mut goals = vec![];
            goals.extend(eq_ext::<F>(l0e * emb::<F>(nf) * (xe - Ext::<F>::ONE), zxe));
            goals.extend(eq_ext::<F>(lle * emb::<F>(nf) * (emb::<F>(g) * xe - Ext::<F>::ONE), zxe));
            if log_n <= 3 {
                goals.extend(eq_ext::<F>(l0e, lagrange_def::<Ext<F>>(log_n, 0, xe)));
                goals.extend(eq_ext::<F>(lle, lagrange_def::<Ext<F>>(log_n, n - 1, xe)));
            }
            ctx.add(
                Ob::new(format!("{idp}.ext"), F_LAGRANGE, format!("n = 2^{log_n}; all extension-field x for which the inverted denominators are non-zero"))
                    .sample("extension field: L_0(x) n (x-1) == x^n - 1, L_last(x) n (g x - 1) == x^n - 1 (and == the Lagrange definition for n <= 8)")
                    .goals(goals)
                    .key("lagrange:l0-llast-wrong"),
            );
            // concrete evaluation off the subgroup (on the subgroup itself the closed form is 0/0)
            if log_n >= 1 {
                let shift = F::MULTIPLICATIVE_GROUP_GENERATOR;
                let mut goals = vec![];
                for j in 0..n.min(4) {
                    let pt = shift * pow(g, j);
                    let (a, b) = hk::eval_l_0_and_l_last::<F>(log_n, pt);
                    goals.push(A::Bool(a == lagrange_def::<F>(log_n, 0, pt)));
                    goals.push(A::Bool(b == lagrange_def::<F>(log_n, n - 1, pt)));
                    goals.push(A::Bool(a * nf * (pt - F::ONE) == pow(pt, n) - F::ONE));
                }
                ctx.add(
                    Ob::new(format!("{idp}.concrete"), F_LAGRANGE, format!("n = 2^{log_n}; concrete points 7*g^j, j < {}", n.min(4)))
                        .sample("concrete evaluation of eval_l_0_and_l_last against the Lagrange definition")
                        .goals(goals)
                        .key("lagrange:l0-llast-wrong"),
                );
            }
        });
    }
    // Kronecker property of the reference itself (so the reference is the right basis):
    // evaluated natively on the subgroup
    ctx.guarded("C09.S.stark.lagrange.reference-kronecker", F_LAGRANGE, |ctx| {
        let mut goals = vec![];
        for log_n in 1..=5usize {
            let n = 1usize << log_n;
            let g = F::primitive_root_of_unity(log_n);
            for j in 0..n {
                let h = pow(g, j);
                goals.push(A::Bool(lagrange_def::<F>(log_n, 0, h) == if j == 0 { F::ONE } else { F::ZERO }));
                goals.push(A::Bool(lagrange_def::<F>(log_n, n - 1, h) == if j == n - 1 { F::ONE } else { F::ZERO }));
            }
        }
        ctx.add(
            Ob::new("C09.S.stark.lagrange.reference-kronecker", F_LAGRANGE, "log_n 1..=5, every subgroup point")
                .sample("reference: L_0(g^j) == [j == 0], L_last(g^j) == [j == n-1]")
                .goals(goals),
        );
    });
    // in-circuit twin
    ctx.guarded("C11.S.stark.lagrange.circuit", F_LAGRANGE_C, |ctx| {
        if F::SYMBOLIC {
            crate::reset();
        }
        let mut circ = Circ::<F>::new();
        // limb 0 concrete, limb 1 symbolic: the in-circuit division's generator inverts the two
        // denominators separately and its `is_zero` test is then decided by the concrete limb
        let x = ext_of::<F>(F::from_canonical_u64(0x1234_5678_9abc_def1), F::var("x1"));
        let xt = circ.ext(x);
        let mut outs = vec![];
        let mut nat = vec![];
        let logs: Vec<usize> = if ctx.thorough() { (0..=5).collect() } else { vec![0, 1, 3] };
        for &log_n in &logs {
            let n = 1usize << log_n;
            let g = F::primitive_root_of_unity(log_n);
            let nt = circ.b.constant_extension(emb::<F>(F::from_canonical_usize(n)));
            let gt = circ.b.constant_extension(emb::<F>(g));
            let xn = circ.b.exp_u64_extension(xt, n as u64);
            let one = circ.b.one_extension();
            let zx = circ.b.sub_extension(xn, one);
            let (a, b) = hk::eval_l_0_and_l_last_circuit::<F, 2>(&mut circ.b, nt, gt, xt, zx);
            outs.push(a);
            outs.push(b);
            let (na, nb) = nonzero_inverses(|| hk::eval_l_0_and_l_last::<Ext<F>>(log_n, x));
            nat.push(na);
            nat.push(nb);
        }
        let vals = circ.run(&outs);
        let mut goals = vec![];
        for (v, n) in vals.iter().zip(&nat) {
            goals.extend(eq_ext::<F>(*v, *n));
        }
        ctx.add(
            Ob::new("C11.S.stark.lagrange.circuit", F_LAGRANGE_C, format!("log_n in {logs:?}; x = c + x1*X with c a fixed constant and x1 a symbol; n, g constants; z_x = x^n - 1 computed in the circuit"))
                .sample("value(eval_l_0_and_l_last_circuit(n, g, x, x^n-1)) == eval_l_0_and_l_last(log_n, x)")
                .goals(goals)
                .key("lagrange-circuit:differs-from-native"),
        );
    });
}

// ------------------------------------------------------------------------------------------
// group 3: eval_vanishing_poly against the reference; row semantics on a concrete subgroup
// ------------------------------------------------------------------------------------------

type RefFn<E> = fn(&[E], &[E], &[E]) -> Vec<(K, E)>;

fn vanishing_ref_obs<F: VF, S: Stark<F, 2>>(ctx: &mut Ctx, name: &str, stark: &S, rf: RefFn<Ext<F>>) {
    let idp = format!("C09.S.stark.vanishing.{name}.reference");
    ctx.guarded(&idp.clone(), F_VANISH, |ctx| {
        if F::SYMBOLIC {
            crate::reset();
        }
        let lv: Vec<Ext<F>> = (0..S::COLUMNS).map(|j| F::ext(&format!("l{j}"))).collect();
        let nv: Vec<Ext<F>> = (0..S::COLUMNS).map(|j| F::ext(&format!("n{j}"))).collect();
        let pi: Vec<Ext<F>> = (0..S::PUBLIC_INPUTS).map(|j| F::ext(&format!("pi{j}"))).collect();
        let al = [F::ext("alpha0"), F::ext("alpha1")];
        let (zl, lf, ll) = (F::ext("zlast"), F::ext("lfirst"), F::ext("llast"));
        let vars = S::EvaluationFrame::<Ext<F>, Ext<F>, 2>::from_values(&lv, &nv, &pi);
        let mut cons = ConstraintConsumer::<Ext<F>>::new(al.to_vec(), zl, lf, ll);
        hk::eval_vanishing_poly::<F, Ext<F>, Ext<F>, S, 2, 2>(stark, &vars, &[], None, None, &mut cons);
        let acc = cons.accumulators();
        let cs = rf(&lv, &nv, &pi);
        let mut goals = vec![A::Bool(acc.len() == 2)];
        for i in 0..2 {
            goals.extend(eq_ext::<F>(acc[i], combine_ref(&cs, al[i], zl, lf, ll)));
        }
        ctx.add(
            Ob::new(idp.clone(), F_VANISH, format!("sample STARK {name}: local row, next row, public inputs, 2 alphas, z_last, L_first, L_last all extension-field symbols"))
                .sample(format!("eval_vanishing_poly({name}) accumulators == sum_k alpha^(m-1-k) filter_k c_k over the STARK's {} constraints in their protocol order", cs.len()))
                .goals(goals)
                .key("vanishing-poly:differs-from-reference"),
        );
    });
}

/// accumulators of `eval_vanishing_poly` (base field, as the prover instantiates it) at row j of
/// a length-n trace: local = row j, next = row j+1 (cyclically), x = g^j,
/// z_last = x - g^(n-1), L_first = [j == 0], L_last = [j == n-1].
fn row_accs<F: VF, S: Stark<F, 2>>(stark: &S, trace: &[Vec<F>], next_override: Option<&[F]>, pis: &[F], alphas: &[F], j: usize) -> Vec<F> {
    let n = trace.len();
    let log_n = n.trailing_zeros() as usize;
    let g = F::primitive_root_of_unity(log_n);
    let x = pow(g, j);
    let z_last = x - pow(g, n - 1);
    let l_first = if j == 0 { F::ONE } else { F::ZERO };
    let l_last = if j == n - 1 { F::ONE } else { F::ZERO };
    let next: &[F] = match next_override {
        Some(nx) => nx,
        None => &trace[(j + 1) % n],
    };
    let vars = S::EvaluationFrame::<F, F, 1>::from_values(&trace[j], next, pis);
    let mut cons = ConstraintConsumer::<F>::new(alphas.to_vec(), z_last, l_first, l_last);
    hk::eval_vanishing_poly::<F, F, F, S, 2, 1>(stark, &vars, &[], None, None, &mut cons);
    cons.accumulators()
}

/// valid traces built as terms: (trace rows, public inputs)
fn fib_trace<F: VF>(n: usize) -> (Vec<Vec<F>>, Vec<F>) {
    let (x0, x1) = (F::var("x0"), F::var("x1"));
    let mut rows = vec![vec![x0, x1]];
    for j in 1..n {
        let p = rows[j - 1].clone();
        rows.push(vec![p[1], p[0] + p[1]]);
    }
    let pis = vec![x0, x1, rows[n - 1][1]];
    (rows, pis)
}
fn cubic_trace<F: VF>(n: usize) -> (Vec<Vec<F>>, Vec<F>) {
    let (x0, y0, pc) = (F::var("x0"), F::var("y0"), F::var("pc"));
    let mut rows = vec![vec![x0, y0, y0 + pc]];
    for j in 1..n {
        let p = rows[j - 1].clone();
        let y = p[1] + p[2];
        rows.push(vec![p[0] * p[1] * p[2], y, y + pc]);
    }
    let pis = vec![x0, rows[n - 1][0], pc];
    (rows, pis)
}

fn row_semantics_obs<F: VF, S: Stark<F, 2>>(ctx: &mut Ctx, name: &str, stark: &S, n: usize, mk: fn(usize) -> (Vec<Vec<F>>, Vec<F>), num_constraints: usize) {
    let idp = format!("C09.S.stark.rows.{name}.n{n}");
    ctx.guarded(&idp.clone(), F_VANISH, |ctx| {
        if F::SYMBOLIC {
            crate::reset();
        }
        let (trace, pis) = mk(n);
        let cols = trace[0].len();
        let bounds = format!("sample STARK {name}, trace length {n} on the real subgroup <g>; trace cells are terms in the free initial values (a satisfying trace by construction); public inputs = the trace's own boundary values");
        // satisfying trace: the combination vanishes at every row for symbolic alphas
        let al = [F::var("alpha0"), F::var("alpha1")];
        let mut goals = vec![];
        for j in 0..n {
            for a in row_accs::<F, S>(stark, &trace, None, &pis, &al, j) {
                goals.push(eq(a, F::ZERO));
            }
        }
        ctx.add(
            Ob::new(format!("{idp}.satisfying"), F_VANISH, format!("{bounds}; 2 symbolic alphas"))
                .sample("satisfying trace ==> eval_vanishing_poly accumulators == 0 at every row j (x = g^j, z_last = x - g^(n-1), L_first = [j=0], L_last = [j=n-1])")
                .goals(goals)
                .key("row-semantics:satisfying-trace-rejected"),
        );
        // wrap-around exemption: at the last row the next row is arbitrary
        let wrap: Vec<F> = (0..cols).map(|c| F::var(&format!("wrap{c}"))).collect();
        let goals: Vec<A> = row_accs::<F, S>(stark, &trace, Some(&wrap), &pis, &al, n - 1).into_iter().map(|a| eq(a, F::ZERO)).collect();
        ctx.add(
            Ob::new(format!("{idp}.wraparound-exempt"), F_VANISH, format!("{bounds}; the row after the last row is a vector of fresh symbols"))
                .sample("at row n-1 the accumulators are 0 whatever the 'next' row is: transition constraints are filtered out at the last row (z_last = 0), so the wrap-around transition last -> first is NOT enforced")
                .goals(goals)
                .key("row-semantics:wraparound"),
        );
        // "for all alpha" as a polynomial identity of degree < m in alpha  <=>  zero at m distinct
        // alphas; the consumer takes any number of alphas, so one run with m concrete alphas
        let m = num_constraints;
        let cal: Vec<F> = (0..m).map(|i| F::from_canonical_u64(3 + 2 * i as u64)).collect();
        let delta = F::var("delta");
        let cells: Vec<(usize, usize)> = if ctx.thorough() || n <= 4 {
            (0..n).flat_map(|r| (0..cols).map(move |c| (r, c))).collect()
        } else {
            [0, n / 2, n - 1].iter().flat_map(|&r| (0..cols).map(move |c| (r, c))).collect()
        };
        for (r, c) in cells {
            let mut t2 = trace.clone();
            t2[r][c] = trace[r][c] + delta;
            let mut hyps = vec![];
            for j in 0..n {
                // only the rows whose frame contains the cell can change
                if j == r || (j + 1) % n == r {
                    for a in row_accs::<F, S>(stark, &t2, None, &pis, &cal, j) {
                        hyps.push(eq(a, F::ZERO));
                    }
                }
            }
            ctx.add(
                Ob::new(format!("{idp}.pin.r{r}c{c}"), F_VANISH, format!("{bounds}; cell (row {r}, column {c}) += delta; the {m} constraints are combined with {m} distinct concrete alphas (3,5,7,...): a polynomial of degree < {m} in alpha that vanishes at {m} points vanishes for every alpha"))
                    .sample(format!("trace[{r}][{c}] += delta and the alpha-combination vanishes at rows {{{}, {r}}} for {m} distinct alphas  ==>  delta == 0 (public inputs held fixed; first-row constraints are live at row 0, transition constraints at rows < n-1)", (r + n - 1) % n))
                    .hyps(hyps)
                    .goal(eq(delta, F::ZERO))
                    .key("row-semantics:violating-trace-accepted"),
            );
        }
        // (a violation that only breaks the wrap-around transition last -> first is NOT claimed
        // to be caught: see `wraparound-exempt`)
        // public inputs that do not match
        for k in 0..pis.len() {
            let mut p2 = pis.clone();
            p2[k] = pis[k] + delta;
            let mut hyps_all = vec![];
            for j in 0..n {
                for a in row_accs::<F, S>(stark, &trace, None, &p2, &cal, j) {
                    hyps_all.push(eq(a, F::ZERO));
                }
            }
            ctx.add(
                Ob::new(format!("{idp}.pin.pi{k}"), F_VANISH, format!("{bounds}; public input {k} += delta; {m} distinct concrete alphas"))
                    .sample(format!("public_inputs[{k}] += delta and the alpha-combination vanishes at every row for {m} distinct alphas  ==>  delta == 0"))
                    .hyps(hyps_all)
                    .goal(eq(delta, F::ZERO))
                    .key("row-semantics:wrong-public-input-accepted"),
            );
        }
    });
}


// ------------------------------------------------------------------------------------------
// group 4: the real verifier in accept-path mode (Ob9.3)
// ------------------------------------------------------------------------------------------

const F_VERIFY: &[&str] = &[
    "starky/src/verifier.rs::verify_stark_proof_with_challenges",
    "starky/src/verifier.rs::validate_proof_shape",
    "starky/src/vanishing_poly.rs::eval_vanishing_poly",
    "starky/src/vanishing_poly.rs::eval_l_0_and_l_last",
    "starky/src/stark.rs::Stark::fri_instance",
    "starky/src/proof.rs::StarkOpeningSet::to_fri_openings",
    "starky/src/proof.rs::StarkProof::recover_degree_bits",
    "plonky2/src/plonk/plonk_common.rs::reduce_with_powers",
];
const F_PROVE: &[&str] = &["starky/src/prover.rs::prove", "starky/src/get_challenges.rs::StarkProofWithPublicInputs::get_challenges"];

const DEGREE_BITS: usize = 3;
const QUERY_INDEX: usize = 5;

fn stark_config() -> StarkConfig {
    StarkConfig::new(
        1,
        2,
        FriConfig { rate_bits: 1, cap_height: 1, proof_of_work_bits: 0, reduction_strategy: FriReductionStrategy::Fixed(vec![1, 1]), num_query_rounds: 1 },
    )
}

fn chal<F: VF>(seed: u64, k: u64) -> F {
    let mut h = seed.wrapping_mul(0x9E37_79B9_7F4A_7C15) ^ (k.wrapping_add(0x51)).wrapping_mul(0xD6E8_FEB8_6659_FD93);
    h ^= h >> 31;
    h = h.wrapping_mul(0xBF58_476D_1CE4_E5B9);
    h ^= h >> 29;
    F::from_noncanonical_u64(h)
}

/// A STARK proof with its public inputs and the challenges it is verified under.
struct SP<F: VF> {
    proof: StarkProof<F, F::Cfg, 2>,
    pis: Vec<F>,
    alphas: Vec<F>,
    zeta: Ext<F>,
    fri_alpha: Ext<F>,
    fri_betas: Vec<Ext<F>>,
    query_indices: Vec<usize>,
    lookup_challenges: Option<GrandProductChallengeSet<F>>,
}

impl<F: VF> SP<F> {
    fn challenges(&self) -> StarkProofChallenges<F, 2> {
        StarkProofChallenges {
            lookup_challenge_set: self.lookup_challenges.clone(),
            stark_alphas: self.alphas.clone(),
            stark_zeta: self.zeta,
            fri_challenges: FriChallenges { fri_alpha: self.fri_alpha, fri_betas: self.fri_betas.clone(), fri_pow_response: F::ZERO, fri_query_indices: self.query_indices.clone() },
        }
    }
    fn with(&self, proof: StarkProof<F, F::Cfg, 2>, pis: Vec<F>) -> Self {
        SP {
            proof,
            pis,
            alphas: self.alphas.clone(),
            zeta: self.zeta,
            fri_alpha: self.fri_alpha,
            fri_betas: self.fri_betas.clone(),
            query_indices: self.query_indices.clone(),
            lookup_challenges: self.lookup_challenges.clone(),
        }
    }
}

fn shape_of(cols: usize, aux: usize, nq: usize) -> Shape {
    let mut oracles = vec![cols];
    let mut b0: Vec<(usize, usize)> = (0..cols).map(|i| (0, i)).collect();
    let mut b1 = b0.clone();
    if aux > 0 {
        let o = oracles.len();
        oracles.push(aux);
        b0.extend((0..aux).map(|i| (o, i)));
        b1.extend((0..aux).map(|i| (o, i)));
    }
    let o = oracles.len();
    oracles.push(nq);
    b0.extend((0..nq).map(|i| (o, i)));
    Shape { name: "stark", oracles, batches: vec![b0, b1], degree_bits: DEGREE_BITS, rate_bits: 1, cap_height: 1, arity_bits: vec![1, 1], query_indices: vec![QUERY_INDEX] }
}

/// Proof whose every element is a symbol (natively: the model's value / pseudo-random), with
/// concrete seeded challenges. `aux` = number of auxiliary (lookup) polynomials.
fn symbolic_sp<F: VF, S: Stark<F, 2>>(stark: &S, seed: u64) -> SP<F> {
    let config = stark_config();
    let aux = stark.num_lookup_helper_columns(&config);
    let nq = stark.num_quotient_polys(&config);
    let sh = shape_of(S::COLUMNS, aux, nq);
    let b = fri::symbolic_bundle::<F>(&sh, seed);
    let zeta = b.instance.batches[0].point;
    let (o0, o1) = (&b.openings.batches[0].values, &b.openings.batches[1].values);
    let c = S::COLUMNS;
    let openings = StarkOpeningSet {
        local_values: o0[..c].to_vec(),
        next_values: o1[..c].to_vec(),
        auxiliary_polys: (aux > 0).then(|| o0[c..c + aux].to_vec()),
        auxiliary_polys_next: (aux > 0).then(|| o1[c..c + aux].to_vec()),
        ctl_zs_first: None,
        quotient_polys: Some(o0[c + aux..].to_vec()),
    };
    let proof = StarkProof {
        trace_cap: b.caps[0].clone(),
        auxiliary_polys_cap: (aux > 0).then(|| b.caps[1].clone()),
        quotient_polys_cap: Some(b.caps[b.caps.len() - 1].clone()),
        openings,
        opening_proof: b.proof.clone(),
    };
    SP {
        proof,
        pis: (0..S::PUBLIC_INPUTS).map(|k| F::var(&format!("pi{k}"))).collect(),
        alphas: vec![chal::<F>(seed, 1), chal::<F>(seed, 2)],
        zeta,
        fri_alpha: b.challenges.fri_alpha,
        fri_betas: b.challenges.fri_betas.clone(),
        query_indices: b.challenges.fri_query_indices.clone(),
        lookup_challenges: (aux > 0).then(|| GrandProductChallengeSet {
            challenges: (0..2).map(|i| GrandProductChallenge { beta: chal::<F>(seed, 10 + i), gamma: chal::<F>(seed, 20 + i) }).collect(),
        }),
    }
}

/// Honest proof from the real prover, with the real Fiat-Shamir challenges (native replay).
fn honest_sp<F: VF, S: Stark<F, 2> + Copy>(stark: &S, rows: &[Vec<F>], pis: &[F]) -> SP<F> {
    let config = stark_config();
    let cols = rows[0].len();
    let trace: Vec<PolynomialValues<F>> = (0..cols).map(|c| PolynomialValues::new(rows.iter().map(|r| r[c]).collect())).collect();
    let pw = prove::<F, F::Cfg, S, 2>(*stark, &config, trace, pis, None, &mut TimingTree::default()).expect("the real prover failed on a satisfying trace");
    let mut challenger = plonky2::iop::challenger::Challenger::<F, plonky2::hash::poseidon::PoseidonHash>::new();
    let ch = pw.get_challenges(stark, &mut challenger, None, None, false, &config, None);
    let StarkProofWithPublicInputs { proof, public_inputs } = pw;
    SP {
        proof,
        pis: public_inputs,
        alphas: ch.stark_alphas.clone(),
        zeta: ch.stark_zeta,
        fri_alpha: ch.fri_challenges.fri_alpha,
        fri_betas: ch.fri_challenges.fri_betas.clone(),
        query_indices: ch.fri_challenges.fri_query_indices.clone(),
        lookup_challenges: ch.lookup_challenge_set.clone(),
    }
}

#[derive(Clone, Debug)]
enum SPos {
    Local(usize, usize),
    Next(usize, usize),
    Aux(usize, usize),
    AuxNext(usize, usize),
    Quot(usize, usize),
    Pi(usize),
    // FRI-internal representatives
    Leaf(usize, usize),
    Sibling(usize, usize, usize),
    TraceCap(usize, usize),
    QuotCap(usize, usize),
    FinalPoly(usize, usize),
}

fn bump<F: VF>(x: &mut Ext<F>, limb: usize, d: F) {
    let mut a = x.to_basefield_array();
    a[limb] += d;
    *x = ext_of::<F>(a[0], a[1]);
}

fn perturb_sp<F: VF>(sp: &SP<F>, pos: &SPos, d: F) -> SP<F> {
    let mut p = sp.proof.clone();
    let mut pis = sp.pis.clone();
    match *pos {
        SPos::Local(j, l) => bump::<F>(&mut p.openings.local_values[j], l, d),
        SPos::Next(j, l) => bump::<F>(&mut p.openings.next_values[j], l, d),
        SPos::Aux(j, l) => bump::<F>(&mut p.openings.auxiliary_polys.as_mut().unwrap()[j], l, d),
        SPos::AuxNext(j, l) => bump::<F>(&mut p.openings.auxiliary_polys_next.as_mut().unwrap()[j], l, d),
        SPos::Quot(j, l) => bump::<F>(&mut p.openings.quotient_polys.as_mut().unwrap()[j], l, d),
        SPos::Pi(k) => pis[k] += d,
        SPos::Leaf(o, i) => p.opening_proof.query_round_proofs[0].initial_trees_proof.evals_proofs[o].0[i] += d,
        SPos::Sibling(o, l, lane) => p.opening_proof.query_round_proofs[0].initial_trees_proof.evals_proofs[o].1.siblings[l].elements[lane] += d,
        SPos::TraceCap(k, lane) => p.trace_cap.0[k].elements[lane] += d,
        SPos::QuotCap(k, lane) => p.quotient_polys_cap.as_mut().unwrap().0[k].elements[lane] += d,
        SPos::FinalPoly(k, l) => bump::<F>(&mut p.opening_proof.final_poly.coeffs[k], l, d),
    }
    sp.with(p, pis)
}

/// The whole real verifier in accept-path mode.
fn run_full<F: VF, S: Stark<F, 2>>(stark: &S, sp: &SP<F>) -> A {
    let config = stark_config();
    let ch = sp.challenges();
    let (ok, atoms) = F::accept(|| verify_stark_proof_with_challenges::<F, F::Cfg, S, 2>(stark, &sp.proof, &ch, None, &sp.pis, &config));
    A::Accept(ok, atoms)
}

/// The vanishing stage of the real verifier: everything up to (excluding) `verify_fri_proof`.
/// The same real function is called on a copy of the proof whose final polynomial is one
/// coefficient short, so that `validate_fri_proof_shape` ends the run right after the checks
/// `vanishing_polys_zeta[i] == z_h_zeta * reduce_with_powers(chunk, zeta^n)`.
/// Symbolically: the equalities recorded up to there; natively: "the run did not end with the
/// quotient-mismatch error".
fn run_vanishing<F: VF, S: Stark<F, 2>>(stark: &S, sp: &SP<F>) -> A {
    let config = stark_config();
    let ch = sp.challenges();
    let mut p = sp.proof.clone();
    p.opening_proof.final_poly.coeffs.pop();
    let mut msg = String::new();
    let (ok, atoms) = F::accept(|| {
        let r = verify_stark_proof_with_challenges::<F, F::Cfg, S, 2>(stark, &p, &ch, None, &sp.pis, &config);
        if let Err(e) = &r {
            msg = format!("{e}");
        }
        r
    });
    assert!(!ok, "verifier accepted a proof with a truncated final polynomial");
    let mismatch = msg.contains("Mismatch between evaluation and opening of quotient polynomial");
    assert!(mismatch || msg.contains("final_poly"), "unexpected verifier error: {msg}");
    if F::SYMBOLIC {
        assert!(!mismatch);
        A::Accept(true, atoms)
    } else {
        A::Bool(!mismatch)
    }
}

/// reference: both sides of the identity checked at zeta, for challenge index i
fn vanishing_identity_ref<F: VF, S: Stark<F, 2>>(stark: &S, sp: &SP<F>, rf: RefFn<Ext<F>>, extra: &dyn Fn(&SP<F>, usize) -> Vec<(K, Ext<F>)>, i: usize) -> (Ext<F>, Ext<F>) {
    let n = 1usize << DEGREE_BITS;
    let g = F::primitive_root_of_unity(DEGREE_BITS);
    let zeta = sp.zeta;
    let l_first = lagrange_def::<Ext<F>>(DEGREE_BITS, 0, zeta);
    let l_last = lagrange_def::<Ext<F>>(DEGREE_BITS, n - 1, zeta);
    let z_last = zeta - emb::<F>(pow(g, n - 1));
    let z_h = pow(zeta, n) - Ext::<F>::ONE;
    let pis: Vec<Ext<F>> = sp.pis.iter().map(|p| emb::<F>(*p)).collect();
    let mut cs = rf(&sp.proof.openings.local_values, &sp.proof.openings.next_values, &pis);
    cs.extend(extra(sp, i));
    let lhs = combine_ref(&cs, emb::<F>(sp.alphas[i]), z_last, l_first, l_last);
    let qdf = stark.quotient_degree_factor();
    let q = sp.proof.openings.quotient_polys.as_ref().unwrap();
    let mut t = Ext::<F>::ZERO;
    for c in 0..qdf {
        t += q[i * qdf + c] * pow(zeta, n * c);
    }
    (lhs, z_h * t)
}

fn no_extra<F: VF>(_: &SP<F>, _: usize) -> Vec<(K, Ext<F>)> {
    vec![]
}

fn verifier_obs<F: VF, S: Stark<F, 2> + Copy>(
    ctx: &mut Ctx,
    name: &str,
    stark: &S,
    rf: RefFn<Ext<F>>,
    extra: &dyn Fn(&SP<F>, usize) -> Vec<(K, Ext<F>)>,
    mk: fn(usize) -> (Vec<Vec<F>>, Vec<F>),
    unused: &dyn Fn(&SPos) -> bool,
) {
    let config = stark_config();
    let qdf = stark.quotient_degree_factor();
    let nq = stark.num_quotient_polys(&config);
    let cols = S::COLUMNS;
    let seed = 0x57a2_c000 + cols as u64;
    let setting = format!("sample STARK {name}; StarkConfig {{num_challenges 2, rate_bits 1, cap_height 1, Fixed([1,1]), 1 query round, pow bits 0}}, degree_bits {DEGREE_BITS}");

    // (a) the vanishing stage is exactly the reference identity
    let idp = format!("C09.S.stark.verify.{name}.identity");
    ctx.guarded(&idp.clone(), F_VERIFY, |ctx| {
        if F::SYMBOLIC {
            crate::reset();
        }
        let sp = symbolic_sp::<F, S>(stark, seed);
        let bounds = format!("{setting}; every opening and public input a symbol, challenges (alphas, zeta) seeded constants");
        let v = run_vanishing::<F, S>(stark, &sp);
        let mut goals = vec![];
        for i in 0..2 {
            let (l, r) = vanishing_identity_ref::<F, S>(stark, &sp, rf, extra, i);
            goals.extend(eq_ext::<F>(l, r));
        }
        ctx.add(
            Ob::new(format!("{idp}.sound"), F_VERIFY, bounds.clone())
                .sample("the verifier's vanishing stage passes  ==>  for BOTH challenge indices i: sum_k alpha_i^(m-1-k) filter_k(zeta) c_k(openings, public inputs) == (zeta^n - 1) * sum_c zeta^(n c) quotient[i*qdf + c], with the reference's own L_first(zeta), L_last(zeta) (Lagrange definition) and z_last = zeta - g^(n-1)")
                .hyp(v)
                .goals(goals)
                .key("stark-verifier:vanishing-identity-differs"),
        );
        // completeness: openings satisfying the reference identity by construction
        let mut sp2 = sp.with(sp.proof.clone(), sp.pis.clone());
        let n = 1usize << DEGREE_BITS;
        let z_h_inv = (pow(sp.zeta, n) - Ext::<F>::ONE).inverse();
        for i in 0..2 {
            // quotient[i*qdf] := lhs/z_h - sum_{c>=1} zeta^(n c) quotient[i*qdf + c]
            sp2.proof.openings.quotient_polys.as_mut().unwrap()[i * qdf] = Ext::<F>::ZERO;
            let (l, r) = vanishing_identity_ref::<F, S>(stark, &sp2, rf, extra, i);
            sp2.proof.openings.quotient_polys.as_mut().unwrap()[i * qdf] = (l - r) * z_h_inv;
        }
        let v2 = run_vanishing::<F, S>(stark, &sp2);
        ctx.add(
            Ob::new(format!("{idp}.complete"), F_VERIFY, format!("{bounds}; the first quotient chunk opening of each challenge solved from the reference identity"))
                .sample("openings satisfying the reference identity for both challenges  ==>  the verifier's vanishing stage passes")
                .goal(v2)
                .key("stark-verifier:vanishing-identity-differs"),
        );
    });

    // (b) pinning of every STARK-specific element by the vanishing stage alone
    let idp = format!("C09.S.stark.verify.{name}.pin");
    ctx.guarded(&idp.clone(), F_VERIFY, |ctx| {
        if F::SYMBOLIC {
            crate::reset();
        }
        let base: SP<F> = if F::SYMBOLIC {
            symbolic_sp::<F, S>(stark, seed)
        } else {
            let (rows, pis) = mk(1 << DEGREE_BITS);
            honest_sp::<F, S>(stark, &rows, &pis)
        };
        let bounds = format!("{setting}; symbolic run: every opening / public input a symbol, challenges seeded constants; native replay: honest proof from the real prover, its own Fiat-Shamir challenges held fixed");
        let v0 = run_vanishing::<F, S>(stark, &base);
        let delta = F::var("delta");
        let mut positions = vec![];
        for j in 0..cols {
            for l in 0..2 {
                positions.push(SPos::Local(j, l));
                positions.push(SPos::Next(j, l));
            }
        }
        for j in 0..stark.num_lookup_helper_columns(&config) {
            for l in 0..2 {
                positions.push(SPos::Aux(j, l));
                positions.push(SPos::AuxNext(j, l));
            }
        }
        for j in 0..nq {
            for l in 0..2 {
                positions.push(SPos::Quot(j, l));
            }
        }
        for k in 0..S::PUBLIC_INPUTS {
            positions.push(SPos::Pi(k));
        }
        for pos in positions {
            // an opening no constraint of the STARK mentions is legitimately not pinned by
            // the vanishing stage (it is pinned by FRI only): declared per sample STARK
            if unused(&pos) {
                continue;
            }
            let v1 = run_vanishing::<F, S>(stark, &perturb_sp::<F>(&base, &pos, delta));
            ctx.add(
                Ob::new(format!("{idp}.{pos:?}").replace(' ', ""), F_VERIFY, bounds.clone())
                    .sample(format!("VanishingStage(proof, pis) /\\ VanishingStage((proof, pis)[{pos:?} += delta])  ==>  delta == 0   (Quot(j, limb): quotient chunk opening j belongs to challenge index j / {qdf})"))
                    .assume("challenges held fixed")
                    .hyp(v0.clone())
                    .hyp(v1)
                    .goal(eq(delta, F::ZERO))
                    .key(format!("stark-verifier:unpinned:{}", format!("{pos:?}").split('(').next().unwrap())),
            );
        }
    });

    // (c) the whole verifier: reachability, and FRI-internal representatives
    let idp = format!("C09.S.stark.verify.{name}.full");
    ctx.guarded(&idp.clone(), F_VERIFY, |ctx| {
        if F::SYMBOLIC {
            crate::reset();
        }
        let base: SP<F> = if F::SYMBOLIC {
            symbolic_sp::<F, S>(stark, seed)
        } else {
            let (rows, pis) = mk(1 << DEGREE_BITS);
            honest_sp::<F, S>(stark, &rows, &pis)
        };
        let bounds = format!("{setting}; symbolic run: every proof element a symbol, challenges seeded constants, query index {QUERY_INDEX}; native replay: honest proof from the real prover with its own challenges");
        let a0 = run_full::<F, S>(stark, &base);
        ctx.add(
            Ob::new(format!("{idp}.accept-path"), &[F_VERIFY, F_PROVE].concat(), bounds.clone())
                .sample("verify_stark_proof_with_challenges reaches Ok on the path where every comparison holds (natively: the honest proof of a satisfying trace is accepted)")
                .goal(A::Bool(matches!(a0, A::Accept(true, _))))
                .key("stark-verifier:honest-proof-rejected"),
        );
        // a proof of a STARK with constraints that omits the quotient commitment must be rejected:
        // otherwise zeta is drawn without any commitment to the quotient and its FRI oracle is
        // never authenticated (the caps list is shorter than the oracle list)
        {
            let mut p2 = base.proof.clone();
            p2.quotient_polys_cap = None;
            let np = base.with(p2, base.pis.clone());
            let r = run_full::<F, S>(stark, &np);
            ctx.add(
                Ob::new(format!("{idp}.shape.no-quotient-cap"), F_VERIFY, bounds.clone())
                    .sample("the same proof with quotient_polys_cap := None (openings unchanged) is rejected by verify_stark_proof_with_challenges")
                    .goal(A::Bool(!matches!(r, A::Accept(true, _))))
                    .key("stark-verifier:accepts-proof-without-quotient-commitment"),
            );
        }
        // shape validation proper (values irrelevant): every single option / length change of the
        // STARK-specific parts is rejected by validate_proof_shape
        {
            let config = stark_config();
            let ok0 = starky::verif_hooks::validate_proof_shape::<F, F::Cfg, S, 2>(stark, &base.proof, &base.pis, &config).is_ok();
            let mut goals = vec![A::Bool(ok0)];
            let mut not_rejected: Vec<&str> = vec![];
            let mut muts: Vec<(&str, Box<dyn Fn(&mut StarkProof<F, F::Cfg, 2>, &mut Vec<F>) -> bool>)> = vec![];
            muts.push(("openings.quotient_polys := None", Box::new(|p, _| { let had = p.openings.quotient_polys.is_some(); p.openings.quotient_polys = None; had })));
            muts.push(("openings.quotient_polys pop", Box::new(|p, _| p.openings.quotient_polys.as_mut().map_or(false, |v| v.pop().is_some()))));
            muts.push(("openings.quotient_polys dup", Box::new(|p, _| p.openings.quotient_polys.as_mut().map_or(false, |v| { let x = v[0]; v.push(x); true }))));
            muts.push(("quotient_polys_cap := None", Box::new(|p, _| { let had = p.quotient_polys_cap.is_some(); p.quotient_polys_cap = None; had })));
            muts.push(("quotient_polys_cap pop", Box::new(|p, _| p.quotient_polys_cap.as_mut().map_or(false, |c| c.0.pop().is_some()))));
            muts.push(("trace_cap pop", Box::new(|p, _| p.trace_cap.0.pop().is_some())));
            muts.push(("trace_cap dup", Box::new(|p, _| { let x = p.trace_cap.0[0]; p.trace_cap.0.push(x); true })));
            muts.push(("openings.local_values pop", Box::new(|p, _| p.openings.local_values.pop().is_some())));
            muts.push(("openings.local_values dup", Box::new(|p, _| { let x = p.openings.local_values[0]; p.openings.local_values.push(x); true })));
            muts.push(("openings.next_values pop", Box::new(|p, _| p.openings.next_values.pop().is_some())));
            muts.push(("openings.next_values dup", Box::new(|p, _| { let x = p.openings.next_values[0]; p.openings.next_values.push(x); true })));
            muts.push(("openings.auxiliary_polys := None", Box::new(|p, _| { let had = p.openings.auxiliary_polys.is_some(); p.openings.auxiliary_polys = None; had })));
            muts.push(("openings.auxiliary_polys pop", Box::new(|p, _| p.openings.auxiliary_polys.as_mut().map_or(false, |v| v.pop().is_some()))));
            muts.push(("openings.auxiliary_polys_next pop", Box::new(|p, _| p.openings.auxiliary_polys_next.as_mut().map_or(false, |v| v.pop().is_some()))));
            muts.push(("auxiliary_polys_cap := None", Box::new(|p, _| { let had = p.auxiliary_polys_cap.is_some(); p.auxiliary_polys_cap = None; had })));
            muts.push(("public_inputs pop", Box::new(|_, pi| pi.pop().is_some())));
            muts.push(("public_inputs dup", Box::new(|_, pi| { pi.push(F::ZERO); true })));
            let mut n = 0;
            for (name, f) in &muts {
                let mut p = base.proof.clone();
                let mut pi = base.pis.clone();
                if !f(&mut p, &mut pi) {
                    continue;
                }
                n += 1;
                let rejected = starky::verif_hooks::validate_proof_shape::<F, F::Cfg, S, 2>(stark, &p, &pi, &config).is_err();
                if !rejected {
                    not_rejected.push(name);
                }
                goals.push(A::Bool(rejected));
            }
            ctx.add(
                Ob::new(format!("{idp}.shape.validate"), F_VERIFY, format!("{bounds}; {n} single option / length changes; structure is concrete"))
                    .sample(format!("validate_proof_shape: Ok on the well-shaped proof, Err after each single change; not rejected: {not_rejected:?}"))
                    .goals(goals)
                    .key("stark-shape-validation:accepts-wrong-shape"),
            );
        }
        let delta = F::var("delta");
        let idx = base.query_indices[0];
        let cap_entry = idx >> (DEGREE_BITS + 1 - 1);
        let last_oracle = base.proof.opening_proof.query_round_proofs[0].initial_trees_proof.evals_proofs.len() - 1;
        let positions = vec![
            SPos::Local(0, 0),
            SPos::Next(cols - 1, 1),
            SPos::Quot(nq - 1, 0),
            SPos::Leaf(0, 0),
            SPos::Leaf(last_oracle, nq - 1),
            SPos::Sibling(0, 0, 0),
            SPos::Sibling(last_oracle, 2, 3),
            SPos::TraceCap(cap_entry, 0),
            SPos::QuotCap(cap_entry, 3),
            SPos::FinalPoly(1, 0),
        ];
        for pos in positions {
            let a1 = run_full::<F, S>(stark, &perturb_sp::<F>(&base, &pos, delta));
            ctx.add(
                Ob::new(format!("{idp}.pin.{pos:?}").replace(' ', ""), F_VERIFY, bounds.clone())
                    .sample(format!("Accept(proof) /\\ Accept(proof[{pos:?} += delta])  ==>  delta == 0"))
                    .assume("challenges held fixed; proof-of-work bits = 0")
                    .hyp(a0.clone())
                    .hyp(a1)
                    .goal(eq(delta, F::ZERO))
                    .injective()
                    .key(format!("stark-verifier:unpinned:{}", format!("{pos:?}").split('(').next().unwrap())),
            );
        }
    });
}

// ------------------------------------------------------------------------------------------
// group 5: lookups and cross-table lookups (Ob10.1, Ob10.2; circuit twins for C11)
// ------------------------------------------------------------------------------------------

const F_LOOKUP: &[&str] = &[
    "starky/src/lookup.rs::eval_packed_lookups_generic",
    "starky/src/lookup.rs::eval_helper_columns",
    "starky/src/lookup.rs::Column::eval_with_next",
    "starky/src/lookup.rs::Filter::eval_filter",
    "starky/src/lookup.rs::GrandProductChallenge::combine",
    "starky/src/vanishing_poly.rs::eval_vanishing_poly",
];
const F_LOOKUP_GEN: &[&str] = &["starky/src/lookup.rs::lookup_helper_columns", "starky/src/lookup.rs::get_helper_cols", "starky/src/lookup.rs::eval_packed_lookups_generic"];
const F_LOOKUP_C: &[&str] = &["starky/src/lookup.rs::eval_ext_lookups_circuit", "starky/src/lookup.rs::eval_helper_columns_circuit", "starky/src/vanishing_poly.rs::eval_vanishing_poly_circuit", "plonky2/src/iop/generator.rs::generate_partial_witness"];
const F_CTL: &[&str] = &["starky/src/cross_table_lookup.rs::eval_cross_table_lookup_checks", "starky/src/lookup.rs::eval_helper_columns", "starky/src/lookup.rs::GrandProductChallenge::combine"];
const F_CTL_GEN: &[&str] = &["starky/src/cross_table_lookup.rs::cross_table_lookup_data", "starky/src/cross_table_lookup.rs::partial_sums", "starky/src/cross_table_lookup.rs::ctl_helper_zs_cols", "starky/src/lookup.rs::get_helper_cols", "starky/src/cross_table_lookup.rs::eval_cross_table_lookup_checks"];
const F_CTL_C: &[&str] = &["starky/src/cross_table_lookup.rs::eval_cross_table_lookup_checks_circuit", "starky/src/lookup.rs::eval_helper_columns_circuit", "plonky2/src/iop/generator.rs::generate_partial_witness"];
const F_CTL_V: &[&str] = &["starky/src/cross_table_lookup.rs::verify_cross_table_lookups"];

/// Reference constraint list of the logUp argument of S3 for one challenge x, from the doc
/// comments of lookup.rs: helper columns h with h*(x+f_i)(x+f_j) = filter_i (x+f_j) + filter_j
/// (x+f_i) (batches of deg-1 looking columns), Z = 0 on the first row, and on every row
/// (Z' - Z)(t+x) = (sum h)(t+x) - m.
fn lookup_ref<E: Field>(deg: usize, lv: &[E], aux: &[E], aux_next: &[E], x: E) -> Vec<(K, E)> {
    let (a, b, t, m, f) = (lv[0], lv[1], lv[2], lv[3], lv[4]);
    let mut cs = vec![];
    let nh;
    if deg == 3 {
        nh = 1;
        cs.push((K::All, (a + x) * (b + x) * aux[0] - (E::ONE * (b + x) + f * (a + x))));
    } else {
        nh = 2;
        cs.push((K::All, (a + x) * aux[0] - E::ONE));
        cs.push((K::All, (b + x) * aux[1] - f));
    }
    let z = aux[nh];
    let zn = aux_next[nh];
    let hs = (0..nh).fold(E::ZERO, |s, i| s + aux[i]);
    cs.push((K::First, z));
    cs.push((K::All, (zn - z) * (t + x) - (hs * (t + x) - m)));
    cs
}

fn lookup_obs<F: VF>(ctx: &mut Ctx) {
    for (deg, next_table) in [(3usize, false), (2, false), (3, true)] {
        let stark = LookupS::<F, 2> { deg, next_table, _p: PhantomData };
        let nh = if deg == 3 { 2 } else { 3 }; // helper columns + Z, per challenge
        // --- evaluator against the reference, symbolic frames, two challenges
        let idp = format!("C10.S.stark.lookup.deg{deg}.reference");
        ctx.guarded(&idp.clone(), F_LOOKUP, |ctx| {
            if next_table {
                return;
            }
            if F::SYMBOLIC {
                crate::reset();
            }
            let lv: Vec<Ext<F>> = (0..5).map(|j| F::ext(&format!("l{j}"))).collect();
            let nv: Vec<Ext<F>> = (0..5).map(|j| F::ext(&format!("n{j}"))).collect();
            let aux: Vec<Ext<F>> = (0..2 * nh).map(|j| F::ext(&format!("aux{j}"))).collect();
            let auxn: Vec<Ext<F>> = (0..2 * nh).map(|j| F::ext(&format!("auxn{j}"))).collect();
            let xs = vec![F::var("x0"), F::var("x1")];
            let al = [F::ext("alpha0"), F::ext("alpha1")];
            let (zl, lf, ll) = (F::ext("zlast"), F::ext("lfirst"), F::ext("llast"));
            let vars = <LookupS<F, 2> as Stark<F, 2>>::EvaluationFrame::<Ext<F>, Ext<F>, 2>::from_values(&lv, &nv, &[]);
            let mut cons = ConstraintConsumer::<Ext<F>>::new(al.to_vec(), zl, lf, ll);
            hk::eval_vanishing_poly::<F, Ext<F>, Ext<F>, LookupS<F, 2>, 2, 2>(&stark, &vars, &stark.lookups(), Some((aux.clone(), auxn.clone(), xs.clone())), None, &mut cons);
            let acc = cons.accumulators();
            let mut cs = vec![(K::All, lv[4] * lv[4] - lv[4])];
            for c in 0..2 {
                cs.extend(lookup_ref::<Ext<F>>(deg, &lv, &aux[c * nh..(c + 1) * nh], &auxn[c * nh..(c + 1) * nh], emb::<F>(xs[c])));
            }
            let mut goals = vec![A::Bool(acc.len() == 2), A::Bool(stark.lookups()[0].num_helper_columns(deg) == nh)];
            for i in 0..2 {
                goals.extend(eq_ext::<F>(acc[i], combine_ref(&cs, al[i], zl, lf, ll)));
            }
            ctx.add(
                Ob::new(idp.clone(), F_LOOKUP, format!("lookup STARK S3 (looking columns a, b with filter f on b; table t; multiplicities m), declared constraint degree {deg}; rows, auxiliary openings, 2 lookup challenges, alphas, filters: symbols"))
                    .sample(format!("eval_vanishing_poly with lookups == reference list: own constraint, then per challenge x: helper-column constraint(s), first-row Z == 0, every-row (Z'-Z)(t+x) - (sum h (t+x) - m)   [{} constraints]", cs.len()))
                    .goals(goals)
                    .key("lookup:constraints-differ-from-reference"),
            );
        });

        // --- the generator's columns satisfy the constraints on every row, wrap-around included
        let idp = if next_table { "C10.S.stark.lookup.next-row-table.helper-columns".to_string() } else { format!("C10.S.stark.lookup.deg{deg}.helper-columns") };
        ctx.guarded(&idp.clone(), F_LOOKUP_GEN, |ctx| {
            if F::SYMBOLIC {
                crate::reset();
            }
            let n = 4usize;
            let t: Vec<F> = (0..n).map(|j| F::var(&format!("t{j}"))).collect();
            let sigma = [1usize, 1, 3, 0];
            let tau = [2usize, 0, 0, 3];
            let fbits = [1u64, 0, 1, 0];
            let mult = [2u64, 2, 1, 1];
            let x = F::var("x");
            let mk_rows = |a0: F| -> Vec<Vec<F>> {
                (0..n)
                    .map(|j| {
                        let a = if j == 0 { a0 } else { t[sigma[j]] };
                        let b = if fbits[j] == 1 { t[tau[j]] } else { F::var(&format!("junk{j}")) };
                        // with the table read from the next row, row j's table entry is t_{j+1}
                        let mj = if next_table { mult[(j + 1) % n] } else { mult[j] };
                        vec![a, b, t[j], F::from_canonical_u64(mj), F::from_canonical_u64(fbits[j])]
                    })
                    .collect()
            };
            let eval_rows = |rows: &Vec<Vec<F>>, al: &[F]| -> Vec<Vec<F>> {
                let trace: Vec<PolynomialValues<F>> = (0..5).map(|c| PolynomialValues::new(rows.iter().map(|r| r[c]).collect())).collect();
                let helpers = hk::lookup_helper_columns::<F>(&stark.lookups()[0], &trace, x, deg);
                assert_eq!(helpers.len(), nh);
                let g = F::primitive_root_of_unity(2);
                (0..n)
                    .map(|j| {
                        let jn = (j + 1) % n;
                        let vars = <LookupS<F, 2> as Stark<F, 2>>::EvaluationFrame::<F, F, 1>::from_values(&rows[j], &rows[jn], &[]);
                        let z_last = pow(g, j) - pow(g, n - 1);
                        let mut cons = ConstraintConsumer::<F>::new(al.to_vec(), z_last, if j == 0 { F::ONE } else { F::ZERO }, if j == n - 1 { F::ONE } else { F::ZERO });
                        hk::eval_packed_lookups_generic::<F, F, F, LookupS<F, 2>, 2, 1>(
                            &stark,
                            &stark.lookups(),
                            &vars,
                            helpers.iter().map(|h| h.values[j]).collect(),
                            helpers.iter().map(|h| h.values[jn]).collect(),
                            vec![x],
                            &mut cons,
                        );
                        cons.accumulators()
                    })
                    .collect()
            };
            let al = [F::var("alpha0"), F::var("alpha1")];
            let bounds = format!("S3 with declared degree {deg}, 4-row trace on the real subgroup: table cells t_j symbols, looking cells a_j = t_sigma(j), b_j = t_tau(j) on rows with f = 1 and a junk symbol on rows with f = 0, multiplicities the true counts; challenge and 2 alphas symbolic");
            let accs = eval_rows(&mk_rows(t[sigma[0]]), &al);
            let goals: Vec<A> = accs.iter().flatten().map(|a| eq(*a, F::ZERO)).collect();
            ctx.add(
                Ob::new(format!("{idp}.satisfy"), F_LOOKUP_GEN, if next_table { format!("{bounds}; table_column = Column::single_next_row(2) (row j's table entry is t_(j+1), multiplicities shifted accordingly)") } else { bounds.clone() })
                    .sample("columns produced by lookup_helper_columns satisfy every lookup constraint at every row, including the every-row Z relation across the wrap-around (last -> first), i.e. the total log-derivative sum is 0")
                    .goals(goals)
                    .key(if next_table { "lookup:next-row-table-column:prover-and-constraints-disagree" } else { "lookup:helper-columns-violate-constraints" }),
            );
            if next_table {
                return;
            }
            // a looked-up value that is not the table entry it is counted for
            let u = F::var("u");
            let rows = mk_rows(u);
            let accs = eval_rows(&rows, &al);
            let mut goals = vec![];
            for j in 0..n - 1 {
                for a in &accs[j] {
                    goals.push(eq(*a, F::ZERO));
                }
            }
            // at the last row only the every-row Z relation is live: W * (u+x)(t1+x) == (u-t1)(t3+x)
            for a in &accs[n - 1] {
                goals.push(eq(*a * (u + x) * (t[sigma[0]] + x), (u - t[sigma[0]]) * (t[n - 1] + x)));
            }
            ctx.add(
                Ob::new(format!("{idp}.absent-value"), F_LOOKUP_GEN, format!("{bounds}; looking cell a_0 replaced by a fresh symbol u, multiplicities unchanged"))
                    .sample("with a_0 := u the generated columns still satisfy all constraints on rows 0..n-2, and the wrap-around value W of the Z relation at the last row satisfies W*(u+x)(t_1+x) == (u - t_1)(t_3+x): all denominators being non-zero, W == 0 iff u == t_1 (the value must be the table entry it is counted for)")
                    .goals(goals)
                    .key("lookup:absent-value-accepted"),
            );
        });

        // --- in-circuit twin
        let idp = format!("C11.S.stark.lookup.deg{deg}.circuit");
        ctx.guarded(&idp.clone(), F_LOOKUP_C, |ctx| {
            if next_table {
                return;
            }
            if F::SYMBOLIC {
                crate::reset();
            }
            let lv: Vec<Ext<F>> = (0..5).map(|j| F::ext(&format!("l{j}"))).collect();
            let nv: Vec<Ext<F>> = (0..5).map(|j| F::ext(&format!("n{j}"))).collect();
            let aux: Vec<Ext<F>> = (0..2 * nh).map(|j| F::ext(&format!("aux{j}"))).collect();
            let auxn: Vec<Ext<F>> = (0..2 * nh).map(|j| F::ext(&format!("auxn{j}"))).collect();
            let xs = vec![F::var("x0"), F::var("x1")];
            let al = [F::var("alpha0"), F::var("alpha1")];
            let (zl, lf, ll) = (F::ext("zlast"), F::ext("lfirst"), F::ext("llast"));
            let vars = <LookupS<F, 2> as Stark<F, 2>>::EvaluationFrame::<Ext<F>, Ext<F>, 2>::from_values(&lv, &nv, &[]);
            let mut cons = ConstraintConsumer::<Ext<F>>::new(vec![emb::<F>(al[0]), emb::<F>(al[1])], zl, lf, ll);
            hk::eval_vanishing_poly::<F, Ext<F>, Ext<F>, LookupS<F, 2>, 2, 2>(&stark, &vars, &stark.lookups(), Some((aux.clone(), auxn.clone(), xs.clone())), None, &mut cons);
            let nat = cons.accumulators();
            let mut circ = Circ::<F>::new();
            let (lt, nt) = (circ.exts(&lv), circ.exts(&nv));
            let (at, ant) = (circ.exts(&aux), circ.exts(&auxn));
            let xt = vec![circ.base(xs[0]), circ.base(xs[1])];
            let alt = vec![circ.base(al[0]), circ.base(al[1])];
            let (zt, lft, llt) = (circ.ext(zl), circ.ext(lf), circ.ext(ll));
            let zero = circ.b.zero_extension();
            let mut rc = RecursiveConstraintConsumer::<F, 2>::new(zero, alt, zt, lft, llt);
            let tvars = <LookupS<F, 2> as Stark<F, 2>>::EvaluationFrameTarget::from_values(&lt, &nt, &[]);
            hk::eval_vanishing_poly_circuit::<F, LookupS<F, 2>, 2>(&mut circ.b, &stark, &tvars, Some((at, ant, xt)), None, &mut rc);
            let outs = rc.accumulators();
            let vals = circ.run(&outs);
            let mut goals = vec![A::Bool(vals.len() == nat.len())];
            for (v, n) in vals.iter().zip(&nat) {
                goals.extend(eq_ext::<F>(*v, *n));
            }
            ctx.add(
                Ob::new(idp.clone(), F_LOOKUP_C, format!("S3 with declared degree {deg}; symbolic frames, auxiliary openings, 2 lookup challenges; circuit through the real builder and generators"))
                    .sample("value(eval_vanishing_poly_circuit incl. eval_ext_lookups_circuit) == eval_vanishing_poly incl. eval_packed_lookups_generic")
                    .goals(goals)
                    .key("lookup-circuit:differs-from-native"),
            );
        });
    }
}

/// column sets of the CTL samples over a 3-column table (v0, v1, f):
/// A = (v0, v1) filtered by f;  B = (v1, v0 of the NEXT row) filtered by f*f
fn ctl_cols_a<F: VF>() -> (Vec<Column<F>>, Filter<F>) {
    (vec![Column::single(0), Column::single(1)], Filter::new_simple(Column::single(2)))
}
fn ctl_cols_b<F: VF>() -> (Vec<Column<F>>, Filter<F>) {
    (vec![Column::single(1), Column::single_next_row(0)], Filter::new(vec![(Column::single(2), Column::single(2))], vec![]))
}
fn ctl_cols_c<F: VF>() -> (Vec<Column<F>>, Filter<F>) {
    (vec![Column::single(2), Column::single(0)], Filter::new_simple(Column::single(1)))
}
fn comb<E: Field>(v: &[E], beta: E, gamma: E) -> E {
    let mut s = gamma;
    for (i, x) in v.iter().enumerate() {
        s += *x * pow(beta, i);
    }
    s
}

#[derive(Copy, Clone, Debug, PartialEq, Eq)]
enum CtlVariant {
    /// one column set, no helper column
    Single,
    /// two column sets from the same table, one helper column (constraint degree 3)
    PairHelper,
    /// two column sets, one helper column each (constraint degree 2)
    PairTwoHelpers,
    /// two column sets and no helper column
    PairNoHelper,
    /// three column sets from the same table at constraint degree 3: one helper column for the
    /// first two, one for the third alone (a last batch that is not full)
    TripleTwoHelpers,
}

impl CtlVariant {
    fn shape(self) -> (usize, usize, usize) {
        // (column sets, helper columns, constraint degree)
        match self {
            CtlVariant::Single => (1, 0, 3),
            CtlVariant::PairHelper => (2, 1, 3),
            CtlVariant::PairTwoHelpers => (2, 2, 2),
            CtlVariant::PairNoHelper => (2, 0, 3),
            CtlVariant::TripleTwoHelpers => (3, 2, 3),
        }
    }
}

/// Reference constraints of one CTL Z column, from the doc comment of
/// `eval_cross_table_lookup_checks` ("Z partial sums are upside down"):
/// last row Z = sum_i filter_i/combine_i, transition Z - Z' = sum_i filter_i/combine_i, stated
/// through helper columns where there are any.
fn ctl_ref<E: Field>(v: CtlVariant, lv: &[E], nv: &[E], h: &[E], z: E, zn: E, beta: E, gamma: E) -> Vec<(K, E)> {
    let c0 = comb(&[lv[0], lv[1]], beta, gamma);
    let f0 = lv[2];
    let c1 = comb(&[lv[1], nv[0]], beta, gamma);
    let f1 = lv[2] * lv[2];
    let c2 = comb(&[lv[2], lv[0]], beta, gamma);
    let f2 = lv[1];
    match v {
        CtlVariant::Single => vec![(K::Last, c0 * z - f0), (K::Trans, c0 * (z - zn) - f0)],
        CtlVariant::PairHelper => vec![(K::All, c0 * c1 * h[0] - (f0 * c1 + f1 * c0)), (K::Last, z - h[0]), (K::Trans, z - zn - h[0])],
        CtlVariant::PairTwoHelpers => vec![(K::All, c0 * h[0] - f0), (K::All, c1 * h[1] - f1), (K::Last, z - (h[0] + h[1])), (K::Trans, z - zn - (h[0] + h[1]))],
        CtlVariant::PairNoHelper => vec![(K::Last, c0 * c1 * z - (f0 * c1 + f1 * c0)), (K::Trans, c0 * c1 * (z - zn) - (f0 * c1 + f1 * c0))],
        CtlVariant::TripleTwoHelpers => vec![(K::All, c0 * c1 * h[0] - (f0 * c1 + f1 * c0)), (K::All, c2 * h[1] - f2), (K::Last, z - (h[0] + h[1])), (K::Trans, z - zn - (h[0] + h[1]))],
    }
}

fn ctl_obs<F: VF>(ctx: &mut Ctx) {
    let variants = [CtlVariant::Single, CtlVariant::PairHelper, CtlVariant::PairTwoHelpers, CtlVariant::PairNoHelper, CtlVariant::TripleTwoHelpers];
    // --- evaluator against the reference, and the in-circuit twin against the native evaluator
    for v in variants {
        let (nsets, nhelp, deg) = v.shape();
        let (ca, fa) = ctl_cols_a::<F>();
        let (cb, fb) = ctl_cols_b::<F>();
        let (cc, fc) = ctl_cols_c::<F>();
        let idp = format!("C10.S.stark.ctl.{v:?}.reference");
        ctx.guarded(&idp.clone(), F_CTL, |ctx| {
            if F::SYMBOLIC {
                crate::reset();
            }
            let lv: Vec<Ext<F>> = (0..3).map(|j| F::ext(&format!("l{j}"))).collect();
            let nv: Vec<Ext<F>> = (0..3).map(|j| F::ext(&format!("n{j}"))).collect();
            let h: Vec<Ext<F>> = (0..nhelp).map(|j| F::ext(&format!("h{j}"))).collect();
            let (z, zn) = (F::ext("z"), F::ext("zn"));
            let (beta, gamma) = (F::var("beta"), F::var("gamma"));
            let al = [F::ext("alpha0"), F::ext("alpha1")];
            let (zl, lf, ll) = (F::ext("zlast"), F::ext("lfirst"), F::ext("llast"));
            let mut columns: Vec<&[Column<F>]> = vec![&ca[..]];
            let mut filters = vec![fa.clone()];
            if nsets >= 2 {
                columns.push(&cb[..]);
                filters.push(fb.clone());
            }
            if nsets >= 3 {
                columns.push(&cc[..]);
                filters.push(fc.clone());
            }
            let cv = hk::ctl_check_vars::<F, Ext<F>, Ext<F>, 2>(h.clone(), z, zn, GrandProductChallenge { beta, gamma }, columns, filters);
            let vars = <CtlS<F, 2> as Stark<F, 2>>::EvaluationFrame::<Ext<F>, Ext<F>, 2>::from_values(&lv, &nv, &[]);
            let mut cons = ConstraintConsumer::<Ext<F>>::new(al.to_vec(), zl, lf, ll);
            hk::eval_cross_table_lookup_checks::<F, Ext<F>, Ext<F>, CtlS<F, 2>, 2, 2>(&vars, &[cv], &mut cons, deg);
            let acc = cons.accumulators();
            let cs = ctl_ref::<Ext<F>>(v, &lv, &nv, &h, z, zn, emb::<F>(beta), emb::<F>(gamma));
            let mut goals = vec![A::Bool(acc.len() == 2)];
            for i in 0..2 {
                goals.extend(eq_ext::<F>(acc[i], combine_ref(&cs, al[i], zl, lf, ll)));
            }
            ctx.add(
                Ob::new(idp.clone(), F_CTL, format!("CTL variant {v:?}: {nsets} column set(s) over a 3-column table (set A = (v0, v1) filtered by f; set B = (v1, next-row v0) filtered by f*f), {nhelp} helper column(s), constraint degree {deg}; rows, Z, Z', helper openings, beta, gamma, alphas, filters: symbols"))
                    .sample(format!("eval_cross_table_lookup_checks == reference list ({} constraints): helper-column constraints, last row Z == sum filter/combine, transition Z - Z' == sum filter/combine (cleared of denominators)", cs.len()))
                    .goals(goals)
                    .key("ctl:constraints-differ-from-reference"),
            );
        });

        // degree: every constraint the evaluator emits must have total degree <= the declared
        // constraint degree in the trace / auxiliary openings, the Lagrange selectors counting as
        // degree 1 (quotient_degree_factor = constraint_degree - 1)
        for d in [2usize, 3] {
            // what cross_table_lookup_data / CtlCheckVars::from_proof produce at this degree: a table
            // occurring once has no helper column; k > 1 occurrences have ceil(k / (d - 1)) helpers
            let nh = if nsets < 2 { 0 } else { (nsets + d - 2) / (d - 1) };
            if nh != nhelp {
                continue;
            }
            let idp = format!("C10.S.stark.ctl.{v:?}.degree{d}");
            ctx.guarded(&idp.clone(), F_CTL, |ctx| {
                if F::SYMBOLIC {
                    crate::reset();
                }
                let (beta, gamma) = (F::var("beta"), F::var("gamma"));
                let al = [F::ext("alpha0")];
                // z_last = x - g^(n-1) has degree 1 in x (not n - 1 like an opening): a constant here
                let zl = F::ext("zlast");
                let nin = 2 * (3 + 3 + nhelp + 2 + 2);
                let got = crate::ctx::degree_of::<F>("t", nin, 5, |x: &[F]| {
                    let e: Vec<Ext<F>> = x.chunks(2).map(|c| ext_of::<F>(c[0], c[1])).collect();
                    let (lv, nv, h) = (&e[0..3], &e[3..6], e[6..6 + nhelp].to_vec());
                    let o = 6 + nhelp;
                    let (z, zn, lf, ll) = (e[o], e[o + 1], e[o + 2], e[o + 3]);
                    let mut columns: Vec<&[Column<F>]> = vec![&ca[..]];
                    let mut filters = vec![fa.clone()];
                    if nsets >= 2 {
                        columns.push(&cb[..]);
                        filters.push(fb.clone());
                    }
                    if nsets >= 3 {
                        columns.push(&cc[..]);
                        filters.push(fc.clone());
                    }
                    let cv = hk::ctl_check_vars::<F, Ext<F>, Ext<F>, 2>(h, z, zn, GrandProductChallenge { beta, gamma }, columns, filters);
                    let vars = <CtlS<F, 2> as Stark<F, 2>>::EvaluationFrame::<Ext<F>, Ext<F>, 2>::from_values(lv, nv, &[]);
                    let mut cons = ConstraintConsumer::<Ext<F>>::new(al.to_vec(), zl, lf, ll);
                    hk::eval_cross_table_lookup_checks::<F, Ext<F>, Ext<F>, CtlS<F, 2>, 2, 2>(&vars, &[cv], &mut cons, d);
                    let acc = cons.accumulators();
                    acc.iter().flat_map(|a| { let b: [F; 2] = a.to_basefield_array(); b.to_vec() }).collect()
                });
                ctx.add(
                    Ob::new(idp.clone(), F_CTL, format!("CTL variant {v:?} ({nsets} column set(s) of one table, {nhelp} helper column(s)) as the prover lays it out at constraint degree {d}; set B's filter f*f has degree 2; openings, selectors: symbols; challenges: constants"))
                        .sample(format!("total degree of the alpha-combined constraints of eval_cross_table_lookup_checks in (local, next, helper, Z, Z' openings, L_first, L_last) <= {d}: otherwise the quotient does not fit quotient_degree_factor = {} and honest proofs are rejected; observed degree {got}", d - 1))
                        .goal(A::Bool(got <= d))
                        .key(format!("ctl:constraint-degree-exceeded:{v:?}:declared{d}:actual{got}")),
                );
            });
        }

        let idp = format!("C11.S.stark.ctl.{v:?}.circuit");
        ctx.guarded(&idp.clone(), F_CTL_C, |ctx| {
            if F::SYMBOLIC {
                crate::reset();
            }
            let lv: Vec<Ext<F>> = (0..3).map(|j| F::ext(&format!("l{j}"))).collect();
            let nv: Vec<Ext<F>> = (0..3).map(|j| F::ext(&format!("n{j}"))).collect();
            let h: Vec<Ext<F>> = (0..nhelp).map(|j| F::ext(&format!("h{j}"))).collect();
            let (z, zn) = (F::ext("z"), F::ext("zn"));
            let (beta, gamma) = (F::var("beta"), F::var("gamma"));
            let al = [F::var("alpha0"), F::var("alpha1")];
            let (zl, lf, ll) = (F::ext("zlast"), F::ext("lfirst"), F::ext("llast"));
            let mut columns: Vec<&[Column<F>]> = vec![&ca[..]];
            let mut columns_t: Vec<Vec<Column<F>>> = vec![ca.clone()];
            let mut filters = vec![fa.clone()];
            if nsets >= 2 {
                columns.push(&cb[..]);
                columns_t.push(cb.clone());
                filters.push(fb.clone());
            }
            if nsets >= 3 {
                columns.push(&cc[..]);
                columns_t.push(cc.clone());
                filters.push(fc.clone());
            }
            let cv = hk::ctl_check_vars::<F, Ext<F>, Ext<F>, 2>(h.clone(), z, zn, GrandProductChallenge { beta, gamma }, columns, filters.clone());
            let vars = <CtlS<F, 2> as Stark<F, 2>>::EvaluationFrame::<Ext<F>, Ext<F>, 2>::from_values(&lv, &nv, &[]);
            let mut cons = ConstraintConsumer::<Ext<F>>::new(vec![emb::<F>(al[0]), emb::<F>(al[1])], zl, lf, ll);
            hk::eval_cross_table_lookup_checks::<F, Ext<F>, Ext<F>, CtlS<F, 2>, 2, 2>(&vars, &[cv], &mut cons, deg);
            let nat = cons.accumulators();

            let mut circ = Circ::<F>::new();
            let (lt, nt) = (circ.exts(&lv), circ.exts(&nv));
            let ht = circ.exts(&h);
            let (zt, znt) = (circ.ext(z), circ.ext(zn));
            let (bt, gt) = (circ.base(beta), circ.base(gamma));
            let alt = vec![circ.base(al[0]), circ.base(al[1])];
            let (zlt, lft, llt) = (circ.ext(zl), circ.ext(lf), circ.ext(ll));
            let zero = circ.b.zero_extension();
            let mut rc = RecursiveConstraintConsumer::<F, 2>::new(zero, alt, zlt, lft, llt);
            let tvars = <CtlS<F, 2> as Stark<F, 2>>::EvaluationFrameTarget::from_values(&lt, &nt, &[]);
            let cvt = hk::ctl_check_vars_target::<F, 2>(ht, zt, znt, GrandProductChallenge { beta: bt, gamma: gt }, columns_t, filters);
            hk::eval_cross_table_lookup_checks_circuit::<CtlS<F, 2>, F, 2>(&mut circ.b, &tvars, &[cvt], &mut rc, deg);
            let outs = rc.accumulators();
            let vals = circ.run(&outs);
            let mut goals = vec![A::Bool(vals.len() == nat.len())];
            for (x, n) in vals.iter().zip(&nat) {
                goals.extend(eq_ext::<F>(*x, *n));
            }
            let mut ob = Ob::new(idp.clone(), F_CTL_C, format!("CTL variant {v:?} ({nsets} column set(s), {nhelp} helper column(s), constraint degree {deg}); everything symbolic; circuit through the real builder and generators"))
                .sample("value(eval_cross_table_lookup_checks_circuit) == eval_cross_table_lookup_checks")
                .goals(goals)
                .key(format!("ctl-circuit:differs-from-native:{v:?}"));
            if v == CtlVariant::PairNoHelper {
                ob = ob.assume("this branch (two column sets from one table and no helper column) is not produced by cross_table_lookup_data / CtlCheckVars::from_proof with consistent arguments; it is reachable through the public from_proof with num_helper_ctl_columns = 0");
            }
            ctx.add(ob);
        });
    }

    // --- cross_table_lookup_data (partial_sums) on concrete 4-row tables with symbolic cells
    for pair in [false, true] {
        let tag = if pair { "pair" } else { "single" };
        let idp = format!("C10.S.stark.ctl.data.{tag}");
        ctx.guarded(&idp.clone(), F_CTL_GEN, |ctx| {
            if F::SYMBOLIC {
                crate::reset();
            }
            let n = 4usize;
            let deg = 3usize;
            let (ca, fa) = ctl_cols_a::<F>();
            let (cb, fb) = ctl_cols_b::<F>();
            // single: set A selects rows 0, 2, 3; pair: sets A and B both select rows 1 and 3 (set B's
            // tuple of row 3 reads v0 of row 0 across the wrap-around)
            let fbits: [u64; 4] = if pair { [0, 1, 0, 1] } else { [1, 0, 1, 1] };
            let (beta, gamma) = (F::var("beta"), F::var("gamma"));
            let al = [F::var("alpha0"), F::var("alpha1")];
            // looking table: symbolic cells, concrete filter
            let mk_looking = |v00: F| -> Vec<Vec<F>> {
                (0..n).map(|j| vec![if j == 0 { v00 } else { F::var(&format!("v0_{j}")) }, F::var(&format!("v1_{j}")), F::from_canonical_u64(fbits[j])]).collect()
            };
            let honest = mk_looking(F::var("v0_0"));
            // looked table: exactly the selected tuples of the honest looking table, junk rows
            // filtered out
            let mut looked_rows: Vec<Vec<F>> = vec![];
            let mut sel: Vec<(F, F)> = vec![];
            for j in [2usize, 0, 3, 1] {
                if fbits[j] == 1 {
                    sel.push((honest[j][0], honest[j][1]));
                }
            }
            if pair {
                for j in [3usize, 1] {
                    sel.push((honest[j][1], honest[(j + 1) % n][0]));
                }
            }
            let nl = 4usize;
            assert!(sel.len() <= nl);
            for k in 0..nl {
                if k < sel.len() {
                    looked_rows.push(vec![sel[k].0, sel[k].1, F::ONE]);
                } else {
                    looked_rows.push(vec![F::var(&format!("junk0_{k}")), F::var(&format!("junk1_{k}")), F::ZERO]);
                }
            }
            let mut looking_twc = vec![TableWithColumns::new(0, ca.clone(), fa.clone())];
            if pair {
                looking_twc.push(TableWithColumns::new(0, cb.clone(), fb.clone()));
            }
            let ctls = vec![CrossTableLookup::new(looking_twc, TableWithColumns::new(1, ca.clone(), fa.clone()))];
            let to_polys = |rows: &Vec<Vec<F>>| -> Vec<PolynomialValues<F>> { (0..3).map(|c| PolynomialValues::new(rows.iter().map(|r| r[c]).collect())).collect() };
            let chs = GrandProductChallengeSet { challenges: vec![GrandProductChallenge { beta, gamma }] };
            let run = |looking: &Vec<Vec<F>>| {
                let traces = [to_polys(looking), to_polys(&looked_rows)];
                hk::cross_table_lookup_data::<F, 2, 2>(&traces, &ctls, &chs, deg)
            };
            // accumulators of the real evaluator on every row of a table
            let eval_table = |rows: &Vec<Vec<F>>, helpers: &Vec<PolynomialValues<F>>, z: &PolynomialValues<F>, cols: Vec<&[Column<F>]>, filts: Vec<Filter<F>>| -> Vec<Vec<F>> {
                let m = rows.len();
                let g = F::primitive_root_of_unity(m.trailing_zeros() as usize);
                (0..m)
                    .map(|j| {
                        let jn = (j + 1) % m;
                        let vars = <CtlS<F, 2> as Stark<F, 2>>::EvaluationFrame::<F, F, 1>::from_values(&rows[j], &rows[jn], &[]);
                        let cv = hk::ctl_check_vars::<F, F, F, 1>(helpers.iter().map(|h| h.values[j]).collect(), z.values[j], z.values[jn], GrandProductChallenge { beta, gamma }, cols.clone(), filts.clone());
                        let mut cons = ConstraintConsumer::<F>::new(al.to_vec(), pow(g, j) - pow(g, m - 1), if j == 0 { F::ONE } else { F::ZERO }, if j == m - 1 { F::ONE } else { F::ZERO });
                        hk::eval_cross_table_lookup_checks::<F, F, F, CtlS<F, 2>, 2, 1>(&vars, &[cv], &mut cons, deg);
                        cons.accumulators()
                    })
                    .collect()
            };
            let bounds = format!("looking table: 4 rows (v0, v1, f) with symbolic cells and filter bits {fbits:?}, looked through set A{}; looked table: 4 rows holding exactly the selected tuples (plus a filtered-out junk row); beta, gamma, 2 alphas symbolic; constraint degree {deg}", if pair { " and set B (two-row tuples (v1, next v0), filter f*f): one helper column" } else { "" });
            let data = run(&honest);
            let mut goals = vec![A::Bool(data.len() == 2 && data[0].len() == 1 && data[1].len() == 1), A::Bool(data[0][0].0.len() == if pair { 1 } else { 0 }), A::Bool(data[1][0].0.is_empty())];
            let looking_cols: Vec<&[Column<F>]> = if pair { vec![&ca[..], &cb[..]] } else { vec![&ca[..]] };
            let looking_filts = if pair { vec![fa.clone(), fb.clone()] } else { vec![fa.clone()] };
            for a in eval_table(&honest, &data[0][0].0, &data[0][0].1, looking_cols.clone(), looking_filts.clone()).iter().flatten() {
                goals.push(eq(*a, F::ZERO));
            }
            for a in eval_table(&looked_rows, &data[1][0].0, &data[1][0].1, vec![&ca[..]], vec![fa.clone()]).iter().flatten() {
                goals.push(eq(*a, F::ZERO));
            }
            // the value verify_cross_table_lookups compares: first-row Z of looking == looked
            goals.push(eq(data[0][0].1.values[0], data[1][0].1.values[0]));
            ctx.add(
                Ob::new(format!("{idp}.satisfy"), F_CTL_GEN, bounds.clone())
                    .sample("helper columns and Z columns from cross_table_lookup_data (partial_sums) satisfy eval_cross_table_lookup_checks on every row of both tables, and Z_looking[0] == Z_looked[0] when the looked table holds exactly the selected looking tuples")
                    .goals(goals)
                    .key("ctl:partial-sums-violate-constraints"),
            );
            // a looking tuple that is not in the looked table
            let u = F::var("u");
            let bad = mk_looking(u);
            let d2 = run(&bad);
            let c_bad = comb(&[u, honest[0][1]], beta, gamma);
            let c_good = comb(&[honest[0][0], honest[0][1]], beta, gamma);
            let mut goals = vec![];
            for a in eval_table(&bad, &d2[0][0].0, &d2[0][0].1, looking_cols.clone(), looking_filts.clone()).iter().flatten() {
                goals.push(eq(*a, F::ZERO));
            }
            let diff = d2[0][0].1.values[0] - d2[1][0].1.values[0];
            if pair {
                // row 0 is not selected by set A; set B reads v0 of row 0 as the "next" value
                // of row 3 (wrap-around), which is selected
                let c_bad2 = comb(&[honest[3][1], u], beta, gamma);
                let c_good2 = comb(&[honest[3][1], honest[0][0]], beta, gamma);
                goals.push(eq(diff * c_bad2 * c_good2, beta * (honest[0][0] - u)));
            } else {
                goals.push(eq(diff * c_bad * c_good, honest[0][0] - u));
            }
            ctx.add(
                Ob::new(format!("{idp}.absent-tuple"), F_CTL_GEN, format!("{bounds}; looking cell v0 of row 0 replaced by a fresh symbol u, looked table unchanged"))
                    .sample("the columns still satisfy the per-table constraints, and (Z_looking[0] - Z_looked[0]) * combine(u, v1_0) * combine(v0_0, v1_0) == v0_0 - u (single set; pair: the changed tuple is set B's two-row tuple (v1_3, v0_0) across the wrap-around and the right-hand side is beta*(v0_0 - u)): denominators (and beta) being non-zero, the first-row openings agree iff u == v0_0")
                    .goals(goals)
                    .key("ctl:absent-tuple-accepted"),
            );
        });
    }

    // --- topology: the same looking table occurring NON-consecutively ([T0, T1, T0]); every
    // consumer of the declaration (num_ctl_helpers_zs_all, CtlCheckVars::from_proof,
    // verify_cross_table_lookups) treats all occurrences of a table as one group with one Z
    ctx.guarded("C10.S.stark.ctl.data.interleaved", F_CTL_GEN, |ctx| {
        if F::SYMBOLIC {
            crate::reset();
        }
        let deg = 3usize;
        let (ca, fa) = ctl_cols_a::<F>();
        let (cb, fb) = ctl_cols_b::<F>();
        let (beta, gamma) = (F::var("beta"), F::var("gamma"));
        let al = [F::var("alpha0"), F::var("alpha1")];
        let fb0: [u64; 4] = [0, 1, 0, 0];
        let fb1: [u64; 4] = [0, 0, 1, 0];
        let t0: Vec<Vec<F>> = (0..4).map(|j| vec![F::var(&format!("v0_{j}")), F::var(&format!("v1_{j}")), F::from_canonical_u64(fb0[j])]).collect();
        // (T1's cells are concrete except the selected row's first cell: keeps the common denominator small)
        let t1: Vec<Vec<F>> = (0..4).map(|j| vec![if fb1[j] == 1 { F::var(&format!("w0_{j}")) } else { F::from_canonical_u64(1000 + j as u64) }, F::from_canonical_u64(2000 + 7 * j as u64), F::from_canonical_u64(fb1[j])]).collect();
        let mut sel: Vec<(F, F)> = vec![];
        for j in 0..4 {
            if fb0[j] == 1 {
                sel.push((t0[j][0], t0[j][1]));
                sel.push((t0[j][1], t0[(j + 1) % 4][0]));
            }
            if fb1[j] == 1 {
                sel.push((t1[j][0], t1[j][1]));
            }
        }
        let looked: Vec<Vec<F>> = (0..4).map(|k| if k < sel.len() { vec![sel[k].0, sel[k].1, F::ONE] } else { vec![F::var(&format!("junk0_{k}")), F::var(&format!("junk1_{k}")), F::ZERO] }).collect();
        let ctls = vec![CrossTableLookup::new(
            vec![TableWithColumns::new(0, ca.clone(), fa.clone()), TableWithColumns::new(1, ca.clone(), fa.clone()), TableWithColumns::new(0, cb.clone(), fb.clone())],
            TableWithColumns::new(2, ca.clone(), fa.clone()),
        )];
        let to_polys = |rows: &Vec<Vec<F>>| -> Vec<PolynomialValues<F>> { (0..3).map(|c| PolynomialValues::new(rows.iter().map(|r| r[c]).collect())).collect() };
        let chs = GrandProductChallengeSet { challenges: vec![GrandProductChallenge { beta, gamma }] };
        let traces = [to_polys(&t0), to_polys(&t1), to_polys(&looked)];
        let res = std::panic::catch_unwind(std::panic::AssertUnwindSafe(|| hk::cross_table_lookup_data::<F, 2, 3>(&traces, &ctls, &chs, deg)));
        let eval_table = |rows: &Vec<Vec<F>>, helpers: &Vec<PolynomialValues<F>>, z: &PolynomialValues<F>, cols: Vec<&[Column<F>]>, filts: Vec<Filter<F>>| -> Vec<Vec<F>> {
            let m = rows.len();
            let g = F::primitive_root_of_unity(m.trailing_zeros() as usize);
            (0..m)
                .map(|j| {
                    let jn = (j + 1) % m;
                    let vars = <CtlS<F, 2> as Stark<F, 2>>::EvaluationFrame::<F, F, 1>::from_values(&rows[j], &rows[jn], &[]);
                    let cv = hk::ctl_check_vars::<F, F, F, 1>(helpers.iter().map(|h| h.values[j]).collect(), z.values[j], z.values[jn], GrandProductChallenge { beta, gamma }, cols.clone(), filts.clone());
                    let mut cons = ConstraintConsumer::<F>::new(al.to_vec(), pow(g, j) - pow(g, m - 1), if j == 0 { F::ONE } else { F::ZERO }, if j == m - 1 { F::ONE } else { F::ZERO });
                    hk::eval_cross_table_lookup_checks::<F, F, F, CtlS<F, 2>, 2, 1>(&vars, &[cv], &mut cons, deg);
                    cons.accumulators()
                })
                .collect()
        };
        let mut goals = vec![A::Bool(res.is_ok())];
        let mut shape = String::from("panicked");
        if let Ok(data) = res {
            shape = format!("{:?}", data.iter().map(|d| d.iter().map(|(h, _)| h.len()).collect::<Vec<_>>()).collect::<Vec<_>>());
            let ok_shape = data.len() == 3 && data[0].len() == 1 && data[1].len() == 1 && data[2].len() == 1 && data[0][0].0.len() == 1 && data[1][0].0.is_empty() && data[2][0].0.is_empty();
            goals.push(A::Bool(ok_shape));
            if ok_shape {
                { for a in eval_table(&t0, &data[0][0].0, &data[0][0].1, vec![&ca[..], &cb[..]], vec![fa.clone(), fb.clone()]).iter().flatten() {
                    goals.push(eq(*a, F::ZERO));
                } }
                { for a in eval_table(&t1, &data[1][0].0, &data[1][0].1, vec![&ca[..]], vec![fa.clone()]).iter().flatten() {
                    goals.push(eq(*a, F::ZERO));
                } }
                { for a in eval_table(&looked, &data[2][0].0, &data[2][0].1, vec![&ca[..]], vec![fa.clone()]).iter().flatten() {
                    goals.push(eq(*a, F::ZERO));
                } }
                // first-row openings: each equals the sum of 1/combine over its selected tuples
                // (three separate goals: one common denominator for all three tables is too large
                // for the normaliser); the looked table holds exactly the union of those tuples,
                // so Z_T0[0] + Z_T1[0] == Z_T2[0]
                let inv = |a: F, b: F| F::assume_ne(|| comb(&[a, b], beta, gamma).inverse());
                let r0 = inv(t0[1][0], t0[1][1]) + inv(t0[1][1], t0[2][0]);
                let r1 = inv(t1[2][0], t1[2][1]);
                {
                    goals.push(eq(data[0][0].1.values[0], r0));
                    goals.push(eq(data[1][0].1.values[0], r1));
                }
                {
                    goals.push(eq(data[2][0].1.values[0], r0 + r1));
                }
            }
        }
        ctx.add(
            Ob::new("C10.S.stark.ctl.data.interleaved.satisfy", F_CTL_GEN, format!("one CTL with looking tables [T0 (set A), T1 (set A), T0 (set B)] into T2; 4-row looking tables with symbolic cells and filter bits {fb0:?} / {fb1:?}, 4-row looked table holding exactly the three selected tuples and a filtered-out junk row; constraint degree {deg}; helper-column counts per table observed: {shape}"))
                .sample("cross_table_lookup_data yields ONE running sum per table (T0: both column sets, one helper column), the columns satisfy eval_cross_table_lookup_checks on every row of every table, and Z_T0[0] + Z_T1[0] == Z_T2[0]")
                .goals(goals)
                .key("ctl:repeated-looking-table-not-grouped"),
        );
    });

    // --- verify_cross_table_lookups in accept-path mode
    ctx.guarded("C10.S.stark.ctl.verify", F_CTL_V, |ctx| {
        if F::SYMBOLIC {
            crate::reset();
        }
        let (ca, fa) = ctl_cols_a::<F>();
        let (cb, fb) = ctl_cols_b::<F>();
        // CTL 0: tables 0 (twice) and 1 look into table 2, with extra looking values;
        // CTL 1: table 1 looks into table 0, no extra values
        let ctls = vec![
            CrossTableLookup::new(
                vec![TableWithColumns::new(0, ca.clone(), fa.clone()), TableWithColumns::new(1, ca.clone(), fa.clone()), TableWithColumns::new(0, cb.clone(), fb.clone())],
                TableWithColumns::new(2, ca.clone(), fa.clone()),
            ),
            CrossTableLookup::new(vec![TableWithColumns::new(1, cb.clone(), fb.clone())], TableWithColumns::new(0, ca.clone(), fa.clone())),
        ];
        let config = stark_config();
        // openings per table in the order the verifier consumes them:
        // table 0: ctl0/ch0, ctl0/ch1 (looking), ctl1/ch0, ctl1/ch1 (looked)
        // table 1: ctl0/ch0, ctl0/ch1 (looking), ctl1/ch0, ctl1/ch1 (looking)
        // table 2: ctl0/ch0, ctl0/ch1 (looked)
        let zs: [Vec<F>; 3] = [
            (0..4).map(|k| F::var(&format!("z0_{k}"))).collect(),
            (0..4).map(|k| F::var(&format!("z1_{k}"))).collect(),
            (0..2).map(|k| F::var(&format!("z2_{k}"))).collect(),
        ];
        let extra = vec![F::var("e0"), F::var("e1")];
        let run = |zs: &[Vec<F>; 3], extra: &Vec<F>| -> A {
            let mut m: HbMap<usize, Vec<F>> = HbMap::new();
            m.insert(0, extra.clone());
            let (ok, atoms) = F::accept(|| verify_cross_table_lookups::<F, 2, 3>(&ctls, zs.clone(), &m, &config));
            A::Accept(ok, atoms)
        };
        let reference = |zs: &[Vec<F>; 3], extra: &Vec<F>| -> Vec<A> {
            let mut g = vec![];
            for c in 0..2 {
                g.push(eq(zs[0][c] + zs[1][c] + extra[c], zs[2][c]));
                g.push(eq(zs[1][2 + c], zs[0][2 + c]));
            }
            g
        };
        let bounds = "3 tables, 2 challenges; CTL 0: tables 0 (two column sets) and 1 look into table 2, extra looking sums e0, e1; CTL 1: table 1 looks into table 0; all first-row Z openings and extra sums symbols";
        let a0 = run(&zs, &extra);
        ctx.add(
            Ob::new("C10.S.stark.ctl.verify.sound", F_CTL_V, bounds)
                .sample("verify_cross_table_lookups accepts  ==>  per challenge c: Z_0[c] + Z_1[c] + extra[c] == Z_2[c] (a table looking several times counted once) and Z'_1[c] == Z'_0[c]")
                .hyp(a0.clone())
                .goals(reference(&zs, &extra))
                .key("ctl-verify:acceptance-differs-from-reference"),
        );
        let mut zs2 = zs.clone();
        for c in 0..2 {
            zs2[2][c] = zs[0][c] + zs[1][c] + extra[c];
            zs2[0][2 + c] = zs[1][2 + c];
        }
        ctx.add(
            Ob::new("C10.S.stark.ctl.verify.complete", F_CTL_V, format!("{bounds}; looked openings defined by the reference relation"))
                .sample("openings satisfying the reference relation  ==>  verify_cross_table_lookups accepts")
                .goal(run(&zs2, &extra))
                .key("ctl-verify:acceptance-differs-from-reference"),
        );
        let delta = F::var("delta");
        for t in 0..3 {
            for k in 0..zs[t].len() {
                let mut z3 = zs.clone();
                z3[t][k] += delta;
                ctx.add(
                    Ob::new(format!("C10.S.stark.ctl.verify.pin.z{t}_{k}"), F_CTL_V, bounds)
                        .sample(format!("Accept(openings) /\\ Accept(openings[table {t}][{k}] += delta)  ==>  delta == 0"))
                        .hyp(a0.clone())
                        .hyp(run(&z3, &extra))
                        .goal(eq(delta, F::ZERO))
                        .key("ctl-verify:unpinned-opening"),
                );
            }
        }
        for c in 0..2 {
            let mut e3 = extra.clone();
            e3[c] += delta;
            ctx.add(
                Ob::new(format!("C10.S.stark.ctl.verify.pin.extra{c}"), F_CTL_V, bounds)
                    .sample(format!("Accept(openings, extra) /\\ Accept(openings, extra[{c}] += delta)  ==>  delta == 0"))
                    .hyp(a0.clone())
                    .hyp(run(&zs, &e3))
                    .goal(eq(delta, F::ZERO))
                    .key("ctl-verify:extra-looking-values-ignored"),
            );
        }
    });
}

/// S3's own constraint
fn lookup_own_ref<E: Field>(lv: &[E], _nv: &[E], _pi: &[E]) -> Vec<(K, E)> {
    vec![(K::All, lv[4] * lv[4] - lv[4])]
}
/// S3's lookup constraints for every lookup challenge (they follow the own constraints, for
/// every alpha index alike); the verifier uses `beta` of each challenge pair as the logUp challenge
fn lookup_extra<F: VF>(sp: &SP<F>, _i: usize) -> Vec<(K, Ext<F>)> {
    let o = &sp.proof.openings;
    let (aux, auxn) = (o.auxiliary_polys.as_ref().unwrap(), o.auxiliary_polys_next.as_ref().unwrap());
    let mut cs = vec![];
    for (c, ch) in sp.lookup_challenges.as_ref().unwrap().challenges.iter().enumerate() {
        cs.extend(lookup_ref::<Ext<F>>(3, &o.local_values, &aux[2 * c..2 * c + 2], &auxn[2 * c..2 * c + 2], emb::<F>(ch.beta)));
    }
    cs
}
/// a valid 8-row trace of S3 (see `lookup_obs` for the 4-row pattern)
fn lookup_rows<F: VF>(a0_shift: F) -> Vec<Vec<F>> {
    let n = 8usize;
    let t: Vec<F> = (0..n).map(|j| F::var(&format!("t{j}"))).collect();
    let sigma = [1usize, 1, 3, 0, 5, 5, 7, 2];
    let tau = [2usize, 0, 0, 3, 6, 4, 4, 1];
    let fbits = [1u64, 0, 1, 0, 1, 1, 0, 0];
    let mult = [2u64, 2, 2, 1, 1, 2, 1, 1];
    (0..n)
        .map(|j| {
            let a = if j == 0 { t[sigma[0]] + a0_shift } else { t[sigma[j]] };
            let b = if fbits[j] == 1 { t[tau[j]] } else { F::var(&format!("junk{j}")) };
            vec![a, b, t[j], F::from_canonical_u64(mult[j]), F::from_canonical_u64(fbits[j])]
        })
        .collect()
}
fn lookup_trace<F: VF>(n: usize) -> (Vec<Vec<F>>, Vec<F>) {
    assert_eq!(n, 8);
    (lookup_rows::<F>(F::ZERO), vec![])
}

/// Finding: a STARK that declares `constraint_degree() == 0` (as the repo's own
/// starky/src/permutation_stark.rs does) has `quotient_degree_factor() == 0`, hence no quotient
/// polynomial, and neither prover nor verifier evaluates any constraint: its lookups are not
/// enforced.  Symbolically the obligation is the structural fact; natively the real prover is
/// run on a trace whose looked-up value is NOT in the table and the real verifier is asked.
fn degree0_finding<F: VF>(ctx: &mut Ctx) {
    const FILES: &[&str] = &["starky/src/stark.rs::Stark::quotient_degree_factor", "starky/src/prover.rs::compute_quotient_polys", "starky/src/verifier.rs::verify_stark_proof_with_challenges", "starky/src/permutation_stark.rs::PermutationStark::constraint_degree"];
    ctx.guarded("C10.S.stark.lookup.degree0-enforced", FILES, |ctx| {
        let stark = LookupS::<F, 2> { deg: 0, next_table: false, _p: PhantomData };
        let config = stark_config();
        let structural = !stark.uses_lookups() || stark.num_quotient_polys(&config) > 0;
        let goal = if F::SYMBOLIC {
            structural
        } else {
            // looked-up value t_1 + 1 is (for distinct table entries) not in the table
            let rows = lookup_rows::<F>(F::ONE);
            let trace: Vec<PolynomialValues<F>> = (0..5).map(|c| PolynomialValues::new(rows.iter().map(|r| r[c]).collect())).collect();
            match prove::<F, F::Cfg, LookupS<F, 2>, 2>(stark, &config, trace, &[], None, &mut TimingTree::default()) {
                Err(_) => true,
                Ok(p) => starky::verifier::verify_stark_proof(stark, p, &config, None).is_err(),
            }
        };
        ctx.add(
            Ob::new("C10.S.stark.lookup.degree0-enforced", FILES, "lookup STARK S3 declaring constraint_degree() == 0 (the configuration of the repo's permutation_stark.rs), 8 rows, small StarkConfig")
                .sample("a STARK with lookups has at least one quotient polynomial (symbolic side: structural fact); natively: the real prover + real verify_stark_proof reject a trace whose looked-up value t_1 + 1 is not in the table")
                .goal(A::Bool(goal))
                .key("lookup:constraint-degree-0-disables-all-checks"),
        );
    });
}

// ------------------------------------------------------------------------------------------
// group 6: in-circuit constraint evaluation of the sample STARKs (Ob11.1)
// ------------------------------------------------------------------------------------------

const F_EVAL_C: &[&str] = &[
    "starky/src/vanishing_poly.rs::eval_vanishing_poly_circuit",
    "starky/src/stark.rs::Stark::eval_ext_circuit",
    "starky/src/constraint_consumer.rs::RecursiveConstraintConsumer",
    "plonky2/src/iop/generator.rs::generate_partial_witness",
];

fn circuit_eval_obs<F: VF, S: Stark<F, 2>>(ctx: &mut Ctx, name: &str, stark: &S) {
    let idp = format!("C11.S.stark.vanishing.{name}.circuit");
    ctx.guarded(&idp.clone(), F_EVAL_C, |ctx| {
        if F::SYMBOLIC {
            crate::reset();
        }
        let lv: Vec<Ext<F>> = (0..S::COLUMNS).map(|j| F::ext(&format!("l{j}"))).collect();
        let nv: Vec<Ext<F>> = (0..S::COLUMNS).map(|j| F::ext(&format!("n{j}"))).collect();
        let pi: Vec<Ext<F>> = (0..S::PUBLIC_INPUTS).map(|j| F::ext(&format!("pi{j}"))).collect();
        let al = [F::var("alpha0"), F::var("alpha1")];
        let (zl, lf, ll) = (F::ext("zlast"), F::ext("lfirst"), F::ext("llast"));
        let vars = S::EvaluationFrame::<Ext<F>, Ext<F>, 2>::from_values(&lv, &nv, &pi);
        let mut cons = ConstraintConsumer::<Ext<F>>::new(vec![emb::<F>(al[0]), emb::<F>(al[1])], zl, lf, ll);
        hk::eval_vanishing_poly::<F, Ext<F>, Ext<F>, S, 2, 2>(stark, &vars, &[], None, None, &mut cons);
        let nat = cons.accumulators();
        // eval_ext directly as well (the trait's default forwards to eval_packed_generic)
        let mut cons2 = ConstraintConsumer::<Ext<F>>::new(vec![emb::<F>(al[0]), emb::<F>(al[1])], zl, lf, ll);
        stark.eval_ext(&vars, &mut cons2);
        let nat2 = cons2.accumulators();

        let mut circ = Circ::<F>::new();
        let (lt, nt, pt) = (circ.exts(&lv), circ.exts(&nv), circ.exts(&pi));
        let alt = vec![circ.base(al[0]), circ.base(al[1])];
        let (zlt, lft, llt) = (circ.ext(zl), circ.ext(lf), circ.ext(ll));
        let zero = circ.b.zero_extension();
        let tvars = S::EvaluationFrameTarget::from_values(&lt, &nt, &pt);
        let mut rc = RecursiveConstraintConsumer::<F, 2>::new(zero, alt.clone(), zlt, lft, llt);
        hk::eval_vanishing_poly_circuit::<F, S, 2>(&mut circ.b, stark, &tvars, None, None, &mut rc);
        let mut outs = rc.accumulators();
        let mut rc2 = RecursiveConstraintConsumer::<F, 2>::new(zero, alt, zlt, lft, llt);
        stark.eval_ext_circuit(&mut circ.b, &tvars, &mut rc2);
        outs.extend(rc2.accumulators());
        let vals = circ.run(&outs);
        let mut goals = vec![A::Bool(vals.len() == 4 && nat.len() == 2 && nat2.len() == 2)];
        for (v, n) in vals.iter().zip(nat.iter().chain(nat2.iter())) {
            goals.extend(eq_ext::<F>(*v, *n));
        }
        ctx.add(
            Ob::new(idp.clone(), F_EVAL_C, format!("sample STARK {name}: rows, public inputs, filters extension symbols, 2 base-field alphas; circuit through the real builder and generators"))
                .sample("value(eval_vanishing_poly_circuit / eval_ext_circuit accumulators) == eval_vanishing_poly / eval_ext accumulators")
                .goals(goals)
                .key("stark-circuit:constraints-differ-from-native"),
        );
    });
}

pub fn family<F: VF>(ctx: &mut Ctx) {
    e2e_recursive(ctx);
    let th = ctx.thorough();
    consumer_obs::<F>(ctx);
    lagrange_obs::<F>(ctx);
    let fibs = Fib::<F, 2>(PhantomData);
    let cub = Cubic::<F, 2>(PhantomData);
    vanishing_ref_obs::<F, _>(ctx, "fib", &fibs, fib_ref::<Ext<F>>);
    vanishing_ref_obs::<F, _>(ctx, "cubic", &cub, cubic_ref::<Ext<F>>);
    row_semantics_obs::<F, _>(ctx, "fib", &fibs, 4, fib_trace::<F>, 5);
    row_semantics_obs::<F, _>(ctx, "cubic", &cub, 4, cubic_trace::<F>, 5);
    verifier_obs::<F, _>(ctx, "fib", &fibs, fib_ref::<Ext<F>>, &no_extra::<F>, fib_trace::<F>, &|_| false);
    verifier_obs::<F, _>(ctx, "cubic", &cub, cubic_ref::<Ext<F>>, &no_extra::<F>, cubic_trace::<F>, &|p| matches!(p, SPos::Next(2, _)));
    // S3 through the verifier: the lookup constraints are part of the vanishing identity, the
    // auxiliary openings are pinned by it, the honest proof comes from the real prover (which
    // runs lookup_helper_columns)
    let lk = LookupS::<F, 2> { deg: 3, next_table: false, _p: PhantomData };
    // Every trace / auxiliary opening of S3 except the multiplicity column enters the identity
    // inside a product with other openings (e.g. delta*((b+x)h - f) for column a), so the
    // vanishing stage pins it only for generic values of those (it is bound by FRI regardless);
    // the exact statement for them is `identity.sound` / `identity.complete`. Pinned for all
    // values: the multiplicity opening and the quotient openings.
    verifier_obs::<F, _>(ctx, "lookup", &lk, lookup_own_ref::<Ext<F>>, &lookup_extra::<F>, lookup_trace::<F>, &|p| !matches!(p, SPos::Local(3, _) | SPos::Quot(_, _)));
    degree0_finding::<F>(ctx);
    lookup_obs::<F>(ctx);
    ctl_obs::<F>(ctx);
    circuit_eval_obs::<F, _>(ctx, "fib", &fibs);
    circuit_eval_obs::<F, _>(ctx, "cubic", &cub);
    if th {
        row_semantics_obs::<F, _>(ctx, "fib", &fibs, 8, fib_trace::<F>, 5);
        row_semantics_obs::<F, _>(ctx, "cubic", &cub, 8, cubic_trace::<F>, 5);
    }
}

// ------------------------------------------------------------------------------------------
// C11, end to end on concrete proofs: the recursive STARK verifier circuit is satisfiable exactly
// when the native verifier accepts, for an honest proof and for single-element corruptions of it
// (in-circuit challenger, Merkle verification, FRI and proof of work are exercised as checked
// facts). Concrete structure and values: evaluated facts on the real prover / builder / verifiers.
// ------------------------------------------------------------------------------------------

const F_E2E_REC: &[&str] = &[
    "starky/src/recursive_verifier.rs::verify_stark_proof_circuit",
    "starky/src/recursive_verifier.rs::verify_stark_proof_with_challenges_circuit",
    "starky/src/recursive_verifier.rs::add_virtual_stark_proof_with_pis",
    "starky/src/recursive_verifier.rs::set_stark_proof_with_pis_target",
    "starky/src/get_challenges.rs::StarkProofWithPublicInputsTarget::get_challenges",
    "starky/src/vanishing_poly.rs::eval_vanishing_poly_circuit",
    "starky/src/verifier.rs::verify_stark_proof",
    "plonky2/src/fri/recursive_verifier.rs::CircuitBuilder::verify_fri_proof",
];

fn e2e_recursive_one<S>(ctx: &mut Ctx, sname: &str, stark: S, rows: Vec<Vec<plonky2_field::goldilocks_field::GoldilocksField>>, pis: Vec<plonky2_field::goldilocks_field::GoldilocksField>, cname: &str, config: StarkConfig)
where
    S: Stark<plonky2_field::goldilocks_field::GoldilocksField, 2> + Copy,
{
    e2e_recursive_var(ctx, sname, stark, rows, pis, cname, config, None)
}

/// `var = Some((verifier_degree_bits, min_degree_bits_to_support))`: one circuit sized for the
/// maximum trace length verifies a shorter proof (the variable-degree mode of the recursive verifier).
#[allow(clippy::too_many_arguments)]
fn e2e_recursive_var<S>(ctx: &mut Ctx, sname: &str, stark: S, rows: Vec<Vec<plonky2_field::goldilocks_field::GoldilocksField>>, pis: Vec<plonky2_field::goldilocks_field::GoldilocksField>, cname: &str, config: StarkConfig, var: Option<(usize, usize)>)
where
    S: Stark<plonky2_field::goldilocks_field::GoldilocksField, 2> + Copy,
{
    use plonky2::plonk::config::PoseidonGoldilocksConfig as C;
    use plonky2_field::goldilocks_field::GoldilocksField as G;
    use starky::recursive_verifier::{add_virtual_stark_proof_with_pis, set_stark_proof_with_pis_target, verify_stark_proof_circuit};
    type P = StarkProofWithPublicInputs<G, C, 2>;
    let setup = std::panic::catch_unwind(std::panic::AssertUnwindSafe(|| {
        let cols = rows[0].len();
        let trace: Vec<PolynomialValues<G>> = (0..cols).map(|c| PolynomialValues::new(rows.iter().map(|r| r[c]).collect())).collect();
        let vparams = var.map(|(vb, _)| config.fri_params(vb));
        let proof = prove::<G, C, S, 2>(stark, &config, trace, &pis, vparams.clone(), &mut TimingTree::default()).expect("the real prover failed on a satisfying trace");
        starky::verifier::verify_stark_proof(stark, proof.clone(), &config, vparams.clone()).expect("honest proof verifies");
        let degree_bits = rows.len().trailing_zeros() as usize;
        let mut b = CircuitBuilder::<G, 2>::new(CircuitConfig::standard_recursion_config());
        let pt = add_virtual_stark_proof_with_pis(&mut b, &stark, &config, var.map_or(degree_bits, |(vb, _)| vb), 0, 0);
        let zero = b.zero();
        verify_stark_proof_circuit::<G, C, S, 2>(&mut b, stark, pt.clone(), &config, var.map(|(_, m)| m));
        let outer = b.build::<C>();
        (proof, degree_bits, outer, pt, zero)
    }));
    let Ok((proof, degree_bits, outer, pt, zero)) = setup else {
        ctx.guarded(&format!("C11.S.stark.e2e.{sname}.{cname}.setup"), F_E2E_REC, |_| panic!("proving the STARK or building the recursive verifier panicked"));
        return;
    };
    let recursive_accepts = |p: &P| -> bool {
        let r = std::panic::catch_unwind(std::panic::AssertUnwindSafe(|| {
            let mut pw = PartialWitness::<G>::new();
            set_stark_proof_with_pis_target(&mut pw, &pt, p, degree_bits, zero).ok()?;
            let op = outer.prove(pw).ok()?;
            outer.verify(op).ok()
        }));
        matches!(r, Ok(Some(())))
    };
    let vparams = var.map(|(vb, _)| config.fri_params(vb));
    let native_accepts = |p: &P| -> bool { matches!(std::panic::catch_unwind(std::panic::AssertUnwindSafe(|| starky::verifier::verify_stark_proof(stark, p.clone(), &config, vparams.clone()))), Ok(Ok(()))) };
    type M = Box<dyn Fn(&mut P)>;
    let one = G::ONE;
    let e1 = <G as Extendable<2>>::Extension::from_basefield_array([G::ZERO, G::ONE]);
    let nq = proof.proof.opening_proof.query_round_proofs.len();
    let nsteps = proof.proof.opening_proof.commit_phase_merkle_caps.len();
    let noracles = proof.proof.opening_proof.query_round_proofs[0].initial_trees_proof.evals_proofs.len();
    let mut muts: Vec<(String, M)> = vec![
        ("honest".into(), Box::new(|_| {})),
        ("openings.local_values[0]".into(), Box::new(move |p| p.proof.openings.local_values[0] += e1)),
        ("openings.next_values[last]".into(), Box::new(move |p| *p.proof.openings.next_values.last_mut().unwrap() += e1)),
        ("openings.quotient_polys[last]".into(), Box::new(move |p| *p.proof.openings.quotient_polys.as_mut().unwrap().last_mut().unwrap() += e1)),
        ("trace_cap[last]".into(), Box::new(move |p| p.proof.trace_cap.0.last_mut().unwrap().elements[3] += one)),
        ("quotient_polys_cap[0]".into(), Box::new(move |p| p.proof.quotient_polys_cap.as_mut().unwrap().0[0].elements[1] += one)),
        ("fri.final_poly[last]".into(), Box::new(move |p| *p.proof.opening_proof.final_poly.coeffs.last_mut().unwrap() += e1)),
        ("fri.pow_witness".into(), Box::new(move |p| p.proof.opening_proof.pow_witness += one)),
    ];
    if !proof.public_inputs.is_empty() {
        muts.push(("public_inputs[last]".into(), Box::new(move |p| *p.public_inputs.last_mut().unwrap() += one)));
        muts.push(("public_inputs[0]".into(), Box::new(move |p| p.public_inputs[0] += one)));
    }
    if proof.proof.openings.auxiliary_polys.is_some() {
        muts.push(("openings.auxiliary_polys[0]".into(), Box::new(move |p| p.proof.openings.auxiliary_polys.as_mut().unwrap()[0] += e1)));
        muts.push(("openings.auxiliary_polys_next[last]".into(), Box::new(move |p| *p.proof.openings.auxiliary_polys_next.as_mut().unwrap().last_mut().unwrap() += e1)));
        muts.push(("auxiliary_polys_cap[last]".into(), Box::new(move |p| p.proof.auxiliary_polys_cap.as_mut().unwrap().0.last_mut().unwrap().elements[0] += one)));
    }
    for s in 0..nsteps {
        muts.push((format!("fri.commit_cap[{s}][0]"), Box::new(move |p| p.proof.opening_proof.commit_phase_merkle_caps[s].0[0].elements[2] += one)));
        let q = (s + 1) % nq;
        muts.push((format!("fri.query[{q}].steps[{s}].evals[last]"), Box::new(move |p| *p.proof.opening_proof.query_round_proofs[q].steps[s].evals.last_mut().unwrap() += e1)));
        let q2 = (s + 2) % nq;
        muts.push((format!("fri.query[{q2}].steps[{s}].siblings[last]"), Box::new(move |p| {
            if let Some(h) = p.proof.opening_proof.query_round_proofs[q2].steps[s].merkle_proof.siblings.last_mut() {
                h.elements[2] += one;
            } else {
                p.proof.opening_proof.query_round_proofs[q2].steps[s].evals[0] += e1;
            }
        })));
    }
    for k in 0..noracles {
        let q = (2 * k + 1) % nq;
        muts.push((format!("fri.query[{q}].initial.evals[{k}][last]"), Box::new(move |p| *p.proof.opening_proof.query_round_proofs[q].initial_trees_proof.evals_proofs[k].0.last_mut().unwrap() += one)));
        let q2 = (2 * k + 3) % nq;
        muts.push((format!("fri.query[{q2}].initial.siblings[{k}][0]"), Box::new(move |p| p.proof.opening_proof.query_round_proofs[q2].initial_trees_proof.evals_proofs[k].1.siblings[0].elements[1] += one)));
    }
    for (name, m) in muts {
        let id = format!("C11.S.stark.e2e.{sname}.{cname}.{name}");
        ctx.guarded(&id.clone(), F_E2E_REC, |ctx| {
            let mut p = proof.clone();
            m(&mut p);
            let nat = native_accepts(&p);
            let rec = recursive_accepts(&p);
            ctx.add(
                Ob::new(id.clone(), F_E2E_REC, format!("STARK {sname} with {} rows under {cname} ({:?}), one accepted proof with `{name}` altered by one; outer circuit = verify_stark_proof_circuit under standard_recursion_config; concrete values", rows.len(), config.fri_config))
                    .sample(format!("the recursive STARK verifier circuit is satisfiable (outer prove + verify succeed) exactly when verify_stark_proof accepts; native accepts: {nat}, recursive accepts: {rec}"))
                    .goal(A::Bool(nat == rec))
                    // (a corruption need not be rejected: a cap element or Merkle path no query touches is never
                    // looked at by either verifier; the obligation is the agreement of the two verifiers)
                    .goal(A::Bool(name != "honest" || nat))
                    .key(format!("stark-recursive-verifier:differs-from-native:{}", name.split('[').next().unwrap())),
            );
        });
    }
}

pub fn e2e_recursive(ctx: &mut Ctx) {
    use plonky2_field::goldilocks_field::GoldilocksField as G;
    if ctx.is_witness_run() || !ctx.wants("C11.S.stark.e2e.") {
        return;
    }
    let mut fast = StarkConfig::standard_fast_config();
    fast.fri_config.num_query_rounds = 20;
    let mut alt = StarkConfig::new(100, 3, FriConfig { rate_bits: 2, cap_height: 2, proof_of_work_bits: 12, reduction_strategy: FriReductionStrategy::Fixed(vec![2, 1]), num_query_rounds: 30 });
    alt.fri_config.num_query_rounds = 30;
    // Fibonacci (first-row / last-row / transition constraints, public inputs), 32 rows
    let mut rows = vec![vec![G::from_canonical_u64(3), G::from_canonical_u64(5)]];
    for j in 1..32 {
        let p = rows[j - 1].clone();
        rows.push(vec![p[1], p[0] + p[1]]);
    }
    let pis = vec![rows[0][0], rows[0][1], rows[31][1]];
    e2e_recursive_one(ctx, "fib", Fib::<G, 2>(PhantomData), rows.clone(), pis.clone(), "fast", fast.clone());
    e2e_recursive_one(ctx, "fib", Fib::<G, 2>(PhantomData), rows, pis, "rate2-cap2-arity21-3ch", alt.clone());
    // lookup STARK (degree 3: one helper column per challenge, auxiliary oracle), 8 rows repeated to 32
    let t: Vec<G> = (0..8).map(|j| G::from_canonical_u64(100 + 7 * j as u64)).collect();
    let sigma = [1usize, 1, 3, 0, 5, 5, 7, 2];
    let tau = [2usize, 0, 0, 3, 6, 4, 4, 1];
    let fbits = [1u64, 0, 1, 0, 1, 1, 0, 0];
    let mult = [2u64, 2, 2, 1, 1, 2, 1, 1];
    let lrows: Vec<Vec<G>> = (0..8).map(|j| vec![t[sigma[j]], if fbits[j] == 1 { t[tau[j]] } else { G::from_canonical_u64(999 + j as u64) }, t[j], G::from_canonical_u64(mult[j]), G::from_canonical_u64(fbits[j])]).collect();
    // variable-degree mode: a degree-3 STARK (two quotient chunks), circuit sized for 2^18 rows with
    // min_degree_bits_to_support = 4, proofs of 2^5 and 2^7 rows
    let mut vcfg = StarkConfig::standard_fast_config();
    vcfg.fri_config.num_query_rounds = 3;
    for bits in [5usize, 7] {
        let n = 1usize << bits;
        let (x0, y0, pc) = (G::from_canonical_u64(3), G::from_canonical_u64(11), G::from_canonical_u64(7));
        let mut crows = vec![vec![x0, y0, y0 + pc]];
        for j in 1..n {
            let p = crows[j - 1].clone();
            let y = p[1] + p[2];
            crows.push(vec![p[0] * p[1] * p[2], y, y + pc]);
        }
        let cpis = vec![x0, crows[n - 1][0], pc];
        e2e_recursive_var(ctx, "cubic", Cubic::<G, 2>(PhantomData), crows, cpis, &format!("variable-degree-{bits}-of-18"), vcfg.clone(), Some((18, 4)));
    }
    e2e_recursive_one(ctx, "lookup-deg3", LookupS::<G, 2> { deg: 3, next_table: false, _p: PhantomData }, lrows, vec![], "rate2-cap2-arity21-3ch", {
        let mut c = alt.clone();
        c.fri_config.reduction_strategy = FriReductionStrategy::Fixed(vec![1]);
        c
    });
}
