//! C03 / C05: the real `verify_fri_proof` executed in accept-path mode on a proof whose every
//! element is a symbol (ideal-hash model for the Merkle checks), with the challenges held fixed.
//! For every element position e of the proof:  Accept(pi) /\ Accept(pi[e := e + delta])  ==>
//! delta == 0.  An element the verifier no longer looks at makes the query satisfiable.
//!
//! Native replay: an honest proof of the same shape is produced with the real prover
//! (`PolynomialBatch::from_coeffs`, `prove_openings`), the named element is altered and the real
//! verifier is called with the honest challenges held fixed.
use plonky2::fri::oracle::PolynomialBatch;
use plonky2::fri::proof::{FriChallenges, FriInitialTreeProof, FriProof, FriQueryRound, FriQueryStep};
use plonky2::fri::reduction_strategies::FriReductionStrategy;
use plonky2::fri::structure::{
    FriBatchInfo, FriInstanceInfo, FriOpeningBatch, FriOpenings, FriOracleInfo, FriPolynomialInfo,
};
use plonky2::fri::verifier::verify_fri_proof;
use plonky2::fri::{FriConfig, FriParams};
use plonky2::hash::hash_types::HashOut;
use plonky2::hash::merkle_proofs::MerkleProof;
use plonky2::hash::merkle_tree::MerkleCap;
use plonky2::hash::poseidon::PoseidonHash;
use plonky2::iop::challenger::Challenger;
use plonky2::util::timing::TimingTree;
use plonky2_field::extension::{Extendable, FieldExtension};
use plonky2_field::polynomial::PolynomialCoeffs;
use plonky2_field::types::Field;

use crate::ctx::{eq, Ctx, Ob, A, VF};

type Ext<F> = <F as Extendable<2>>::Extension;
type H = PoseidonHash;

fn ext_of<F: VF>(a: F, b: F) -> Ext<F> {
    <Ext<F> as FieldExtension<2>>::from_basefield_array([a, b])
}

#[derive(Clone, Debug)]
pub struct Shape {
    pub name: &'static str,
    /// polynomials per oracle
    pub oracles: Vec<usize>,
    /// opening batches: batch 0 at zeta, batch 1 at g*zeta; (oracle, polynomial)
    pub batches: Vec<Vec<(usize, usize)>>,
    pub degree_bits: usize,
    pub rate_bits: usize,
    pub cap_height: usize,
    pub arity_bits: Vec<usize>,
    pub query_indices: Vec<usize>,
}

pub struct Bundle<F: VF> {
    pub instance: FriInstanceInfo<F, 2>,
    pub openings: FriOpenings<F, 2>,
    pub challenges: FriChallenges<F, 2>,
    pub caps: Vec<MerkleCap<F, H>>,
    pub proof: FriProof<F, H, 2>,
    pub params: FriParams,
}

impl<F: VF> Clone for Bundle<F> {
    fn clone(&self) -> Self {
        Bundle {
            instance: self.instance.clone(),
            openings: FriOpenings {
                batches: self.openings.batches.iter().map(|b| FriOpeningBatch { values: b.values.clone() }).collect(),
            },
            challenges: FriChallenges {
                fri_alpha: self.challenges.fri_alpha,
                fri_betas: self.challenges.fri_betas.clone(),
                fri_pow_response: self.challenges.fri_pow_response,
                fri_query_indices: self.challenges.fri_query_indices.clone(),
            },
            caps: self.caps.clone(),
            proof: self.proof.clone(),
            params: self.params.clone(),
        }
    }
}

fn params_of(sh: &Shape) -> FriParams {
    FriParams {
        config: FriConfig {
            rate_bits: sh.rate_bits,
            cap_height: sh.cap_height,
            proof_of_work_bits: 0,
            reduction_strategy: FriReductionStrategy::Fixed(sh.arity_bits.clone()),
            num_query_rounds: sh.query_indices.len(),
        },
        hiding: false,
        degree_bits: sh.degree_bits,
        reduction_arity_bits: sh.arity_bits.clone(),
    }
}

fn instance_of<F: VF>(sh: &Shape, zeta: Ext<F>) -> FriInstanceInfo<F, 2> {
    let g = Ext::<F>::primitive_root_of_unity(sh.degree_bits);
    let points = [zeta, g * zeta];
    FriInstanceInfo {
        oracles: sh.oracles.iter().map(|&n| FriOracleInfo { num_polys: n, blinding: false }).collect(),
        batches: sh
            .batches
            .iter()
            .enumerate()
            .map(|(i, b)| FriBatchInfo {
                point: points[i],
                polynomials: b.iter().map(|&(o, p)| FriPolynomialInfo { oracle_index: o, polynomial_index: p }).collect(),
            })
            .collect(),
    }
}

fn sym_hash<F: VF>(name: &str) -> HashOut<F> {
    HashOut { elements: core::array::from_fn(|k| F::var(&format!("{name}.{k}"))) }
}

/// Concrete pseudo-random challenge (the pinning obligations hold the challenges fixed).
fn chal<F: VF>(seed: u64, k: u64) -> F {
    let mut h = seed.wrapping_mul(0x9E37_79B9_7F4A_7C15) ^ (k.wrapping_add(1)).wrapping_mul(0xD6E8_FEB8_6659_FD93);
    h ^= h >> 31;
    h = h.wrapping_mul(0xBF58_476D_1CE4_E5B9);
    h ^= h >> 29;
    F::from_noncanonical_u64(h)
}

/// The opening point used by `symbolic_bundle` for this seed.
pub fn zeta_of<F: VF>(seed: u64) -> Ext<F> {
    ext_of::<F>(chal::<F>(seed, 1), chal::<F>(seed, 2))
}

/// Fully symbolic proof of the given shape, concrete challenges.
pub fn symbolic_bundle<F: VF>(sh: &Shape, seed: u64) -> Bundle<F> {
    let params = params_of(sh);
    let zeta = zeta_of::<F>(seed);
    let instance = instance_of::<F>(sh, zeta);
    let lde_bits = sh.degree_bits + sh.rate_bits;
    let openings = FriOpenings {
        batches: sh
            .batches
            .iter()
            .enumerate()
            .map(|(b, polys)| FriOpeningBatch { values: (0..polys.len()).map(|i| F::ext(&format!("open{b}_{i}"))).collect() })
            .collect(),
    };
    let challenges = FriChallenges {
        fri_alpha: ext_of::<F>(chal::<F>(seed, 3), chal::<F>(seed, 4)),
        fri_betas: (0..sh.arity_bits.len()).map(|i| ext_of::<F>(chal::<F>(seed, 10 + 2 * i as u64), chal::<F>(seed, 11 + 2 * i as u64))).collect(),
        fri_pow_response: F::ZERO,
        fri_query_indices: sh.query_indices.clone(),
    };
    let caps: Vec<MerkleCap<F, H>> = (0..sh.oracles.len())
        .map(|o| MerkleCap((0..(1 << sh.cap_height)).map(|k| sym_hash::<F>(&format!("cap{o}_{k}"))).collect()))
        .collect();
    let commit_caps: Vec<MerkleCap<F, H>> = (0..sh.arity_bits.len())
        .map(|s| MerkleCap((0..(1 << sh.cap_height)).map(|k| sym_hash::<F>(&format!("ccap{s}_{k}"))).collect()))
        .collect();
    let mut rounds = vec![];
    for (q, _) in sh.query_indices.iter().enumerate() {
        let evals_proofs = sh
            .oracles
            .iter()
            .enumerate()
            .map(|(o, &n)| {
                let evals: Vec<F> = (0..n).map(|i| F::var(&format!("q{q}leaf{o}_{i}"))).collect();
                let siblings = (0..(lde_bits - sh.cap_height)).map(|l| sym_hash::<F>(&format!("q{q}sib{o}_{l}"))).collect();
                (evals, MerkleProof { siblings })
            })
            .collect();
        let mut steps = vec![];
        let mut bits = lde_bits;
        for (s, &ab) in sh.arity_bits.iter().enumerate() {
            let evals = (0..(1usize << ab)).map(|i| F::ext(&format!("q{q}step{s}_{i}"))).collect();
            bits -= ab;
            let siblings = (0..bits.saturating_sub(sh.cap_height)).map(|l| sym_hash::<F>(&format!("q{q}ssib{s}_{l}"))).collect();
            steps.push(FriQueryStep { evals, merkle_proof: MerkleProof { siblings } });
        }
        rounds.push(FriQueryRound { initial_trees_proof: FriInitialTreeProof { evals_proofs }, steps });
    }
    let total: usize = sh.arity_bits.iter().sum();
    let final_len = 1usize << (sh.degree_bits - total);
    let proof = FriProof {
        commit_phase_merkle_caps: commit_caps,
        query_round_proofs: rounds,
        final_poly: PolynomialCoeffs::new((0..final_len).map(|k| F::ext(&format!("final{k}"))).collect()),
        pow_witness: F::ZERO,
    };
    Bundle { instance, openings, challenges, caps, proof, params }
}

/// Honest proof of the given shape from the real prover (native replay only).
pub fn honest_bundle<F: VF>(sh: &Shape) -> Bundle<F> {
    let params = params_of(sh);
    let mut timing = TimingTree::default();
    let n = 1usize << sh.degree_bits;
    let batches: Vec<PolynomialBatch<F, F::Cfg, 2>> = sh
        .oracles
        .iter()
        .enumerate()
        .map(|(o, &np)| {
            let polys = (0..np)
                .map(|i| PolynomialCoeffs::new((0..n).map(|k| F::var(&format!("poly{o}_{i}_{k}"))).collect()))
                .collect();
            PolynomialBatch::<F, F::Cfg, 2>::from_coeffs(polys, sh.rate_bits, false, sh.cap_height, &mut timing, None)
        })
        .collect();
    let mut challenger = Challenger::<F, H>::new();
    for b in &batches {
        challenger.observe_cap::<H>(&b.merkle_tree.cap);
    }
    let zeta = challenger.get_extension_challenge::<2>();
    let instance = instance_of::<F>(sh, zeta);
    let openings = FriOpenings {
        batches: instance
            .batches
            .iter()
            .map(|b| FriOpeningBatch {
                values: b
                    .polynomials
                    .iter()
                    .map(|p| batches[p.oracle_index].polynomials[p.polynomial_index].to_extension::<2>().eval(b.point))
                    .collect(),
            })
            .collect(),
    };
    challenger.observe_openings(&openings);
    let mut vch = challenger.clone();
    let refs: Vec<&PolynomialBatch<F, F::Cfg, 2>> = batches.iter().collect();
    let proof = PolynomialBatch::<F, F::Cfg, 2>::prove_openings(&instance, &refs, &mut challenger, &params, None, None, &mut timing);
    let mut challenges = vch.fri_challenges::<F::Cfg, 2>(
        &proof.commit_phase_merkle_caps,
        &proof.final_poly,
        proof.pow_witness,
        sh.degree_bits,
        &params.config,
        None,
        None,
    );
    // the shape fixes how many rounds there are; the indices are whatever the transcript gives
    challenges.fri_query_indices.truncate(sh.query_indices.len());
    let caps = batches.iter().map(|b| b.merkle_tree.cap.clone()).collect();
    Bundle { instance, openings, challenges, caps, proof, params }
}

#[derive(Clone, Debug)]
pub enum Pos {
    Opening(usize, usize, usize),
    Leaf(usize, usize, usize),
    InitSibling(usize, usize, usize, usize),
    StepEval(usize, usize, usize, usize),
    StepSibling(usize, usize, usize, usize),
    CommitCap(usize, usize, usize),
    InitCap(usize, usize, usize),
    FinalPoly(usize, usize),
}

fn bump_ext<F: VF>(x: &mut Ext<F>, limb: usize, d: F) {
    let mut a = x.to_basefield_array();
    a[limb] += d;
    *x = <Ext<F> as FieldExtension<2>>::from_basefield_array(a);
}

pub fn perturb<F: VF>(b: &Bundle<F>, pos: &Pos, d: F) -> Bundle<F> {
    let mut b = b.clone();
    match *pos {
        Pos::Opening(bi, i, l) => bump_ext::<F>(&mut b.openings.batches[bi].values[i], l, d),
        Pos::Leaf(q, o, i) => b.proof.query_round_proofs[q].initial_trees_proof.evals_proofs[o].0[i] += d,
        Pos::InitSibling(q, o, l, lane) => {
            b.proof.query_round_proofs[q].initial_trees_proof.evals_proofs[o].1.siblings[l].elements[lane] += d
        }
        Pos::StepEval(q, s, i, l) => bump_ext::<F>(&mut b.proof.query_round_proofs[q].steps[s].evals[i], l, d),
        Pos::StepSibling(q, s, l, lane) => b.proof.query_round_proofs[q].steps[s].merkle_proof.siblings[l].elements[lane] += d,
        Pos::CommitCap(s, k, lane) => b.proof.commit_phase_merkle_caps[s].0[k].elements[lane] += d,
        Pos::InitCap(o, k, lane) => b.caps[o].0[k].elements[lane] += d,
        Pos::FinalPoly(k, l) => bump_ext::<F>(&mut b.proof.final_poly.coeffs[k], l, d),
    }
    b
}

/// Which cap entry a query index lands in (the other entries are legitimately unconstrained by
/// that query).
fn cap_entry(index: usize, bits: usize, cap_height: usize) -> usize {
    index >> (bits - cap_height)
}

pub fn positions(sh: &Shape, b_indices: &[usize], all_lanes: bool) -> Vec<Pos> {
    let lde_bits = sh.degree_bits + sh.rate_bits;
    let lanes: Vec<usize> = if all_lanes { vec![0, 1, 2, 3] } else { vec![0, 3] };
    let mut out = vec![];
    for (bi, polys) in sh.batches.iter().enumerate() {
        for i in 0..polys.len() {
            for l in 0..2 {
                out.push(Pos::Opening(bi, i, l));
            }
        }
    }
    for (q, &x_index) in b_indices.iter().enumerate() {
        for (o, &n) in sh.oracles.iter().enumerate() {
            for i in 0..n {
                out.push(Pos::Leaf(q, o, i));
            }
            for l in 0..(lde_bits - sh.cap_height) {
                for &lane in &lanes {
                    out.push(Pos::InitSibling(q, o, l, lane));
                }
            }
            for &lane in &lanes {
                out.push(Pos::InitCap(o, cap_entry(x_index, lde_bits, sh.cap_height), lane));
            }
        }
        let mut bits = lde_bits;
        let mut idx = x_index;
        for (s, &ab) in sh.arity_bits.iter().enumerate() {
            for i in 0..(1usize << ab) {
                for l in 0..2 {
                    out.push(Pos::StepEval(q, s, i, l));
                }
            }
            bits -= ab;
            idx >>= ab;
            for l in 0..bits.saturating_sub(sh.cap_height) {
                for &lane in &lanes {
                    out.push(Pos::StepSibling(q, s, l, lane));
                }
            }
            for &lane in &lanes {
                out.push(Pos::CommitCap(s, cap_entry(idx, bits, sh.cap_height.min(bits)), lane));
            }
        }
    }
    let total: usize = sh.arity_bits.iter().sum();
    for k in 0..(1usize << (sh.degree_bits - total)) {
        for l in 0..2 {
            out.push(Pos::FinalPoly(k, l));
        }
    }
    out
}

/// Obligation-id label of a position; cap entries are named by role ("the entry the query lands
/// in"), not by index, so that the native replay (whose query indices come from the honest
/// transcript) finds the same obligation.
fn pos_label(p: &Pos) -> String {
    match p {
        Pos::CommitCap(s, _, lane) => format!("CommitCap({s},hit,{lane})"),
        Pos::InitCap(o, _, lane) => format!("InitCap({o},hit,{lane})"),
        other => format!("{other:?}").replace(' ', ""),
    }
}

fn run_verifier<F: VF>(b: &Bundle<F>) -> A {
    let (ok, atoms) = F::accept(|| {
        verify_fri_proof::<F, F::Cfg, 2>(&b.instance, &b.openings, &b.challenges, &b.caps, &b.proof, &b.params)
    });
    A::Accept(ok, atoms)
}

const FILES: &[&str] = &[
    "plonky2/src/fri/verifier.rs::verify_fri_proof",
    "plonky2/src/fri/verifier.rs::fri_verifier_query_round",
    "plonky2/src/fri/verifier.rs::fri_combine_initial",
    "plonky2/src/fri/verifier.rs::compute_evaluation",
    "plonky2/src/fri/validate_shape.rs::validate_fri_proof_shape",
    "plonky2/src/hash/merkle_proofs.rs::verify_merkle_proof_to_cap",
    "field/src/interpolation.rs::interpolate",
    "plonky2/src/util/reducing.rs::ReducingFactor",
];

pub fn shapes(thorough: bool) -> Vec<Shape> {
    let mut v = vec![
        Shape { name: "o2-d3r1c1-a11", oracles: vec![2, 1], batches: vec![vec![(0, 0), (0, 1), (1, 0)], vec![(1, 0)]], degree_bits: 3, rate_bits: 1, cap_height: 1, arity_bits: vec![1, 1], query_indices: vec![5] },
        Shape { name: "o1-d3r1c0-a2", oracles: vec![2], batches: vec![vec![(0, 0), (0, 1)], vec![(0, 1)]], degree_bits: 3, rate_bits: 1, cap_height: 0, arity_bits: vec![2], query_indices: vec![14] },
        Shape { name: "o1-d2r2c2-a1-q2", oracles: vec![1], batches: vec![vec![(0, 0)], vec![(0, 0)]], degree_bits: 2, rate_bits: 2, cap_height: 2, arity_bits: vec![1], query_indices: vec![3, 8] },
        // a commit-phase layer with exactly 2^cap_height leaves: its Merkle paths are empty and the
        // leaf digest is compared with the cap entry directly
        Shape { name: "o1-d2r1c2-a1-emptypath", oracles: vec![2], batches: vec![vec![(0, 0), (0, 1)], vec![(0, 0)]], degree_bits: 2, rate_bits: 1, cap_height: 2, arity_bits: vec![1], query_indices: vec![6] },
        // the initial trees themselves have exactly 2^cap_height leaves (empty initial paths)
        Shape { name: "o2-d1r1c2-a0-emptyinit", oracles: vec![1, 2], batches: vec![vec![(0, 0), (1, 0), (1, 1)], vec![(1, 1)]], degree_bits: 1, rate_bits: 1, cap_height: 2, arity_bits: vec![], query_indices: vec![2] },
    ];
    if thorough {
        v.push(Shape { name: "o3-d4r1c1-a21", oracles: vec![2, 1, 2], batches: vec![vec![(0, 0), (0, 1), (1, 0), (2, 0), (2, 1)], vec![(1, 0), (2, 1)]], degree_bits: 4, rate_bits: 1, cap_height: 1, arity_bits: vec![2, 1], query_indices: vec![21] },);
        v.push(Shape { name: "o1-d3r1c0-a3", oracles: vec![1], batches: vec![vec![(0, 0)], vec![(0, 0)]], degree_bits: 3, rate_bits: 1, cap_height: 0, arity_bits: vec![3], query_indices: vec![9] });
        v.push(Shape { name: "o1-d3r1c1-a0", oracles: vec![2], batches: vec![vec![(0, 0), (0, 1)], vec![(0, 0)]], degree_bits: 3, rate_bits: 1, cap_height: 1, arity_bits: vec![], query_indices: vec![2] });
    }
    v
}

pub fn family<F: VF>(ctx: &mut Ctx) {
    let th = ctx.thorough();
    for sh in shapes(th) {
        // every query index in the thorough tier, a spread in the quick tier
        let lde = 1usize << (sh.degree_bits + sh.rate_bits);
        let index_sets: Vec<Vec<usize>> = if th {
            (0..lde).map(|i| sh.query_indices.iter().enumerate().map(|(k, _)| (i + 7 * k) % lde).collect()).collect()
        } else {
            vec![sh.query_indices.clone(), sh.query_indices.iter().map(|i| (lde - 1 - i) % lde).collect()]
        };
        for (si, idxs) in index_sets.iter().enumerate() {
            let mut sh2 = sh.clone();
            sh2.query_indices = idxs.clone();
            let idp = format!("C05.S.fri.{}.idx{}", sh.name, idxs.iter().map(|i| i.to_string()).collect::<Vec<_>>().join("_"));
            let _ = si;
            ctx.guarded(&idp.clone(), FILES, |ctx| shape_obs::<F>(ctx, &idp, &sh2, th));
        }
    }
}

fn shape_obs<F: VF>(ctx: &mut Ctx, idp: &str, sh: &Shape, all_lanes: bool) {
    if F::SYMBOLIC {
        crate::reset();
    }
    let seed = 0x5eed_0000 + sh.degree_bits as u64 * 131 + sh.query_indices[0] as u64;
    let base: Bundle<F> = if F::SYMBOLIC { symbolic_bundle::<F>(sh, seed) } else { honest_bundle::<F>(sh) };
    let bounds = format!(
        "shape {:?}; every proof element a symbol ranging over all field values; challenges fixed to seeded pseudo-random constants; query indices concrete",
        sh
    );
    let acc0 = run_verifier::<F>(&base);
    // reachability: the symbolic run must end in acceptance on the all-equal path
    ctx.add(
        Ob::new(format!("{idp}.accept-path"), FILES, bounds.clone())
            .sample("verify_fri_proof reaches Ok on the path where every ensure! comparison holds (shape is valid, no index panic)")
            .goal(A::Bool(matches!(acc0, A::Accept(true, _)))),
    );
    // shape: every single-vector length change of the FRI proof is rejected (concrete structure)
    {
        type P<F> = FriProof<F, H, 2>;
        let mut muts: Vec<(&str, Box<dyn Fn(&mut P<F>, bool) -> bool>)> = vec![];
        macro_rules! vm {
            ($name:expr, $guard:expr, $($path:tt)+) => {
                muts.push(($name, Box::new(|p: &mut P<F>, grow: bool| {
                    #[allow(clippy::redundant_closure_call)]
                    if !($guard)(p) { return false; }
                    let v = &mut p.$($path)+;
                    if grow { match v.last().cloned() { Some(x) => v.push(x), None => return false } } else if v.pop().is_none() { return false; }
                    true
                })));
            };
        }
        vm!("query_round_proofs", |_p: &P<F>| true, query_round_proofs);
        vm!("commit_phase_merkle_caps", |_p: &P<F>| true, commit_phase_merkle_caps);
        vm!("commit_phase_merkle_caps[0]", |p: &P<F>| !p.commit_phase_merkle_caps.is_empty(), commit_phase_merkle_caps[0].0);
        vm!("final_poly", |_p: &P<F>| true, final_poly.coeffs);
        vm!("query[0].initial.evals_proofs", |_p: &P<F>| true, query_round_proofs[0].initial_trees_proof.evals_proofs);
        vm!("query[0].initial.evals[0]", |_p: &P<F>| true, query_round_proofs[0].initial_trees_proof.evals_proofs[0].0);
        vm!("query[0].initial.siblings[0]", |_p: &P<F>| true, query_round_proofs[0].initial_trees_proof.evals_proofs[0].1.siblings);
        vm!("query[0].steps", |_p: &P<F>| true, query_round_proofs[0].steps);
        vm!("query[0].steps[0].evals", |p: &P<F>| !p.query_round_proofs[0].steps.is_empty(), query_round_proofs[0].steps[0].evals);
        vm!("query[0].steps[0].siblings", |p: &P<F>| !p.query_round_proofs[0].steps.is_empty(), query_round_proofs[0].steps[0].merkle_proof.siblings);
        let mut goals = vec![];
        let mut not_rejected: Vec<String> = vec![];
        let mut n = 0;
        for (name, f) in &muts {
            for grow in [false, true] {
                let mut b2 = base.clone();
                if !f(&mut b2.proof, grow) {
                    continue;
                }
                n += 1;
                let rejected = !matches!(run_verifier::<F>(&b2), A::Accept(true, _));
                if !rejected {
                    not_rejected.push(format!("{name}:{}", if grow { "duplicate-last" } else { "remove-last" }));
                }
                goals.push(A::Bool(rejected));
            }
        }
        // the list of initial caps the verifier is given (one per oracle of the instance)
        for grow in [false, true] {
            let mut b2 = base.clone();
            if grow {
                let x = b2.caps.last().cloned().unwrap();
                b2.caps.push(x);
            } else {
                b2.caps.pop();
            }
            n += 1;
            let rejected = !matches!(run_verifier::<F>(&b2), A::Accept(true, _));
            if !rejected {
                not_rejected.push(format!("initial_merkle_caps:{}", if grow { "duplicate-last" } else { "remove-last" }));
            }
            goals.push(A::Bool(rejected));
        }
        ctx.add(
            Ob::new(format!("{idp}.shape"), FILES, format!("{bounds}; {n} single-vector length changes (remove last / duplicate last)"))
                .sample(format!("verify_fri_proof rejects the proof after each single length change (challenges held fixed); not rejected: {not_rejected:?}"))
                .goals(goals)
                .key("fri-verifier:accepts-wrong-length"),
        );
    }
    let delta = F::var("delta");
    let idxs = if F::SYMBOLIC { sh.query_indices.clone() } else { base.challenges.fri_query_indices.clone() };
    let mut seen: std::collections::HashMap<String, usize> = std::collections::HashMap::new();
    for pos in positions(sh, &idxs, all_lanes) {
        let b2 = perturb::<F>(&base, &pos, delta);
        let acc1 = run_verifier::<F>(&b2);
        let mut label = pos_label(&pos);
        let k = seen.entry(label.clone()).or_insert(0);
        *k += 1;
        if *k > 1 {
            label = format!("{label}#{k}");
        }
        ctx.add(
            Ob::new(format!("{idp}.pin.{label}"), FILES, bounds.clone())
                .sample(format!("Accept(proof) /\\ Accept(proof[{pos:?} += delta])  ==>  delta == 0"))
                .assume("FRI challenges held fixed (alpha, betas, zeta: seeded constants); proof-of-work bits = 0")
                .hyp(acc0.clone())
                .hyp(acc1)
                .goal(eq(delta, F::ZERO))
                .injective()
                .key(format!("fri-verifier:unpinned:{}", format!("{pos:?}").split('(').next().unwrap())),
        );
    }
}
