//! C02 / C01 (plonk level): the vanishing-polynomial expression the verifier checks against a
//! reference written from the plonky2 paper; prover-side (base batch) and verifier-side
//! evaluators in agreement; partial-product checks telescope to the permutation argument;
//! gadgets compute what they say (real builder + real witness generation on symbolic inputs).
use plonky2::field::zero_poly_coset::ZeroPolyOnCoset;
use plonky2::fri::reduction_strategies::FriReductionStrategy;
use plonky2::fri::FriConfig;
use plonky2::hash::hash_types::HashOut;
use plonky2::iop::generator::generate_partial_witness;
use plonky2::iop::target::Target;
use plonky2::iop::witness::{PartialWitness, Witness, WitnessWrite};
use plonky2::plonk::circuit_builder::CircuitBuilder;
use plonky2::plonk::circuit_data::{CircuitConfig, CircuitData, CommonCircuitData};
use plonky2::plonk::vars::{EvaluationVars, EvaluationVarsBaseBatch};
use plonky2::verif_hooks as hk;
use plonky2_field::extension::{Extendable, FieldExtension};
use plonky2_field::types::Field;

use crate::ctx::{eq, eq_ext, Ctx, Ob, A, VF};

type Ext<F> = <F as Extendable<2>>::Extension;

fn ext_of<F: VF>(a: F, b: F) -> Ext<F> {
    <Ext<F> as FieldExtension<2>>::from_basefield_array([a, b])
}
fn emb<F: VF>(a: F) -> Ext<F> {
    ext_of::<F>(a, F::ZERO)
}

pub fn tiny_config(num_wires: usize, routed: usize, max_qdf: usize) -> CircuitConfig {
    CircuitConfig {
        num_wires,
        num_routed_wires: routed,
        num_constants: 2,
        use_base_arithmetic_gate: true,
        security_bits: 1,
        num_challenges: 2,
        zero_knowledge: false,
        max_quotient_degree_factor: max_qdf,
        fri_config: FriConfig {
            rate_bits: 2,
            cap_height: 1,
            proof_of_work_bits: 0,
            reduction_strategy: FriReductionStrategy::Fixed(vec![1]),
            num_query_rounds: 1,
        },
    }
}

/// A small circuit without public inputs (so no Poseidon gate is needed and rows can be narrow):
/// arithmetic + constants + a random-access-free mix of gates that fits 8 routed wires.
pub fn tiny_circuit<F: VF>() -> (CircuitData<F, F::Cfg, 2>, Vec<Target>) {
    let config = tiny_config(8, 8, 4);
    let mut b = CircuitBuilder::<F, 2>::new(config);
    let x = b.add_virtual_target();
    let y = b.add_virtual_target();
    let xy = b.mul(x, y);
    let s = b.add(xy, x);
    let c = b.constant(F::from_canonical_u64(7));
    let t = b.mul(s, c);
    let u = b.sub(t, y);
    let zero = b.zero();
    b.assert_zero(zero);
    let _ = u;
    let data = b.build::<F::Cfg>();
    (data, vec![x, y, s, t, u])
}

pub struct Openings<F: VF> {
    pub constants: Vec<Ext<F>>,
    pub wires: Vec<Ext<F>>,
    pub zs: Vec<Ext<F>>,
    pub zs_next: Vec<Ext<F>>,
    pub pps: Vec<Ext<F>>,
    pub sigmas: Vec<Ext<F>>,
    pub pih: HashOut<F>,
    pub betas: Vec<F>,
    pub gammas: Vec<F>,
    pub alphas: Vec<F>,
}

fn sym_openings<F: VF>(cd: &CommonCircuitData<F, 2>, base_only: bool, tag: &str) -> Openings<F> {
    let e = |n: String| if base_only { emb::<F>(F::var(&n)) } else { F::ext(&n) };
    let nch = cd.config.num_challenges;
    Openings {
        constants: (0..cd.num_constants).map(|i| e(format!("{tag}c{i}"))).collect(),
        wires: (0..cd.config.num_wires).map(|i| e(format!("{tag}w{i}"))).collect(),
        zs: (0..nch).map(|i| e(format!("{tag}z{i}"))).collect(),
        zs_next: (0..nch).map(|i| e(format!("{tag}zn{i}"))).collect(),
        pps: (0..nch * cd.num_partial_products).map(|i| e(format!("{tag}pp{i}"))).collect(),
        sigmas: (0..cd.config.num_routed_wires).map(|i| e(format!("{tag}sg{i}"))).collect(),
        pih: HashOut { elements: core::array::from_fn(|k| F::var(&format!("{tag}pih{k}"))) },
        betas: (0..nch).map(|i| F::var(&format!("{tag}beta{i}"))).collect(),
        gammas: (0..nch).map(|i| F::var(&format!("{tag}gamma{i}"))).collect(),
        alphas: (0..nch).map(|i| F::var(&format!("{tag}alpha{i}"))).collect(),
    }
}

fn real_vanishing<F: VF>(cd: &CommonCircuitData<F, 2>, x: Ext<F>, o: &Openings<F>) -> Vec<Ext<F>> {
    let vars = EvaluationVars { local_constants: &o.constants, local_wires: &o.wires, public_inputs_hash: &o.pih };
    hk::eval_vanishing_poly::<F, 2>(cd, x, vars, &o.zs, &o.zs_next, &[], &[], &o.pps, &o.sigmas, &o.betas, &o.gammas, &o.alphas, &[])
}

/// Reference vanishing expression (plonky2 paper, section on the polynomial identities), for
/// circuits without lookups:
///   terms = [ L_0(x) (Z_i(x) - 1) ]_i
///        ++ [ acc_{c}(x) prod_{j in chunk c} (w_j + beta_i k_j x + gamma_i)
///             - acc_{c+1}(x) prod_{j in chunk c} (w_j + beta_i sigma_j + gamma_i) ]_{i, c}
///           with acc_0 = Z_i(x), acc_last = Z_i(g x), the others the partial-product openings
///        ++ [ sum over gates g of filter_g(selector) * constraint_{g,k}(row) ]_k
///   vanishing_i = sum_k alpha_i^k terms_k
/// The order of the terms is protocol-defining (prover, verifier and recursion circuits must
/// agree), so it is part of the reference.
fn reference_vanishing<F: VF>(cd: &CommonCircuitData<F, 2>, x: Ext<F>, o: &Openings<F>) -> Vec<Ext<F>> {
    let n = cd.degree();
    let one = Ext::<F>::ONE;
    let l0 = (x.exp_u64(n as u64) - one) / (Ext::<F>::from_canonical_usize(n) * (x - one));
    let nch = cd.config.num_challenges;
    let mut z1 = vec![];
    let mut pp = vec![];
    let chunk = cd.quotient_degree_factor;
    let routed = cd.config.num_routed_wires;
    for i in 0..nch {
        z1.push(l0 * (o.zs[i] - one));
        let (beta, gamma) = (emb::<F>(o.betas[i]), emb::<F>(o.gammas[i]));
        let mut accs = vec![o.zs[i]];
        accs.extend_from_slice(&o.pps[i * cd.num_partial_products..(i + 1) * cd.num_partial_products]);
        accs.push(o.zs_next[i]);
        let cols: Vec<usize> = (0..routed).collect();
        for (c, js) in cols.chunks(chunk).enumerate() {
            let mut num = one;
            let mut den = one;
            for &j in js {
                num *= o.wires[j] + beta * emb::<F>(cd.k_is[j]) * x + gamma;
                den *= o.wires[j] + beta * o.sigmas[j] + gamma;
            }
            pp.push(accs[c] * num - accs[c + 1] * den);
        }
    }
    // gates
    let (sel_idx, groups) = hk::selectors_info_parts(&cd.selectors_info);
    let nsel = groups.len();
    let mut gate_terms = vec![Ext::<F>::ZERO; cd.num_gate_constraints];
    for (g, gate) in cd.gates.iter().enumerate() {
        let s = o.constants[sel_idx[g]];
        let mut filter = one;
        for j in groups[sel_idx[g]].clone() {
            if j != g {
                filter *= Ext::<F>::from_canonical_usize(j) - s;
            }
        }
        if nsel > 1 {
            filter *= Ext::<F>::from_canonical_usize(hk::unused_selector()) - s;
        }
        let consts = &o.constants[nsel + cd.num_lookup_selectors..];
        let vars = EvaluationVars { local_constants: consts, local_wires: &o.wires, public_inputs_hash: &o.pih };
        for (k, c) in gate.0.eval_unfiltered(vars).into_iter().enumerate() {
            gate_terms[k] += filter * c;
        }
    }
    let terms: Vec<Ext<F>> = z1.into_iter().chain(pp).chain(gate_terms).collect();
    o.alphas
        .iter()
        .map(|&a| {
            let a = emb::<F>(a);
            let mut acc = Ext::<F>::ZERO;
            for t in terms.iter().rev() {
                acc = acc * a + *t;
            }
            acc
        })
        .collect()
}

const VP_FILES: &[&str] = &[
    "plonky2/src/plonk/vanishing_poly.rs::eval_vanishing_poly",
    "plonky2/src/plonk/vanishing_poly.rs::evaluate_gate_constraints",
    "plonky2/src/gates/gate.rs::Gate::eval_filtered",
    "plonky2/src/gates/gate.rs::compute_filter",
    "plonky2/src/util/partial_products.rs::check_partial_products",
    "plonky2/src/plonk/plonk_common.rs::eval_l_0",
    "plonky2/src/plonk/plonk_common.rs::reduce_with_powers_multi",
];

fn vanishing_reference<F: VF>(ctx: &mut Ctx) {
    ctx.guarded("C02.S.plonk.vanishing-ref", VP_FILES, |ctx| {
        if F::SYMBOLIC {
            crate::reset();
        }
        let (data, _) = tiny_circuit::<F>();
        let cd = &data.common;
        let o = sym_openings::<F>(cd, false, "");
        let x = F::ext("zeta");
        let real = F::assume_ne(|| real_vanishing::<F>(cd, x, &o));
        let refv = reference_vanishing::<F>(cd, x, &o);
        let gates: Vec<String> = cd.gates.iter().map(|g| g.0.id()).collect();
        let bounds = format!(
            "circuit built by the real CircuitBuilder: gates {:?}, {} wires ({} routed), quotient degree factor {}, {} challenges, no lookups; every opening, challenge and the evaluation point symbolic (extension field)",
            gates, cd.config.num_wires, cd.config.num_routed_wires, cd.quotient_degree_factor, cd.config.num_challenges
        );
        let mut goals = vec![A::Bool(real.len() == refv.len())];
        for (a, b) in real.iter().zip(&refv) {
            goals.extend(eq_ext::<F>(*a, *b));
        }
        ctx.add(
            Ob::new("C02.S.plonk.vanishing-ref.ext", VP_FILES, bounds)
                .sample("eval_vanishing_poly(openings, challenges, zeta)[i] == sum_k alpha_i^k * [L_0(Z_i-1) | partial-product checks | filtered gate constraints]_k")
                .goals(goals)
                .key("vanishing-poly:differs-from-reference"),
        );
    });
}

const BB_FILES: &[&str] = &[
    "plonky2/src/plonk/vanishing_poly.rs::eval_vanishing_poly_base_batch",
    "plonky2/src/plonk/vanishing_poly.rs::evaluate_gate_constraints_base_batch",
    "plonky2/src/plonk/vanishing_poly.rs::eval_vanishing_poly",
    "field/src/zero_poly_coset.rs::ZeroPolyOnCoset::eval_l_0",
];

fn prover_vs_verifier<F: VF>(ctx: &mut Ctx) {
    ctx.guarded("C01.S.plonk.prover-vs-verifier", BB_FILES, |ctx| {
        if F::SYMBOLIC {
            crate::reset();
        }
        let (data, _) = tiny_circuit::<F>();
        let cd = &data.common;
        let qdb = plonky2_util::log2_ceil(cd.quotient_degree_factor);
        let zh = ZeroPolyOnCoset::<F>::new(cd.degree_bits(), qdb);
        let lde_bits = cd.degree_bits() + qdb;
        let g = F::primitive_root_of_unity(lde_bits);
        for bs in [1usize, 3] {
            let idxs: Vec<usize> = (0..bs).map(|k| (5 * k + 3) % (1 << lde_bits)).collect();
            let xs: Vec<F> = idxs.iter().map(|&i| F::coset_shift() * g.exp_u64(i as u64)).collect();
            let os: Vec<Openings<F>> = (0..bs).map(|k| sym_openings::<F>(cd, true, &format!("p{k}"))).collect();
            // shared challenges
            let (betas, gammas, alphas) = (os[0].betas.clone(), os[0].gammas.clone(), os[0].alphas.clone());
            let base = |v: &Vec<Ext<F>>| -> Vec<F> { v.iter().map(|e| e.to_basefield_array()[0]).collect() };
            let nc = cd.num_constants;
            let nw = cd.config.num_wires;
            let mut lc = vec![F::ZERO; nc * bs];
            let mut lw = vec![F::ZERO; nw * bs];
            for k in 0..bs {
                for (j, v) in base(&os[k].constants).into_iter().enumerate() {
                    lc[j * bs + k] = v;
                }
                for (j, v) in base(&os[k].wires).into_iter().enumerate() {
                    lw[j * bs + k] = v;
                }
            }
            let pih = os[0].pih;
            let vars = EvaluationVarsBaseBatch::new(bs, &lc, &lw, &pih);
            let zsb: Vec<Vec<F>> = os.iter().map(|o| base(&o.zs)).collect();
            let znb: Vec<Vec<F>> = os.iter().map(|o| base(&o.zs_next)).collect();
            let ppb: Vec<Vec<F>> = os.iter().map(|o| base(&o.pps)).collect();
            let sgb: Vec<Vec<F>> = os.iter().map(|o| base(&o.sigmas)).collect();
            fn r<T>(v: &[Vec<T>]) -> Vec<&[T]> {
                v.iter().map(|x| x.as_slice()).collect()
            }
            let res = hk::eval_vanishing_poly_base_batch::<F, 2>(
                cd, &idxs, &xs, vars, &r(&zsb), &r(&znb), &[], &[], &r(&ppb), &r(&sgb), &betas, &gammas, &[], &alphas, &zh, &[],
            );
            let mut goals = vec![A::Bool(res.len() == bs)];
            for k in 0..bs {
                let mut o = sym_openings::<F>(cd, true, &format!("p{k}"));
                o.betas = betas.clone();
                o.gammas = gammas.clone();
                o.alphas = alphas.clone();
                o.pih = pih;
                let v = real_vanishing::<F>(cd, emb::<F>(xs[k]), &o);
                goals.push(A::Bool(res[k].len() == v.len()));
                for (a, b) in res[k].iter().zip(&v) {
                    goals.extend(eq_ext::<F>(emb::<F>(*a), *b));
                }
            }
            ctx.add(
                Ob::new(format!("C01.S.plonk.prover-vs-verifier.batch{bs}"), BB_FILES,
                    format!("tiny circuit (as vanishing-ref); batch of {bs} LDE-coset points (concrete indices {idxs:?}); all openings and challenges symbolic base-field values"))
                    .sample("eval_vanishing_poly_base_batch (prover, quotient computation) == eval_vanishing_poly (verifier) on base-embedded openings at the same point")
                    .goals(goals)
                    .key("vanishing-poly:prover-verifier-disagree"),
            );
        }
    });
}

const PP_FILES: &[&str] = &[
    "plonky2/src/util/partial_products.rs::check_partial_products",
    "plonky2/src/util/partial_products.rs::partial_products_and_z_gx",
    "plonky2/src/util/partial_products.rs::quotient_chunk_products",
    "plonky2/src/util/partial_products.rs::num_partial_products",
];

fn partial_products<F: VF>(ctx: &mut Ctx) {
    let th = ctx.thorough();
    let cases: Vec<(usize, usize)> = if th {
        vec![(1, 2), (2, 2), (3, 2), (5, 3), (8, 4), (9, 8), (12, 5), (16, 8)]
    } else {
        vec![(1, 2), (3, 2), (5, 3), (8, 4), (9, 8)]
    };
    for (routed, maxd) in cases {
        let idp = format!("C02.S.plonk.partial-products.n{routed}d{maxd}");
        ctx.guarded(&idp.clone(), PP_FILES, |ctx| {
            if F::SYMBOLIC {
                crate::reset();
            }
            let nums: Vec<F> = (0..routed).map(|i| F::var(&format!("num{i}"))).collect();
            let dens: Vec<F> = (0..routed).map(|i| F::var(&format!("den{i}"))).collect();
            let npp = hk::num_partial_products(routed, maxd);
            let pps: Vec<F> = (0..npp).map(|i| F::var(&format!("pp{i}"))).collect();
            let (zx, zgx) = (F::var("zx"), F::var("zgx"));
            let checks = hk::check_partial_products(&nums, &dens, &pps, zx, zgx, maxd);
            // telescoping identity: sum_c check_c * (prod of earlier denominators) * (prod of later
            // denominators) == Z(x) prod(num) - Z(gx) prod(den).  Hence: all checks zero implies
            // the grand-product step  Z(gx) prod(den) == Z(x) prod(num).
            let chunks_n: Vec<F> = nums.chunks(maxd).map(|c| c.iter().copied().product()).collect();
            let chunks_d: Vec<F> = dens.chunks(maxd).map(|c| c.iter().copied().product()).collect();
            let mut lhs = F::ZERO;
            for (c, chk) in checks.iter().enumerate() {
                let before: F = chunks_d[..c].iter().copied().product();
                let after: F = chunks_n[c + 1..].iter().copied().product();
                lhs += *chk * before * after;
            }
            let rhs = zx * nums.iter().copied().product::<F>() - zgx * dens.iter().copied().product::<F>();
            ctx.add(
                Ob::new(format!("{idp}.telescope"), PP_FILES, format!("{routed} routed wires, max degree {maxd}; all values symbolic"))
                    .sample("sum_c check_c * prod_{c'<c} D_c' * prod_{c'>c} N_c' == Z(x) prod N - Z(gx) prod D   (so: every check zero ==> the permutation grand product advances correctly)")
                    .goal(A::Bool(checks.len() == npp + 1))
                    .goal(eq(lhs, rhs))
                    .key("partial-products:do-not-telescope"),
            );
            // prover side: the values the prover computes satisfy every check
            let q: Vec<F> = nums.iter().zip(&dens).map(|(n, d)| *n / *d).collect();
            let qc = hk::quotient_chunk_products(&q, maxd);
            let mut pz = hk::partial_products_and_z_gx(zx, &qc);
            let zg = pz.pop().unwrap();
            let checks2 = hk::check_partial_products(&nums, &dens, &pz, zx, zg, maxd);
            ctx.add(
                Ob::new(format!("{idp}.prover-values"), PP_FILES, format!("{routed} routed wires, max degree {maxd}; all values symbolic, denominators non-zero"))
                    .sample("partial products computed by partial_products_and_z_gx(quotient_chunk_products(num/den)) make every check_partial_products term zero")
                    .goal(A::Bool(pz.len() == npp))
                    .goals(checks2.iter().map(|c| eq(*c, F::ZERO)).collect())
                    .key("partial-products:prover-values-fail"),
            );
        });
    }
}

// -------------------------------------------------------------------------------------------
// gadget semantics (C01 Ob1.3)

const GADGET_FILES: &[&str] = &[
    "plonky2/src/gadgets/arithmetic.rs",
    "plonky2/src/gadgets/arithmetic_extension.rs",
    "plonky2/src/gadgets/select.rs",
    "plonky2/src/gadgets/polynomial.rs",
    "plonky2/src/gadgets/random_access.rs",
    "plonky2/src/plonk/circuit_builder.rs::CircuitBuilder::build",
    "plonky2/src/iop/generator.rs::generate_partial_witness",
];

/// Build a one-gadget circuit, generate its witness from symbolic inputs with the real
/// generators, read the output targets, and compare with the mathematical function.
fn gadget<F: VF>(
    ctx: &mut Ctx,
    name: &str,
    n_in: usize,
    build: impl Fn(&mut CircuitBuilder<F, 2>, &[Target]) -> Vec<Target>,
    spec: impl Fn(&[F]) -> Vec<F>,
    concrete: &[(usize, u64)],
) {
    let idp = format!("C01.S.plonk.gadget.{name}");
    ctx.guarded(&idp.clone(), GADGET_FILES, |ctx| {
        if F::SYMBOLIC {
            crate::reset();
        }
        let mut b = CircuitBuilder::<F, 2>::new(CircuitConfig::standard_recursion_config());
        let ins: Vec<Target> = (0..n_in).map(|_| b.add_virtual_target()).collect();
        let outs = build(&mut b, &ins);
        let data = b.build::<F::Cfg>();
        let vals: Vec<F> = (0..n_in)
            .map(|i| match concrete.iter().find(|(k, _)| *k == i) {
                Some((_, v)) => F::from_canonical_u64(*v),
                None => F::var(&format!("in{i}")),
            })
            .collect();
        let mut pw = PartialWitness::<F>::new();
        for (t, v) in ins.iter().zip(&vals) {
            pw.set_target(*t, *v).unwrap();
        }
        let wit = F::assume_ne(|| generate_partial_witness(pw, &data.prover_only, &data.common)).expect("witness generation failed");
        let got: Vec<F> = outs.iter().map(|t| wit.get_target(*t)).collect();
        core::mem::forget(wit);
        let want = spec(&vals);
        let mut goals = vec![A::Bool(got.len() == want.len())];
        for (g, w) in got.iter().zip(&want) {
            goals.push(eq(*g, *w));
        }
        ctx.add(
            Ob::new(idp.clone(), GADGET_FILES, format!("one-gadget circuit (standard recursion config, {} rows); inputs symbolic except {:?}", data.common.degree(), concrete))
                .sample(format!("witness value of {name}(inputs) == mathematical definition, for all inputs"))
                .goals(goals)
                .key(format!("gadget:{}", name.split('-').next().unwrap())),
        );
    });
}

fn gadgets<F: VF>(ctx: &mut Ctx) {
    let c = |v: u64| F::from_canonical_u64(v);
    gadget::<F>(ctx, "mul", 2, |b, i| vec![b.mul(i[0], i[1])], |v| vec![v[0] * v[1]], &[]);
    gadget::<F>(ctx, "add", 2, |b, i| vec![b.add(i[0], i[1])], |v| vec![v[0] + v[1]], &[]);
    gadget::<F>(ctx, "sub", 2, |b, i| vec![b.sub(i[0], i[1])], |v| vec![v[0] - v[1]], &[]);
    gadget::<F>(ctx, "neg", 1, |b, i| vec![b.neg(i[0])], |v| vec![-v[0]], &[]);
    gadget::<F>(ctx, "square", 1, |b, i| vec![b.square(i[0])], |v| vec![v[0] * v[0]], &[]);
    gadget::<F>(ctx, "cube", 1, |b, i| vec![b.cube(i[0])], |v| vec![v[0] * v[0] * v[0]], &[]);
    gadget::<F>(ctx, "mul_add", 3, |b, i| vec![b.mul_add(i[0], i[1], i[2])], |v| vec![v[0] * v[1] + v[2]], &[]);
    gadget::<F>(ctx, "mul_sub", 3, |b, i| vec![b.mul_sub(i[0], i[1], i[2])], |v| vec![v[0] * v[1] - v[2]], &[]);
    gadget::<F>(ctx, "add_const", 1, |b, i| vec![b.add_const(i[0], F::from_canonical_u64(11))], move |v| vec![v[0] + c(11)], &[]);
    gadget::<F>(ctx, "mul_const", 1, |b, i| vec![b.mul_const(F::from_canonical_u64(11), i[0])], move |v| vec![v[0] * c(11)], &[]);
    gadget::<F>(ctx, "mul_const_add", 2, |b, i| vec![b.mul_const_add(F::from_canonical_u64(5), i[0], i[1])], move |v| vec![c(5) * v[0] + v[1]], &[]);
    gadget::<F>(ctx, "add_many", 5, |b, i| vec![b.add_many(i.iter().copied())], |v| vec![v.iter().copied().sum()], &[]);
    gadget::<F>(ctx, "mul_many", 5, |b, i| vec![b.mul_many(i.iter().copied())], |v| vec![v.iter().copied().product()], &[]);
    // every constant-folding special case of arithmetic(): const0*x*y + const1*z
    for (k, (c0, c1)) in [(0u64, 0u64), (0, 1), (1, 0), (1, 1), (3, 0), (0, 3), (3, 5), (1, 5), (3, 1)].iter().enumerate() {
        let (c0, c1) = (*c0, *c1);
        gadget::<F>(
            ctx,
            &format!("arithmetic-c{k}"),
            3,
            move |b, i| vec![b.arithmetic(F::from_canonical_u64(c0), F::from_canonical_u64(c1), i[0], i[1], i[2])],
            move |v| vec![c(c0) * v[0] * v[1] + c(c1) * v[2]],
            &[],
        );
    }
    // operands that are constants / identical targets (the builder folds these)
    gadget::<F>(ctx, "arithmetic-const-operands", 1,
        |b, i| { let k = b.constant(F::from_canonical_u64(6)); let z = b.zero(); let o = b.one(); vec![b.arithmetic(F::TWO, F::from_canonical_u64(3), k, i[0], o), b.arithmetic(F::TWO, F::from_canonical_u64(3), i[0], z, i[0]), b.arithmetic(F::TWO, F::from_canonical_u64(3), o, o, k)] },
        move |v| vec![c(2) * c(6) * v[0] + c(3), c(3) * v[0], c(2) + c(3) * c(6)], &[]);
    gadget::<F>(ctx, "arithmetic-same-operand", 1,
        |b, i| vec![b.arithmetic(F::from_canonical_u64(4), F::from_canonical_u64(9), i[0], i[0], i[0])],
        move |v| vec![c(4) * v[0] * v[0] + c(9) * v[0]], &[]);
    for p in [0u64, 1, 2, 3, 5, 8, 13] {
        gadget::<F>(ctx, &format!("exp_u64-{p}"), 1, move |b, i| vec![b.exp_u64(i[0], p)], move |v| vec![v[0].exp_u64(p)], &[]);
    }
    gadget::<F>(ctx, "exp_power_of_2-3", 1, |b, i| vec![b.exp_power_of_2(i[0], 3)], |v| vec![v[0].exp_u64(8)], &[]);
    gadget::<F>(ctx, "div", 2, |b, i| vec![b.div(i[0], i[1])], |v| vec![v[0] / v[1]], &[]);
    gadget::<F>(ctx, "inverse", 1, |b, i| vec![b.inverse(i[0])], |v| vec![v[0].inverse()], &[]);
    // select / booleans: the selector bit is enumerated
    for bit in [0u64, 1] {
        gadget::<F>(ctx, &format!("select-b{bit}"), 3,
            |b, i| { let bt = plonky2::iop::target::BoolTarget::new_unsafe(i[0]); vec![b.select(bt, i[1], i[2])] },
            move |v| vec![if bit == 1 { v[1] } else { v[2] }], &[(0, bit)]);
        gadget::<F>(ctx, &format!("not-b{bit}"), 1,
            |b, i| { let bt = plonky2::iop::target::BoolTarget::new_unsafe(i[0]); vec![b.not(bt).target] },
            move |_| vec![c(1 - bit)], &[(0, bit)]);
        for bit2 in [0u64, 1] {
            gadget::<F>(ctx, &format!("and-or-b{bit}{bit2}"), 2,
                |b, i| { let x = plonky2::iop::target::BoolTarget::new_unsafe(i[0]); let y = plonky2::iop::target::BoolTarget::new_unsafe(i[1]); vec![b.and(x, y).target, b.or(x, y).target] },
                move |_| vec![c(bit & bit2), c(bit | bit2)], &[(0, bit), (1, bit2)]);
        }
    }
    // random access: index enumerated, list symbolic
    for idx in 0..4u64 {
        gadget::<F>(ctx, &format!("random_access-4-idx{idx}"), 5,
            |b, i| vec![b.random_access(i[0], i[1..].to_vec())],
            move |v| vec![v[1 + idx as usize]], &[(0, idx)]);
    }
    // reduce_with_powers / polynomial evaluation
    gadget::<F>(ctx, "reduce_with_powers", 5,
        |b, i| vec![plonky2::plonk::plonk_common::reduce_with_powers_circuit(b, &i[1..], i[0])],
        |v| { let mut acc = F::ZERO; for t in v[1..].iter().rev() { acc = acc * v[0] + *t; } vec![acc] }, &[]);
    gadget::<F>(ctx, "is_equal-same", 1, |b, i| vec![b.is_equal(i[0], i[0]).target], |_| vec![F::ONE], &[]);
    // range-type gadgets with enumerated small inputs
    for val in [0u64, 1, 5, 7] {
        gadget::<F>(ctx, &format!("split_le-3-{val}"), 1,
            |b, i| b.split_le(i[0], 3).into_iter().map(|t| t.target).collect(),
            move |_| (0..3).map(|k| c((val >> k) & 1)).collect(), &[(0, val)]);
        gadget::<F>(ctx, &format!("le_sum-3-{val}"), 3,
            |b, i| vec![b.le_sum(i.iter().map(|t| plonky2::iop::target::BoolTarget::new_unsafe(*t)))],
            move |_| vec![c(val)], &[(0, val & 1), (1, (val >> 1) & 1), (2, (val >> 2) & 1)]);
    }
}

// -------------------------------------------------------------------------------------------
// sigma polynomials vs copy classes (C02: "sigma polynomials encode one cycle per copy class")

const SIGMA_FILES: &[&str] = &[
    "plonky2/src/plonk/circuit_builder.rs::CircuitBuilder::sigma_vecs",
    "plonky2/src/plonk/permutation_argument.rs::Forest::merge",
    "plonky2/src/plonk/permutation_argument.rs::Forest::compress_paths",
    "plonky2/src/plonk/permutation_argument.rs::Forest::wire_partition",
    "plonky2/src/plonk/permutation_argument.rs::WirePartition::get_sigma_map",
];

/// Decode the committed sigma values of a built circuit into a permutation of the routed wire
/// cells and compare its cycles with the copy classes (the builder's own representative map,
/// which the witness generator uses). The structure is concrete: these are evaluated facts.
fn sigma_case<F: VF>(ctx: &mut Ctx, name: &str, build: impl Fn(&mut CircuitBuilder<F, 2>), config: CircuitConfig) {
    let idp = format!("C02.S.plonk.sigma.{name}");
    ctx.guarded(&idp.clone(), SIGMA_FILES, |ctx| {
        if F::SYMBOLIC {
            crate::reset();
        }
        let mut b = CircuitBuilder::<F, 2>::new(config.clone());
        build(&mut b);
        let data = b.build::<F::Cfg>();
        let cd = &data.common;
        let (n, routed, nw) = (cd.degree(), cd.config.num_routed_wires, cd.config.num_wires);
        let po = &data.prover_only;
        // value -> cell
        let mut cell_of: std::collections::HashMap<crate::Op, (usize, usize)> = std::collections::HashMap::new();
        for c in 0..routed {
            for r in 0..n {
                cell_of.insert((cd.k_is[c] * po.subgroup[r]).to_op(), (r, c));
            }
        }
        let mut is_perm = cell_of.len() == n * routed;
        let mut sigma: std::collections::HashMap<(usize, usize), (usize, usize)> = std::collections::HashMap::new();
        for r in 0..n {
            for c in 0..routed {
                match cell_of.get(&po.sigmas[r][c].to_op()) {
                    Some(&t) => {
                        sigma.insert((r, c), t);
                    }
                    None => is_perm = false,
                }
            }
        }
        let image: std::collections::HashSet<(usize, usize)> = sigma.values().copied().collect();
        is_perm &= image.len() == n * routed;
        // cycles of sigma vs classes of the representative map
        let rep = |r: usize, c: usize| po.representative_map[Target::wire(r, c).index(nw, n)];
        let mut within_class = true; // sigma never leaves a copy class
        let mut one_cycle_per_class = true; // the cycle through a cell visits its whole class
        let mut class_size: std::collections::HashMap<usize, usize> = std::collections::HashMap::new();
        for r in 0..n {
            for c in 0..routed {
                *class_size.entry(rep(r, c)).or_insert(0) += 1;
            }
        }
        let mut bad: Vec<String> = vec![];
        if is_perm {
            for r in 0..n {
                for c in 0..routed {
                    let (r2, c2) = sigma[&(r, c)];
                    if rep(r2, c2) != rep(r, c) {
                        within_class = false;
                    }
                    let mut len = 1;
                    let mut cur = (r2, c2);
                    while cur != (r, c) && len <= n * routed {
                        cur = sigma[&cur];
                        len += 1;
                    }
                    if len != class_size[&rep(r, c)] {
                        one_cycle_per_class = false;
                        if bad.len() < 4 {
                            bad.push(format!("cell ({r},{c}): cycle length {len}, class size {}", class_size[&rep(r, c)]));
                        }
                    }
                }
            }
        }
        let classes_gt1 = class_size.values().filter(|s| **s > 1).count();
        ctx.add(
            Ob::new(idp.clone(), SIGMA_FILES, format!("circuit '{name}' built by the real builder: {n} rows x {routed} routed wires, {classes_gt1} copy classes with more than one routed cell; concrete structure (no symbolic values)"))
                .sample(format!("the committed sigma polynomials decode to a permutation of the routed cells whose cycles are exactly the copy classes of the builder's representative map; mismatches: {bad:?}"))
                .goal(A::Bool(is_perm))
                .goal(A::Bool(within_class))
                .goal(A::Bool(one_cycle_per_class))
                .goal(A::Bool(classes_gt1 > 0))
                .key("sigma:cycles-differ-from-copy-classes"),
        );
    });
}

fn sigma_group<F: VF>(ctx: &mut Ctx) {
    let tiny = tiny_config(8, 8, 4);
    // a target first used in a gate, then connected to a product computed later (its class already
    // has members hanging below the root when the merge happens)
    sigma_case::<F>(ctx, "chain-late-connect", |b| {
        let a = b.add_virtual_target();
        let x = b.add_virtual_target();
        let c = b.add_virtual_target();
        let c_sq = b.mul(c, c);
        let ab = b.mul(a, x);
        b.connect(ab, c);
        let _ = b.add(c_sq, ab);
    }, tiny.clone());
    sigma_case::<F>(ctx, "chain-both-orders", |b| {
        let t: Vec<Target> = (0..6).map(|_| b.add_virtual_target()).collect();
        let s: Vec<Target> = t.iter().map(|x| b.mul(*x, *x)).collect();
        // merge in an order that builds deep parent chains: (1,0) (2,1) (4,5) (3,4) (2,3)
        b.connect(t[1], t[0]);
        b.connect(t[2], t[1]);
        b.connect(t[4], t[5]);
        b.connect(t[3], t[4]);
        b.connect(t[2], t[3]);
        let _ = b.add_many(s.iter().copied());
    }, tiny.clone());
    sigma_case::<F>(ctx, "star-and-reverse", |b| {
        let hub = b.add_virtual_target();
        let t: Vec<Target> = (0..5).map(|_| b.add_virtual_target()).collect();
        for (i, x) in t.iter().enumerate() {
            let sq = b.mul(*x, hub);
            if i % 2 == 0 {
                b.connect(sq, hub);
            } else {
                b.connect(hub, sq);
            }
        }
    }, tiny.clone());
    sigma_case::<F>(ctx, "tiny-circuit", |b| {
        let x = b.add_virtual_target();
        let y = b.add_virtual_target();
        let xy = b.mul(x, y);
        let s = b.add(xy, x);
        let c = b.constant(F::from_canonical_u64(7));
        let t = b.mul(s, c);
        let u = b.sub(t, y);
        b.connect(u, x);
    }, tiny);
    sigma_case::<F>(ctx, "standard-config-public-inputs", |b| {
        let x = b.add_virtual_target();
        let y = b.add_virtual_target();
        let z = b.mul(x, y);
        let w = b.exp_u64(z, 5);
        b.register_public_input(w);
        b.register_public_input(x);
        let zero = b.zero();
        let r = b.random_access(zero, vec![x, y, z, w]);
        b.connect(r, x);
    }, CircuitConfig::standard_recursion_config());
}

// -------------------------------------------------------------------------------------------
// end-to-end completeness under unusual configurations (concrete native facts)

const E2E_FILES: &[&str] = &[
    "plonky2/src/plonk/prover.rs::prove",
    "plonky2/src/plonk/verifier.rs::verify",
    "plonky2/src/plonk/circuit_builder.rs::CircuitBuilder::build",
    "plonky2/src/fri/oracle.rs::PolynomialBatch::prove_openings",
    "plonky2/src/fri/reduction_strategies.rs::FriReductionStrategy::reduction_arity_bits",
];

/// "Honest proofs verify and carry the right outputs under every admissible configuration":
/// the prover pipeline cannot be executed symbolically, so this group runs the REAL
/// build / prove / verify natively (GoldilocksField) on one small program under configurations
/// the repository's tests never use, and compares the public outputs with direct evaluation.
/// Concrete structure and values: evaluated facts, no quantifier over inputs.
fn e2e_configs(ctx: &mut Ctx) {
    if ctx.is_witness_run() {
        return;
    }
    use plonky2::plonk::config::{GenericConfig, KeccakGoldilocksConfig, PoseidonGoldilocksConfig};
    use plonky2_field::goldilocks_field::GoldilocksField as G;
    use std::sync::Arc;
    fn run<C: GenericConfig<2, F = G> + 'static>(config: CircuitConfig, lookups: bool, seed: u64) -> (bool, bool, bool) {
        let mut b = CircuitBuilder::<G, 2>::new(config);
        let x = b.add_virtual_target();
        let y = b.add_virtual_target();
        let xy = b.mul(x, y);
        let s = b.add(xy, x);
        let e = b.exp_u64(s, 5);
        let q = b.div(e, y);
        let bits = b.split_le(x, 8);
        let back = b.le_sum(bits.iter());
        b.connect(back, x);
        let zero = b_zero(&mut b);
        let r = b.random_access(zero, vec![x, y, xy, s]);
        let mut outs = vec![q, r, e];
        if lookups {
            let table: Vec<(u16, u16)> = (0..5u16).map(|i| (i, 3 * i + 1)).collect();
            let lut = b.add_lookup_table_from_pairs(Arc::new(table));
            let idx = b.constant(G::from_canonical_u64(3));
            outs.push(b.add_lookup_from_index(idx, lut));
        }
        for o in &outs {
            b.register_public_input(*o);
        }
        let data = b.build::<C>();
        let (xv, yv) = (G::from_canonical_u64(5 + seed % 200), G::from_canonical_u64(0xdead_beef + seed));
        let mut pw = PartialWitness::<G>::new();
        pw.set_target(x, xv).unwrap();
        pw.set_target(y, yv).unwrap();
        let proof = match data.prove(pw) {
            Ok(p) => p,
            Err(_) => return (false, false, false),
        };
        let sv = xv * yv + xv;
        let ev = sv.exp_u64(5);
        let mut want = vec![ev / yv, xv, ev];
        if lookups {
            want.push(G::from_canonical_u64(10));
        }
        let outputs_ok = proof.public_inputs == want;
        let verifies = data.verify(proof).is_ok();
        (true, verifies, outputs_ok)
    }
    fn b_zero(b: &mut CircuitBuilder<plonky2_field::goldilocks_field::GoldilocksField, 2>) -> Target {
        b.zero()
    }
    let base = CircuitConfig::standard_recursion_config();
    let fri = |rate_bits: usize, cap_height: usize, strategy: FriReductionStrategy, queries: usize, pow: u32| FriConfig {
        rate_bits,
        cap_height,
        proof_of_work_bits: pow,
        reduction_strategy: strategy,
        num_query_rounds: queries,
    };
    // rate_bits >= log2(max_quotient_degree_factor) = 3 is the prover's stated precondition
    // ("Having constraints of degree higher than the rate is not supported yet"), so every case keeps it.
    let mut cases: Vec<(String, CircuitConfig, bool, bool)> = vec![];
    let mk = |name: &str, zk: bool, nch: usize, f: FriConfig| {
        let mut c = base.clone();
        c.zero_knowledge = zk;
        c.num_challenges = nch;
        c.security_bits = (f.num_query_rounds * f.rate_bits + f.proof_of_work_bits as usize).min(100);
        c.fri_config = f;
        (name.to_string(), c)
    };
    let add = |cases: &mut Vec<(String, CircuitConfig, bool, bool)>, nc: (String, CircuitConfig), lookups: bool, keccak: bool| cases.push((nc.0, nc.1, lookups, keccak));
    add(&mut cases, mk("zk-on", true, 2, fri(3, 4, FriReductionStrategy::ConstantArityBits(4, 5), 28, 16)), false, false);
    add(&mut cases, mk("zk-on-lookups", true, 2, fri(3, 4, FriReductionStrategy::ConstantArityBits(4, 5), 28, 16)), true, false);
    add(&mut cases, mk("one-challenge-rate3-cap0-fixed", false, 1, fri(3, 0, FriReductionStrategy::Fixed(vec![1, 2, 1]), 30, 0)), false, false);
    add(&mut cases, mk("three-challenges-rate5-cap2-minsize", false, 3, fri(5, 2, FriReductionStrategy::MinSize(None), 16, 4)), false, false);
    add(&mut cases, mk("rate4-cap1-arity1-lookups", false, 2, fri(4, 1, FriReductionStrategy::ConstantArityBits(1, 2), 20, 8)), true, false);
    add(&mut cases, mk("minsize-max3-cap3", false, 2, fri(3, 3, FriReductionStrategy::MinSize(Some(3)), 28, 0)), false, false);
    add(&mut cases, mk("keccak-standard", false, 2, fri(3, 4, FriReductionStrategy::ConstantArityBits(4, 5), 28, 16)), false, true);
    add(&mut cases, mk("keccak-zk-rate4", true, 2, fri(4, 2, FriReductionStrategy::ConstantArityBits(2, 3), 21, 0)), true, true);
    // row widths that are not a multiple of the quotient degree factor (a short last chunk of
    // partial products)
    let mut narrow = mk("routed37", false, 2, fri(3, 4, FriReductionStrategy::ConstantArityBits(4, 5), 28, 16));
    narrow.1.num_routed_wires = 37;
    add(&mut cases, narrow, false, false);
    let mut wide = mk("routed100-keccak", false, 2, fri(3, 4, FriReductionStrategy::ConstantArityBits(4, 5), 28, 16));
    wide.1.num_routed_wires = 100;
    add(&mut cases, wide, false, true);
    for (name, cfg, lookups, keccak) in cases {
        let idp = format!("C01.S.plonk.e2e.{name}");
        ctx.guarded(&idp.clone(), E2E_FILES, |ctx| {
            let mut goals = vec![];
            let mut notes = vec![];
            for seed in [1u64, 2] {
                let (proved, verifies, outputs_ok) = if keccak {
                    run::<KeccakGoldilocksConfig>(cfg.clone(), lookups, seed)
                } else {
                    run::<PoseidonGoldilocksConfig>(cfg.clone(), lookups, seed)
                };
                notes.push(format!("seed {seed}: proved={proved} verifies={verifies} outputs_ok={outputs_ok}"));
                goals.push(A::Bool(proved));
                goals.push(A::Bool(verifies));
                goals.push(A::Bool(outputs_ok));
            }
            ctx.add(
                Ob::new(idp.clone(), E2E_FILES, format!("one small program (mul, add, exp, div, split/le_sum, random access{}) under configuration {name}: zero_knowledge={}, {} challenges, FRI {:?}, hasher {}; two concrete inputs; native run", if lookups { ", table lookup" } else { "" }, cfg.zero_knowledge, cfg.num_challenges, cfg.fri_config, if keccak { "Keccak" } else { "Poseidon" }))
                    .sample(format!("real build + prove + verify succeed and the public inputs equal direct evaluation over the field ({})", notes.join("; ")))
                    .goals(goals)
                    .key(format!("e2e-config:{name}")),
            );
        });
    }
}

pub fn family<F: VF>(ctx: &mut Ctx) {
    e2e_configs(ctx);
    sigma_group::<F>(ctx);
    vanishing_reference::<F>(ctx);
    prover_vs_verifier::<F>(ctx);
    partial_products::<F>(ctx);
    gadgets::<F>(ctx);
}
