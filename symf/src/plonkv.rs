//! C03 / C02 (plonk level): the real `verify_with_challenges` in accept-path mode on a fully
//! symbolic proof of a small circuit, challenges held fixed.
//!  * every opening, every lane of the public-input hash, every cap (proof caps and the
//!    verifier data's preprocessed cap) is pinned by the acceptance condition;
//!  * the acceptance condition implies the vanishing identity V_i(zeta) = Z_H(zeta) t_i(zeta)
//!    for EVERY challenge index i (V_i recomputed through the hook on the same openings);
//!  * shape validation rejects every single-vector length change.
//! Native replay: an honest proof from the real prover (`CircuitData::prove`), the element
//! altered, `verify_with_challenges` called with the honest challenges held fixed.
use plonky2::fri::proof::FriChallenges;
use plonky2::hash::hash_types::HashOut;
use plonky2::hash::merkle_tree::MerkleCap;
use plonky2::hash::poseidon::PoseidonHash;
use plonky2::iop::witness::{PartialWitness, WitnessWrite};
use plonky2::plonk::circuit_data::CircuitData;
use plonky2::plonk::proof::{OpeningSet, Proof, ProofChallenges, ProofWithPublicInputs};
use plonky2::plonk::vars::EvaluationVars;
use plonky2::verif_hooks as hk;
use plonky2_field::extension::{Extendable, FieldExtension};
use plonky2_field::types::Field;

use crate::ctx::{eq, eq_ext, Ctx, Ob, A, VF};
use crate::fri::{self, Shape};
use crate::plonk::tiny_circuit;

type Ext<F> = <F as Extendable<2>>::Extension;
type H = PoseidonHash;

fn ext_of<F: VF>(a: F, b: F) -> Ext<F> {
    <Ext<F> as FieldExtension<2>>::from_basefield_array([a, b])
}

pub struct PBundle<F: VF> {
    pub proof: Proof<F, F::Cfg, 2>,
    pub pih: HashOut<F>,
    pub ch: ProofChallenges<F, 2>,
    pub vcap: MerkleCap<F, H>,
}

fn clone_ch<F: VF>(c: &ProofChallenges<F, 2>) -> ProofChallenges<F, 2> {
    ProofChallenges {
        plonk_betas: c.plonk_betas.clone(),
        plonk_gammas: c.plonk_gammas.clone(),
        plonk_alphas: c.plonk_alphas.clone(),
        plonk_deltas: c.plonk_deltas.clone(),
        plonk_zeta: c.plonk_zeta,
        fri_challenges: FriChallenges {
            fri_alpha: c.fri_challenges.fri_alpha,
            fri_betas: c.fri_challenges.fri_betas.clone(),
            fri_pow_response: c.fri_challenges.fri_pow_response,
            fri_query_indices: c.fri_challenges.fri_query_indices.clone(),
        },
    }
}

impl<F: VF> Clone for PBundle<F> {
    fn clone(&self) -> Self {
        PBundle { proof: self.proof.clone(), pih: self.pih, ch: clone_ch(&self.ch), vcap: self.vcap.clone() }
    }
}

fn chal<F: VF>(seed: u64, k: u64) -> F {
    let mut h = seed.wrapping_mul(0x9E37_79B9_7F4A_7C15) ^ (k.wrapping_add(77)).wrapping_mul(0xD6E8_FEB8_6659_FD93);
    h ^= h >> 31;
    h = h.wrapping_mul(0xBF58_476D_1CE4_E5B9);
    h ^= h >> 29;
    F::from_noncanonical_u64(h)
}

fn shape_of<F: VF>(data: &CircuitData<F, F::Cfg, 2>, query: usize) -> Shape {
    let cd = &data.common;
    let inst = hk::get_fri_instance::<F, 2>(cd, Ext::<F>::TWO);
    Shape {
        name: "plonk-tiny",
        oracles: inst.oracles.iter().map(|o| o.num_polys).collect(),
        batches: inst.batches.iter().map(|b| b.polynomials.iter().map(|p| (p.oracle_index, p.polynomial_index)).collect()).collect(),
        degree_bits: cd.degree_bits(),
        rate_bits: cd.config.fri_config.rate_bits,
        cap_height: cd.config.fri_config.cap_height,
        arity_bits: cd.fri_params.reduction_arity_bits.clone(),
        query_indices: vec![query],
    }
}

fn symbolic<F: VF>(data: &CircuitData<F, F::Cfg, 2>, query: usize, seed: u64) -> PBundle<F> {
    let cd = &data.common;
    let sh = shape_of::<F>(data, query);
    let fb = fri::symbolic_bundle::<F>(&sh, seed);
    let nch = cd.config.num_challenges;
    let e = |n: &str, k: usize| -> Vec<Ext<F>> { (0..k).map(|i| F::ext(&format!("{n}{i}"))).collect() };
    let openings = OpeningSet {
        constants: e("oc", cd.num_constants),
        plonk_sigmas: e("osg", cd.config.num_routed_wires),
        wires: e("ow", cd.config.num_wires),
        plonk_zs: e("oz", nch),
        plonk_zs_next: e("ozn", nch),
        partial_products: e("opp", nch * cd.num_partial_products),
        quotient_polys: e("oq", nch * cd.quotient_degree_factor),
        lookup_zs: vec![],
        lookup_zs_next: vec![],
    };
    let proof = Proof {
        wires_cap: fb.caps[1].clone(),
        plonk_zs_partial_products_cap: fb.caps[2].clone(),
        quotient_polys_cap: fb.caps[3].clone(),
        openings,
        opening_proof: fb.proof,
    };
    let ch = ProofChallenges {
        plonk_betas: (0..nch).map(|i| chal::<F>(seed, i as u64)).collect(),
        plonk_gammas: (0..nch).map(|i| chal::<F>(seed, 10 + i as u64)).collect(),
        plonk_alphas: (0..nch).map(|i| chal::<F>(seed, 20 + i as u64)).collect(),
        plonk_deltas: vec![],
        // the FRI instance inside symbolic_bundle was built for this zeta
        plonk_zeta: fri::zeta_of::<F>(seed),
        fri_challenges: fb.challenges,
    };
    PBundle { proof, pih: HashOut { elements: core::array::from_fn(|k| F::var(&format!("pih{k}"))) }, ch, vcap: fb.caps[0].clone() }
}

fn honest<F: VF>(data: &CircuitData<F, F::Cfg, 2>, ins: &[plonky2::iop::target::Target]) -> PBundle<F> {
    let mut pw = PartialWitness::<F>::new();
    pw.set_target(ins[0], F::var("x")).unwrap();
    pw.set_target(ins[1], F::var("y")).unwrap();
    let pwp: ProofWithPublicInputs<F, F::Cfg, 2> = data.prove(pw).expect("honest proof");
    let pih = pwp.get_public_inputs_hash();
    let ch = pwp.get_challenges(pih, &data.verifier_only.circuit_digest, &data.common).expect("challenges");
    PBundle { proof: pwp.proof, pih, ch, vcap: data.verifier_only.constants_sigmas_cap.clone() }
}

#[derive(Clone, Debug)]
pub enum PPos {
    Constants(usize, usize),
    Sigmas(usize, usize),
    Wires(usize, usize),
    Zs(usize, usize),
    ZsNext(usize, usize),
    PartialProducts(usize, usize),
    Quotient(usize, usize),
    Pih(usize),
    WiresCap(usize, usize),
    ZsCap(usize, usize),
    QuotientCap(usize, usize),
    VerifierDataCap(usize, usize),
}

fn bump<F: VF>(x: &mut Ext<F>, l: usize, d: F) {
    let mut a = x.to_basefield_array();
    a[l] += d;
    *x = <Ext<F> as FieldExtension<2>>::from_basefield_array(a);
}

fn perturb<F: VF>(b: &PBundle<F>, p: &PPos, d: F) -> PBundle<F> {
    let mut b = b.clone();
    let o = &mut b.proof.openings;
    match *p {
        PPos::Constants(i, l) => bump::<F>(&mut o.constants[i], l, d),
        PPos::Sigmas(i, l) => bump::<F>(&mut o.plonk_sigmas[i], l, d),
        PPos::Wires(i, l) => bump::<F>(&mut o.wires[i], l, d),
        PPos::Zs(i, l) => bump::<F>(&mut o.plonk_zs[i], l, d),
        PPos::ZsNext(i, l) => bump::<F>(&mut o.plonk_zs_next[i], l, d),
        PPos::PartialProducts(i, l) => bump::<F>(&mut o.partial_products[i], l, d),
        PPos::Quotient(i, l) => bump::<F>(&mut o.quotient_polys[i], l, d),
        PPos::Pih(k) => b.pih.elements[k] += d,
        PPos::WiresCap(k, lane) => b.proof.wires_cap.0[k].elements[lane] += d,
        PPos::ZsCap(k, lane) => b.proof.plonk_zs_partial_products_cap.0[k].elements[lane] += d,
        PPos::QuotientCap(k, lane) => b.proof.quotient_polys_cap.0[k].elements[lane] += d,
        PPos::VerifierDataCap(k, lane) => b.vcap.0[k].elements[lane] += d,
    }
    b
}

fn run<F: VF>(data: &CircuitData<F, F::Cfg, 2>, b: &PBundle<F>) -> A {
    let mut vd = data.verifier_only.clone();
    vd.constants_sigmas_cap = b.vcap.clone();
    let (ok, atoms) = F::accept(|| hk::verify_with_challenges::<F, F::Cfg, 2>(b.proof.clone(), b.pih, clone_ch(&b.ch), &vd, &data.common));
    A::Accept(ok, atoms)
}

const FILES: &[&str] = &[
    "plonky2/src/plonk/verifier.rs::verify_with_challenges",
    "plonky2/src/plonk/vanishing_poly.rs::eval_vanishing_poly",
    "plonky2/src/plonk/proof.rs::OpeningSet::to_fri_openings",
    "plonky2/src/plonk/circuit_data.rs::CommonCircuitData::get_fri_instance",
    "plonky2/src/fri/verifier.rs::verify_fri_proof",
    "plonky2/src/gates/public_input.rs::PublicInputGate",
];

pub fn family<F: VF>(ctx: &mut Ctx) {
    let th = ctx.thorough();
    let queries: Vec<usize> = if th { vec![0, 5, 9, 14] } else { vec![5] };
    for q in queries {
        let idp = format!("C03.S.plonkv.tiny.idx{q}");
        ctx.guarded(&idp.clone(), FILES, |ctx| one::<F>(ctx, &idp, q, th));
    }
    shape::<F>(ctx);
    compressed_shape(ctx);
    compressed_malformed(ctx);
}

const CMAL_FILES: &[&str] = &[
    "plonky2/src/plonk/proof.rs::CompressedProofWithPublicInputs::verify",
    "plonky2/src/plonk/proof.rs::CompressedProofWithPublicInputs::decompress",
    "plonky2/src/plonk/proof.rs::CompressedProofWithPublicInputs::from_bytes",
    "plonky2/src/plonk/get_challenges.rs::CompressedProofWithPublicInputs::get_inferred_elements",
    "plonky2/src/fri/proof.rs::CompressedFriProof::decompress",
    "plonky2/src/hash/path_compression.rs::decompress_merkle_proofs",
    "plonky2/src/plonk/circuit_data.rs::CircuitData::verify_compressed",
    "plonky2/src/plonk/circuit_data.rs::CircuitData::decompress",
];

/// Runs `f`, reporting "ok" / "err" / "panic" and, for a panic, the source file that raised it
/// (relative to the repository; used as the role of the failing call site).
fn outcome<R>(f: impl FnOnce() -> anyhow::Result<R>) -> (&'static str, String) {
    use std::sync::{Arc, Mutex};
    let site: Arc<Mutex<String>> = Arc::new(Mutex::new(String::new()));
    let s2 = site.clone();
    let old = std::panic::take_hook();
    std::panic::set_hook(Box::new(move |info| {
        if let Some(l) = info.location() {
            let f = l.file();
            let rel = ["plonky2/src/", "starky/src/", "field/src/", "util/src/"].iter().find_map(|m| f.find(m).map(|i| &f[i..])).unwrap_or(f);
            *s2.lock().unwrap() = rel.to_string();
        }
    }));
    let r = std::panic::catch_unwind(std::panic::AssertUnwindSafe(f));
    std::panic::set_hook(old);
    let at = site.lock().unwrap().clone();
    match r {
        Ok(Ok(_)) => ("ok", String::new()),
        Ok(Err(_)) => ("err", String::new()),
        Err(_) => ("panic", at),
    }
}

/// C18 on the compressed entry points: structurally malformed compressed proofs (and edited
/// encodings) must be rejected with an error by `verify_compressed` and `decompress`, never by a
/// panic and never accepted. One native proof, concrete structure: evaluated facts on the real API.
/// (The redundant `indices` list of `CompressedFriQueryRounds` is not a case: verification
/// recomputes the query indices from the transcript and ignores that field, which only the byte
/// encoder reads; accepting a proof whose copy of it is wrong does not accept a false statement.)
fn compressed_malformed(ctx: &mut Ctx) {
    if ctx.is_witness_run() {
        return;
    }
    use plonky2::plonk::circuit_data::CircuitConfig;
    use plonky2::plonk::config::PoseidonGoldilocksConfig as C;
    use plonky2::plonk::proof::CompressedProofWithPublicInputs as CP;
    use plonky2_field::goldilocks_field::GoldilocksField as G;
    if !ctx.wants("C18.S.plonkv.shape.") {
        return;
    }
    let built = std::panic::catch_unwind(|| {
        // two FRI reduction steps, so that the per-step maps of the compressed proof are populated
        let mut cfg = CircuitConfig::standard_recursion_config();
        cfg.fri_config.reduction_strategy = plonky2::fri::reduction_strategies::FriReductionStrategy::Fixed(vec![1, 1]);
        let mut b = plonky2::plonk::circuit_builder::CircuitBuilder::<G, 2>::new(cfg);
        let x = b.add_virtual_target();
        let y = b.add_virtual_target();
        let mut z = b.mul(x, y);
        for _ in 0..100 {
            z = b.mul_add(z, y, x);
        }
        b.register_public_input(x);
        b.register_public_input(z);
        let data = b.build::<C>();
        let mut pw = PartialWitness::<G>::new();
        pw.set_target(x, G::from_canonical_u64(3)).unwrap();
        pw.set_target(y, G::from_canonical_u64(5)).unwrap();
        let proof = data.prove(pw).expect("honest proof");
        let comp = data.compress(proof).expect("compress");
        (data, comp)
    });
    let Ok((data, comp)) = built else {
        ctx.guarded("C18.S.plonkv.shape.compressed.setup", CMAL_FILES, |_| panic!("building / proving / compressing the tiny circuit panicked"));
        return;
    };
    type M = Box<dyn Fn(&mut CP<G, C, 2>)>;
    let first_key = |p: &CP<G, C, 2>| *p.proof.opening_proof.query_round_proofs.initial_trees_proofs.keys().min().unwrap();
    let cases: Vec<(&str, M)> = vec![
        ("honest", Box::new(|_| {})),
        ("openings.wires.remove-last", Box::new(|p| { p.proof.openings.wires.pop(); })),
        ("openings.quotient_polys.doubled", Box::new(|p| { let e = p.proof.openings.quotient_polys.clone(); p.proof.openings.quotient_polys.extend(e); })),
        ("openings.plonk_zs.empty", Box::new(|p| p.proof.openings.plonk_zs.clear())),
        ("wires_cap.remove-last", Box::new(|p| { p.proof.wires_cap.0.pop(); })),
        ("fri.initial_trees_proofs.remove-one", Box::new(move |p| { let k = first_key(p); p.proof.opening_proof.query_round_proofs.initial_trees_proofs.remove(&k); })),
        ("fri.initial_trees_proofs.empty", Box::new(|p| p.proof.opening_proof.query_round_proofs.initial_trees_proofs.clear())),
        ("fri.initial.evals_proofs.remove-last", Box::new(move |p| { let k = first_key(p); p.proof.opening_proof.query_round_proofs.initial_trees_proofs.get_mut(&k).unwrap().evals_proofs.pop(); })),
        ("fri.initial.evals[0].remove-last", Box::new(move |p| { let k = first_key(p); p.proof.opening_proof.query_round_proofs.initial_trees_proofs.get_mut(&k).unwrap().evals_proofs[0].0.pop(); })),
        ("fri.steps.remove-last", Box::new(|p| { p.proof.opening_proof.query_round_proofs.steps.pop(); })),
        ("fri.steps[0].remove-one", Box::new(|p| { let s = &mut p.proof.opening_proof.query_round_proofs.steps[0]; let k = *s.keys().min().unwrap(); s.remove(&k); })),
        ("fri.steps[0].evals.remove-last", Box::new(|p| { let s = &mut p.proof.opening_proof.query_round_proofs.steps[0]; let k = *s.keys().min().unwrap(); s.get_mut(&k).unwrap().evals.pop(); })),
        ("fri.steps[0].evals.duplicate-last", Box::new(|p| { let s = &mut p.proof.opening_proof.query_round_proofs.steps[0]; let k = *s.keys().min().unwrap(); let v = &mut s.get_mut(&k).unwrap().evals; let e = *v.last().unwrap(); v.push(e); })),
        ("fri.steps[0].siblings.empty", Box::new(|p| { for q in p.proof.opening_proof.query_round_proofs.steps[0].values_mut() { q.merkle_proof.siblings.clear(); } })),
        ("fri.initial.siblings.empty", Box::new(|p| { for q in p.proof.opening_proof.query_round_proofs.initial_trees_proofs.values_mut() { for e in q.evals_proofs.iter_mut() { e.1.siblings.clear(); } } })),
        ("fri.commit_phase_merkle_caps.remove-last", Box::new(|p| { p.proof.opening_proof.commit_phase_merkle_caps.pop(); })),
        ("fri.final_poly.remove-last", Box::new(|p| { p.proof.opening_proof.final_poly.coeffs.pop(); })),
    ];
    for (name, m) in cases {
        for entry in ["verify_compressed", "decompress"] {
            let id = format!("C18.S.plonkv.shape.compressed.{name}.{entry}");
            ctx.guarded(&id.clone(), CMAL_FILES, |ctx| {
                let mut p = comp.clone();
                m(&mut p);
                let (what, at) = if entry == "verify_compressed" {
                    outcome(|| data.verify_compressed(p))
                } else {
                    outcome(|| data.decompress(p).and_then(|d| data.verify(d)))
                };
                let good = if name == "honest" { what == "ok" } else { what == "err" };
                ctx.add(
                    Ob::new(id.clone(), CMAL_FILES, format!("one native compressed proof (standard_recursion_config with two arity-2 FRI reductions, Poseidon) with the change `{name}`, handed to {}; concrete structure", if entry == "decompress" { "decompress followed by verify" } else { "verify_compressed" }))
                        .sample(format!("{}; observed: {what}{}", if name == "honest" { "the honest compressed proof is accepted" } else { "a malformed compressed proof is rejected with an error (no panic, no acceptance)" }, if at.is_empty() { String::new() } else { format!(" at {at}") }))
                        .goal(A::Bool(good))
                        .key(format!("compressed-path:{entry}:{}:{}", name.split('.').next().unwrap(), if what == "panic" { format!("panic-in:{at}") } else { format!("{name}:{what}") })),
                );
            });
        }
    }
    // edited encodings of the plain proof: the public-input length field (every single-bit flip and
    // boundary values), truncations and sampled single-bit flips; decoding and verification must
    // not panic, and nothing but the original statement may be accepted
    if let Ok(proof) = std::panic::catch_unwind(std::panic::AssertUnwindSafe(|| data.decompress(comp.clone()).expect("decompress"))) {
        let bytes = proof.to_bytes();
        let npi = proof.public_inputs.len();
        let lpos = bytes.len() - 8 * npi - 8;
        let try_bytes = |e: Vec<u8>| -> (&'static str, String) {
            let pis = proof.public_inputs.clone();
            outcome(|| {
                let d = plonky2::plonk::proof::ProofWithPublicInputs::<G, C, 2>::from_bytes(e, &data.common)?;
                let same = d.public_inputs == pis;
                data.verify(d)?;
                if same { Ok(()) } else { panic!("a proof with different public inputs was accepted") }
            })
        };
        let mut groups: Vec<(&str, String, Vec<Vec<u8>>)> = vec![];
        let mut lf = vec![];
        for bit in 0..64 {
            let mut e = bytes.clone();
            e[lpos + bit / 8] ^= 1 << (bit % 8);
            lf.push(e);
        }
        for v in [0u64, (npi as u64).wrapping_sub(1), npi as u64 + 1, 1 << 61, (1 << 61) + npi as u64, 1 << 63, u64::MAX, u64::MAX / 8, u64::MAX / 8 + 1] {
            let mut e = bytes.clone();
            e[lpos..lpos + 8].copy_from_slice(&v.to_le_bytes());
            lf.push(e);
        }
        groups.push(("length-field", format!("the 8-byte public-input count (offset {lpos}): all 64 single-bit flips and 9 boundary values"), lf));
        let mut tr: Vec<Vec<u8>> = (0..bytes.len()).step_by(97).map(|n| bytes[..n].to_vec()).collect();
        tr.extend((1..64).map(|k| bytes[..bytes.len() - k].to_vec()));
        groups.push(("truncations", format!("prefixes of the {}-byte encoding: every 97th length and the last 63", bytes.len()), tr));
        let fl: Vec<Vec<u8>> = (0..bytes.len()).step_by(211).map(|i| { let mut e = bytes.clone(); e[i] ^= 1 << (i % 8); e }).collect();
        groups.push(("bit-flips", "one flipped bit in every 211th byte".to_string(), fl));
        for (gname, gwhat, inputs) in groups {
            let id = format!("C18.S.plonkv.shape.bytes.{gname}");
            ctx.guarded(&id.clone(), CMAL_FILES, |ctx| {
                let mut bad: Vec<String> = vec![];
                let n = inputs.len();
                for (k, e) in inputs.into_iter().enumerate() {
                    let (what, at) = try_bytes(e);
                    if what == "panic" {
                        bad.push(format!("#{k}: panic at {at}"));
                    }
                }
                ctx.add(
                    Ob::new(id.clone(), CMAL_FILES, format!("valid ProofWithPublicInputs encoding, {gwhat}: {n} edited inputs; from_bytes then verify; concrete inputs"))
                        .sample(format!("neither the decoder nor the verifier panics (arithmetic overflow, allocation, index), and no proof with other public inputs is accepted; failing: {:?}", &bad[..bad.len().min(4)]))
                        .goal(A::Bool(bad.is_empty()))
                        .key(format!("proof-decoder:{gname}:panic")),
                );
            });
        }
    }
    // edited encodings: every single-bit flip of the first query index's low byte
    let bytes = comp.to_bytes();
    let pattern: Vec<u8> = comp.proof.opening_proof.query_round_proofs.indices.iter().flat_map(|&i| (i as u32).to_le_bytes()).collect();
    if let Some(pos) = bytes.windows(pattern.len()).position(|w| w == pattern.as_slice()) {
        for bit in 0..8 {
            let id = format!("C18.S.plonkv.shape.compressed.bytes.query-index-bit{bit}");
            ctx.guarded(&id.clone(), CMAL_FILES, |ctx| {
                let mut e = bytes.clone();
                e[pos] ^= 1 << bit;
                let (what, at) = outcome(|| CP::<G, C, 2>::from_bytes(e, &data.common).and_then(|d| data.verify_compressed(d)));
                ctx.add(
                    Ob::new(id.clone(), CMAL_FILES, format!("valid compressed encoding ({} bytes) with bit {bit} of the first query index flipped; from_bytes then verify_compressed", bytes.len()))
                        .sample(format!("decoding and verification do not panic (an edited encoding that still decodes to a proof the verifier accepts is a second encoding of a valid proof: the index list is redundant with the transcript); observed: {what}{}", if at.is_empty() { String::new() } else { format!(" at {at}") }))
                        .goal(A::Bool(what != "panic"))
                        .key(format!("compressed-path:from_bytes+verify_compressed:bytes:{}", if what == "panic" { "panic".to_string() } else { format!("index-bit:{what}") })),
                );
            });
        }
    }
}

const COMP_FILES: &[&str] = &[
    "plonky2/src/plonk/proof.rs::CompressedProofWithPublicInputs::verify",
    "plonky2/src/plonk/proof.rs::ProofWithPublicInputs::compress",
    "plonky2/src/plonk/circuit_data.rs::CircuitData::verify_compressed",
    "plonky2/src/plonk/validate_shape.rs::validate_proof_with_pis_shape",
];

/// The compressed verification path on a real (native, concrete) proof: the number of public
/// inputs is part of the statement. `hash_no_pad([a, 0]) == hash_no_pad([a]) == hash_no_pad([a, 0, 0])`
/// (overwrite-mode sponge without padding), so only the explicit count check rejects a dropped or
/// appended zero public input. Concrete structure: evaluated facts on the real end-to-end API.
fn compressed_shape(ctx: &mut Ctx) {
    if ctx.is_witness_run() {
        return;
    }
    use plonky2::plonk::circuit_data::CircuitConfig;
    use plonky2::plonk::config::PoseidonGoldilocksConfig as C;
    use plonky2_field::goldilocks_field::GoldilocksField as G;
    ctx.guarded("C03.S.plonkv.compressed", COMP_FILES, |ctx| {
        let mut b = plonky2::plonk::circuit_builder::CircuitBuilder::<G, 2>::new(CircuitConfig::standard_recursion_config());
        let x = b.add_virtual_target();
        let y = b.add_virtual_target();
        let z = b.mul(x, y);
        let t = b.sub(z, z);
        b.register_public_input(z);
        b.register_public_input(t);
        let data = b.build::<C>();
        let mut pw = PartialWitness::<G>::new();
        pw.set_target(x, G::from_canonical_u64(7)).unwrap();
        pw.set_target(y, G::ONE).unwrap();
        let proof = data.prove(pw).expect("honest proof");
        let honest_ok = data.verify(proof.clone()).is_ok();
        let comp = data.compress(proof.clone()).expect("compress");
        let comp_ok = data.verify_compressed(comp.clone()).is_ok();
        let mut goals = vec![A::Bool(honest_ok), A::Bool(comp_ok), A::Bool(proof.public_inputs == vec![G::from_canonical_u64(7), G::ZERO])];
        let mut accepted: Vec<String> = vec![];
        let variants: Vec<(&str, Vec<G>)> = vec![
            ("drop trailing zero", vec![G::from_canonical_u64(7)]),
            ("append zero", vec![G::from_canonical_u64(7), G::ZERO, G::ZERO]),
            ("pad to 8", { let mut v = vec![G::from_canonical_u64(7)]; v.resize(8, G::ZERO); v }),
            ("empty", vec![]),
        ];
        for (name, pis) in variants {
            let mut p = proof.clone();
            p.public_inputs = pis.clone();
            let plain_rejected = data.verify(p).is_err();
            let mut c = comp.clone();
            c.public_inputs = pis;
            // a panic is not a clean rejection either
            let comp_rejected = matches!(
                std::panic::catch_unwind(std::panic::AssertUnwindSafe(|| data.verify_compressed(c).is_err())),
                Ok(true)
            );
            if !plain_rejected {
                accepted.push(format!("verify: {name}"));
            }
            if !comp_rejected {
                accepted.push(format!("verify_compressed: {name}"));
            }
            goals.push(A::Bool(plain_rejected));
            goals.push(A::Bool(comp_rejected));
        }
        ctx.add(
            Ob::new("C03.S.plonkv.compressed.public-input-count", COMP_FILES, "one native proof (GoldilocksField, Poseidon config) of a 2-public-input circuit with public inputs [7, 0]; four public-input lists of a different length whose no-pad hash equals the original's; concrete structure")
                .sample(format!("verify and verify_compressed accept the honest proof and reject every public-input list of a different length; accepted: {accepted:?}"))
                .goals(goals)
                .key("compressed-verifier:public-input-count-unchecked"),
        );
    });
}

fn one<F: VF>(ctx: &mut Ctx, idp: &str, query: usize, th: bool) {
    if F::SYMBOLIC {
        crate::reset();
    }
    let (data, ins) = tiny_circuit::<F>();
    let cd = &data.common;
    let seed = 0xabcd_0000 + query as u64;
    let base: PBundle<F> = if F::SYMBOLIC { symbolic::<F>(&data, query, seed) } else { honest::<F>(&data, &ins) };
    let bounds = format!(
        "tiny circuit from the real builder ({} rows, {} wires, {} challenges, FRI rate_bits {}, cap_height {}, arities {:?}, 1 query at concrete index {}); every proof element a symbol over all field values; all challenges fixed to seeded constants",
        cd.degree(), cd.config.num_wires, cd.config.num_challenges, cd.config.fri_config.rate_bits, cd.config.fri_config.cap_height, cd.fri_params.reduction_arity_bits, query
    );
    let acc0 = run::<F>(&data, &base);
    ctx.add(
        Ob::new(format!("{idp}.accept-path"), FILES, bounds.clone())
            .sample("verify_with_challenges reaches Ok on the path where every ensure! comparison holds")
            .goal(A::Bool(matches!(acc0, A::Accept(true, _)))),
    );
    // the acceptance condition implies the vanishing identity for every challenge index
    {
        let o = &base.proof.openings;
        let vars = EvaluationVars { local_constants: &o.constants, local_wires: &o.wires, public_inputs_hash: &base.pih };
        let v = hk::eval_vanishing_poly::<F, 2>(
            cd, base.ch.plonk_zeta, vars, &o.plonk_zs, &o.plonk_zs_next, &[], &[], &o.partial_products, &o.plonk_sigmas,
            &base.ch.plonk_betas, &base.ch.plonk_gammas, &base.ch.plonk_alphas, &[],
        );
        let zn = base.ch.plonk_zeta.exp_power_of_2(cd.degree_bits());
        let zh = zn - Ext::<F>::ONE;
        for i in 0..cd.config.num_challenges {
            let chunk = &o.quotient_polys[i * cd.quotient_degree_factor..(i + 1) * cd.quotient_degree_factor];
            let mut t = Ext::<F>::ZERO;
            for c in chunk.iter().rev() {
                t = t * zn + *c;
            }
            ctx.add(
                Ob::new(format!("{idp}.identity.challenge{i}"), FILES, bounds.clone())
                    .sample(format!("Accept(proof)  ==>  vanishing_{i}(zeta) == Z_H(zeta) * sum_j t_{{{i},j}}(zeta) zeta^(n j)"))
                    .hyp(acc0.clone())
                    .goals(eq_ext::<F>(v[i], zh * t))
                    .injective()
                    .key("plonk-verifier:identity-not-checked-for-every-challenge"),
            );
        }
    }
    let delta = F::var("delta");
    let mut pos: Vec<PPos> = vec![];
    let sel = |n: usize| -> Vec<usize> {
        if th || n <= 3 {
            (0..n).collect()
        } else {
            vec![0, n / 2, n - 1]
        }
    };
    let o = &base.proof.openings;
    for l in 0..2 {
        for i in sel(o.constants.len()) {
            pos.push(PPos::Constants(i, l));
        }
        for i in sel(o.plonk_sigmas.len()) {
            pos.push(PPos::Sigmas(i, l));
        }
        for i in sel(o.wires.len()) {
            pos.push(PPos::Wires(i, l));
        }
        for i in 0..o.plonk_zs.len() {
            pos.push(PPos::Zs(i, l));
            pos.push(PPos::ZsNext(i, l));
        }
        for i in sel(o.partial_products.len()) {
            pos.push(PPos::PartialProducts(i, l));
        }
        for i in 0..o.quotient_polys.len() {
            pos.push(PPos::Quotient(i, l));
        }
    }
    let lde_bits = cd.degree_bits() + cd.config.fri_config.rate_bits;
    let qidx = base.ch.fri_challenges.fri_query_indices[0];
    let entry = qidx >> (lde_bits - cd.config.fri_config.cap_height);
    for lane in [0usize, 3] {
        pos.push(PPos::WiresCap(entry, lane));
        pos.push(PPos::ZsCap(entry, lane));
        pos.push(PPos::QuotientCap(entry, lane));
        pos.push(PPos::VerifierDataCap(entry, lane));
    }
    for p in pos {
        let b2 = perturb::<F>(&base, &p, delta);
        let acc1 = run::<F>(&data, &b2);
        ctx.add(
            Ob::new(format!("{idp}.pin.{p:?}").replace(' ', ""), FILES, bounds.clone())
                .sample(format!("Accept(proof) /\\ Accept(proof[{p:?} += delta])  ==>  delta == 0"))
                .assume("all challenges held fixed; proof-of-work bits = 0")
                .hyp(acc0.clone())
                .hyp(acc1)
                .goal(eq(delta, F::ZERO))
                .injective()
                .key(format!("plonk-verifier:unpinned:{}", format!("{p:?}").split('(').next().unwrap())),
        );
    }
    // public-input hash: the tiny circuit has a PublicInputGate row, so the hash enters the
    // vanishing identity; it is pinned only through that identity (not through FRI)
    // (the selector opening of the PublicInputGate is fixed to a concrete value in the symbolic
    // run, so that the gate's filter is a known non-zero constant and the query stays linear)
    let mut base_pi = base.clone();
    if F::SYMBOLIC {
        let (sel_idx, _) = hk::selectors_info_parts(&cd.selectors_info);
        for (g, gate) in cd.gates.iter().enumerate() {
            if gate.0.id().contains("PublicInputGate") {
                base_pi.proof.openings.constants[sel_idx[g]] = ext_of::<F>(chal::<F>(seed, 90), chal::<F>(seed, 91));
            }
        }
    }
    let base = base_pi;
    let acc0 = run::<F>(&data, &base);
    for k in 0..4 {
        let b2 = perturb::<F>(&base, &PPos::Pih(k), delta);
        let acc1 = run::<F>(&data, &b2);
        ctx.add(
            Ob::new(format!("{idp}.pin.Pih({k})"), FILES, bounds.clone())
                .sample(format!("Accept(proof, pih) /\\ Accept(proof, pih[{k}] += delta)  ==>  delta == 0   (given the PublicInputGate filter at zeta is non-zero)"))
                .assume("all challenges held fixed; generic zeta: the PublicInputGate's selector filter does not vanish at zeta (stated as hypothesis)")
                .hyp(acc0.clone())
                .hyp(acc1)
                .hyps(pi_filter_nonzero::<F>(cd, &base))
                .goal(eq(delta, F::ZERO))
                .injective()
                .key("plonk-verifier:unpinned:Pih"),
        );
    }
}

/// hypothesis: the filter of the PublicInputGate evaluated on the opened selector is non-zero
fn pi_filter_nonzero<F: VF>(cd: &plonky2::plonk::circuit_data::CommonCircuitData<F, 2>, b: &PBundle<F>) -> Vec<A> {
    let (sel_idx, groups) = hk::selectors_info_parts(&cd.selectors_info);
    let nsel = groups.len();
    let mut out = vec![];
    for (g, gate) in cd.gates.iter().enumerate() {
        if !gate.0.id().contains("PublicInputGate") {
            continue;
        }
        let s = b.proof.openings.constants[sel_idx[g]];
        let mut filter = Ext::<F>::ONE;
        for j in groups[sel_idx[g]].clone() {
            if j != g {
                filter *= Ext::<F>::from_canonical_usize(j) - s;
            }
        }
        if nsel > 1 {
            filter *= Ext::<F>::from_canonical_usize(hk::unused_selector()) - s;
        }
        // filter != 0 as an extension element: its norm a^2 - 7 b^2 is non-zero
        let a = filter.to_basefield_array();
        let norm = a[0] * a[0] - F::from_canonical_u64(7) * a[1] * a[1];
        out.push(crate::ctx::ne(norm, F::ZERO));
    }
    out
}

const SHAPE_FILES: &[&str] = &[
    "plonky2/src/plonk/validate_shape.rs::validate_proof_with_pis_shape",
    "plonky2/src/fri/validate_shape.rs::validate_fri_proof_shape",
];

/// Shape validation: the well-shaped proof passes; changing the length of any single vector
/// (remove last / duplicate last) is rejected. Concrete structure, so these are evaluated facts.
fn shape<F: VF>(ctx: &mut Ctx) {
    ctx.guarded("C03.S.plonkv.shape", SHAPE_FILES, |ctx| {
        if F::SYMBOLIC {
            crate::reset();
        }
        let (data, ins) = tiny_circuit::<F>();
        // natively (witness / replay runs) an honest proof, so that the verifier really gets as
        // far as it does on the accept path of the symbolic run
        let full = if F::SYMBOLIC { symbolic::<F>(&data, 5, 1) } else { honest::<F>(&data, &ins) };
        let base = full.proof.clone();
        // what `verify` does about shapes: validate_proof_with_pis_shape first, and (inside
        // verify_fri_proof, reached through verify_with_challenges) validate_fri_proof_shape and
        // the query-round count
        let check = |p: &Proof<F, F::Cfg, 2>, npi: usize| -> bool {
            let pwp = ProofWithPublicInputs { proof: p.clone(), public_inputs: vec![F::ZERO; npi] };
            if hk::validate_proof_with_pis_shape::<F, F::Cfg, 2>(&pwp, &data.common).is_err() {
                return false;
            }
            let mut b = full.clone();
            b.proof = p.clone();
            // a panic is not a rejection
            match std::panic::catch_unwind(std::panic::AssertUnwindSafe(|| run::<F>(&data, &b))) {
                Ok(a) => matches!(a, A::Accept(true, _)),
                Err(_) => true,
            }
        };
        let mut goals = vec![A::Bool(check(&base, 0))];
        let mut n = 0;
        let mut muts: Vec<(&str, Box<dyn Fn(&mut Proof<F, F::Cfg, 2>, bool)>)> = vec![];
        macro_rules! vecmut {
            ($name:expr, $($path:tt)+) => {
                muts.push(($name, Box::new(|p: &mut Proof<F, F::Cfg, 2>, grow: bool| {
                    let v = &mut p.$($path)+;
                    if grow { let x = v.last().cloned().unwrap(); v.push(x); } else { v.pop(); }
                })));
            };
        }
        vecmut!("openings.constants", openings.constants);
        vecmut!("openings.plonk_sigmas", openings.plonk_sigmas);
        vecmut!("openings.wires", openings.wires);
        vecmut!("openings.plonk_zs", openings.plonk_zs);
        vecmut!("openings.plonk_zs_next", openings.plonk_zs_next);
        vecmut!("openings.partial_products", openings.partial_products);
        vecmut!("openings.quotient_polys", openings.quotient_polys);
        vecmut!("wires_cap", wires_cap.0);
        vecmut!("plonk_zs_partial_products_cap", plonk_zs_partial_products_cap.0);
        vecmut!("quotient_polys_cap", quotient_polys_cap.0);
        vecmut!("fri.commit_phase_merkle_caps", opening_proof.commit_phase_merkle_caps);
        vecmut!("fri.commit_phase_merkle_caps[0]", opening_proof.commit_phase_merkle_caps[0].0);
        vecmut!("fri.query_round_proofs", opening_proof.query_round_proofs);
        vecmut!("fri.final_poly", opening_proof.final_poly.coeffs);
        vecmut!("fri.query[0].initial.evals_proofs", opening_proof.query_round_proofs[0].initial_trees_proof.evals_proofs);
        vecmut!("fri.query[0].initial.evals[1]", opening_proof.query_round_proofs[0].initial_trees_proof.evals_proofs[1].0);
        vecmut!("fri.query[0].initial.siblings[2]", opening_proof.query_round_proofs[0].initial_trees_proof.evals_proofs[2].1.siblings);
        vecmut!("fri.query[0].steps", opening_proof.query_round_proofs[0].steps);
        vecmut!("fri.query[0].steps[0].evals", opening_proof.query_round_proofs[0].steps[0].evals);
        vecmut!("fri.query[0].steps[0].siblings", opening_proof.query_round_proofs[0].steps[0].merkle_proof.siblings);
        let mut failed: Vec<String> = vec![];
        for (name, f) in &muts {
            for grow in [false, true] {
                let mut p = base.clone();
                f(&mut p, grow);
                n += 1;
                let rejected = !check(&p, 0);
                if !rejected {
                    failed.push(format!("{name}:{}", if grow { "duplicate-last" } else { "remove-last" }));
                }
                goals.push(A::Bool(rejected));
            }
        }
        goals.push(A::Bool(!check(&base, 1)));
        ctx.add(
            Ob::new("C03.S.plonkv.shape.single-length-changes", SHAPE_FILES, format!("tiny circuit; {n} single-vector length changes (remove last / duplicate last) + surplus public input; structure is concrete"))
                .sample(format!("validate_proof_with_pis_shape: Ok on the well-shaped proof, Err after each single length change; not rejected: {failed:?}"))
                .goals(goals)
                .key("shape-validation:accepts-wrong-length"),
        );
    });
}

fn symbolic_or_zero<F: VF>(data: &CircuitData<F, F::Cfg, 2>) -> Proof<F, F::Cfg, 2> {
    // contents are irrelevant for shape validation: use the symbolic constructor with concrete
    // zeros natively (F::var gives model values / pseudo-random values there)
    symbolic::<F>(data, 5, 1).proof
}

#[allow(dead_code)]
fn unused<F: VF>() -> Ext<F> {
    ext_of::<F>(F::ZERO, F::ZERO)
}
