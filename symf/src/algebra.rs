//! C15 (transforms and polynomial algebra) and C14 (generic extension fields, batch inversion,
//! exponentiation): the real generic field-crate code on symbolic inputs against the defining
//! identities. Sizes / degrees / lengths are concrete (enumerated), contents symbolic.
use plonky2_field::extension::quadratic::QuadraticExtension;
use plonky2_field::extension::quartic::QuarticExtension;
use plonky2_field::extension::quintic::QuinticExtension;
use plonky2_field::extension::{Extendable, FieldExtension, Frobenius, OEF};
use plonky2_field::fft::{fft_root_table, fft_with_options, ifft_with_options};
use plonky2_field::interpolation::{barycentric_weights, interpolant, interpolate, interpolate2};
use plonky2_field::polynomial::{PolynomialCoeffs, PolynomialValues};
use plonky2_field::types::Field;

use crate::ctx::{eq, Ctx, Ob, A, VF};

fn vars<F: VF>(p: &str, n: usize) -> Vec<F> {
    (0..n).map(|i| F::var(&format!("{p}{i}"))).collect()
}

fn masked<F: VF>(p: &str, n: usize, mask: usize) -> Vec<F> {
    (0..n).map(|i| if mask >> i & 1 == 1 { F::var(&format!("{p}{i}")) } else { F::ZERO }).collect()
}

fn eval_at<F: VF>(c: &[F], x: F) -> F {
    let mut acc = F::ZERO;
    for k in c.iter().rev() {
        acc = acc * x + *k;
    }
    acc
}

const FFT_FILES: &[&str] = &[
    "field/src/fft.rs::fft_with_options",
    "field/src/fft.rs::ifft_with_options",
    "field/src/fft.rs::fft_classic",
    "field/src/fft.rs::fft_classic_simd",
    "field/src/fft.rs::fft_root_table",
    "field/src/polynomial/mod.rs::PolynomialCoeffs::coset_fft_with_options",
    "field/src/polynomial/mod.rs::PolynomialValues::coset_ifft",
    "field/src/polynomial/mod.rs::PolynomialValues::lde",
    "util/src/lib.rs::reverse_index_bits_in_place",
];

fn fft_group<F: VF>(ctx: &mut Ctx) {
    let th = ctx.thorough();
    let max_lg = if th { 5 } else { 4 };
    for lg in 0..=max_lg {
        let n = 1usize << lg;
        let idp = format!("C15.S.algebra.fft.n{n}");
        ctx.guarded(&idp.clone(), FFT_FILES, |ctx| {
            if F::SYMBOLIC {
                crate::reset();
            }
            let w = F::primitive_root_of_unity(lg);
            let table = fft_root_table::<F>(n);
            for zf in [None, Some(1usize), Some(2), Some(3)] {
                let r = zf.unwrap_or(0);
                if r > lg {
                    continue;
                }
                let live = n >> r;
                let mut c = vars::<F>("c", live);
                c.resize(n, F::ZERO);
                for use_table in [false, true] {
                    let vals = fft_with_options(PolynomialCoeffs::new(c.clone()), zf, if use_table { Some(&table) } else { None }).values;
                    let mut goals = vec![A::Bool(vals.len() == n)];
                    for i in 0..n.min(vals.len()) {
                        goals.push(eq(vals[i], eval_at::<F>(&c, w.exp_u64(i as u64))));
                    }
                    ctx.add(
                        Ob::new(format!("{idp}.fft.zf{:?}.table{}", zf, use_table as u8).replace(['(', ')'], ""), FFT_FILES,
                            format!("n = {n}; coefficients symbolic ({live} live, zero tail as declared by zero_factor = {zf:?}); root table {}", if use_table { "supplied" } else { "computed" }))
                            .sample("fft_with_options(c)[i] == sum_j c_j w^(i j)  (direct evaluation on the subgroup)")
                            .goals(goals)
                            .key("fft:forward-differs-from-definition"),
                    );
                }
            }
            // inverse and coset variants
            let c = vars::<F>("c", n);
            let vals = fft_with_options(PolynomialCoeffs::new(c.clone()), None, None);
            let back = ifft_with_options(vals, None, None).coeffs;
            ctx.add(
                Ob::new(format!("{idp}.ifft-inverts"), FFT_FILES, format!("n = {n}; coefficients symbolic"))
                    .sample("ifft(fft(c)) == c")
                    .goal(A::Bool(back.len() == n))
                    .goals(back.iter().zip(&c).map(|(a, b)| eq(*a, *b)).collect())
                    .key("fft:inverse-does-not-invert"),
            );
            let v = vars::<F>("v", n);
            let co = ifft_with_options(PolynomialValues::new(v.clone()), None, Some(&table)).coeffs;
            let mut goals = vec![];
            for i in 0..n {
                goals.push(eq(eval_at::<F>(&co, w.exp_u64(i as u64)), v[i]));
            }
            ctx.add(
                Ob::new(format!("{idp}.ifft-interpolates"), FFT_FILES, format!("n = {n}; values symbolic; supplied root table"))
                    .sample("p = ifft(v): p(w^i) == v_i for every i")
                    .goals(goals)
                    .key("fft:inverse-does-not-interpolate"),
            );
            let s = F::var("shift");
            let cv = PolynomialCoeffs::new(c.clone()).coset_fft(s).values;
            let mut goals = vec![A::Bool(cv.len() == n)];
            for i in 0..n.min(cv.len()) {
                goals.push(eq(cv[i], eval_at::<F>(&c, s * w.exp_u64(i as u64))));
            }
            ctx.add(
                Ob::new(format!("{idp}.coset-fft"), FFT_FILES, format!("n = {n}; coefficients and shift symbolic"))
                    .sample("coset_fft(c, s)[i] == sum_j c_j (s w^i)^j")
                    .goals(goals)
                    .key("fft:coset-differs-from-definition"),
            );
            let cb = PolynomialValues::new(cv).coset_ifft(s).coeffs;
            ctx.add(
                Ob::new(format!("{idp}.coset-ifft-inverts"), FFT_FILES, format!("n = {n}; coefficients and shift symbolic, shift != 0"))
                    .sample("coset_ifft(coset_fft(c, s), s) == c")
                    .goal(A::Bool(cb.len() == n))
                    .goals(cb.iter().zip(&c).map(|(a, b)| eq(*a, *b)).collect())
                    .key("fft:coset-inverse-does-not-invert"),
            );
            if lg + 1 <= max_lg {
                // low-degree extension: same polynomial on the larger subgroup
                let big = PolynomialValues::new(v.clone()).lde(1).values;
                let w2 = F::primitive_root_of_unity(lg + 1);
                let mut goals = vec![A::Bool(big.len() == 2 * n)];
                for i in 0..(2 * n).min(big.len()) {
                    goals.push(eq(big[i], eval_at::<F>(&co, w2.exp_u64(i as u64))));
                }
                ctx.add(
                    Ob::new(format!("{idp}.lde"), FFT_FILES, format!("n = {n} -> {}; values symbolic", 2 * n))
                        .sample("lde(v, 1)[i] == p(w_2n^i) where p interpolates v on the size-n subgroup")
                        .goals(goals)
                        .key("fft:lde-differs"),
                );
            }
        });
    }
}

const POLY_FILES: &[&str] = &[
    "field/src/polynomial/mod.rs::<&PolynomialCoeffs as Mul>::mul",
    "field/src/polynomial/division.rs::PolynomialCoeffs::div_rem",
    "field/src/polynomial/division.rs::PolynomialCoeffs::div_rem_long_division",
    "field/src/polynomial/division.rs::PolynomialCoeffs::divide_by_linear",
    "field/src/polynomial/division.rs::PolynomialCoeffs::inv_mod_xn",
    "field/src/interpolation.rs::interpolant",
    "field/src/interpolation.rs::interpolate",
    "field/src/interpolation.rs::barycentric_weights",
    "field/src/interpolation.rs::interpolate2",
];

fn school<F: VF>(a: &[F], b: &[F]) -> Vec<F> {
    if a.is_empty() || b.is_empty() {
        return vec![];
    }
    let mut r = vec![F::ZERO; a.len() + b.len() - 1];
    for (i, x) in a.iter().enumerate() {
        for (j, y) in b.iter().enumerate() {
            r[i + j] += *x * *y;
        }
    }
    r
}

fn poly_group<F: VF>(ctx: &mut Ctx) {
    let th = ctx.thorough();
    let maxl = if th { 6 } else { 4 };
    for la in 1..=maxl {
        for lb in 1..=maxl {
            let idp = format!("C15.S.algebra.poly.mul.{la}x{lb}");
            ctx.guarded(&idp.clone(), POLY_FILES, |ctx| {
                if F::SYMBOLIC {
                    crate::reset();
                }
                let (a, b) = (vars::<F>("a", la), vars::<F>("b", lb));
                let p = &PolynomialCoeffs::new(a.clone()) * &PolynomialCoeffs::new(b.clone());
                let want = school::<F>(&a, &b);
                let mut goals = vec![A::Bool(p.coeffs.len() >= want.len())];
                for i in 0..p.coeffs.len() {
                    goals.push(eq(p.coeffs[i], if i < want.len() { want[i] } else { F::ZERO }));
                }
                ctx.add(
                    Ob::new(idp.clone(), POLY_FILES, format!("operand lengths {la} and {lb}; coefficients symbolic"))
                        .sample("(a * b) (FFT based) == schoolbook product, higher coefficients zero")
                        .goals(goals)
                        .key("poly:mul-differs"),
                );
            });
        }
    }
    // division with remainder (generic leading coefficients: zero tests taken as non-zero)
    let maxd = if th { 5 } else { 4 };
    for da in 0..=maxd {
        for db in 0..=da.min(3) {
            for long in [false, true] {
                let idp = format!("C15.S.algebra.poly.{}.{da}by{db}", if long { "long-division" } else { "div-rem" });
                ctx.guarded(&idp.clone(), POLY_FILES, |ctx| {
                    if F::SYMBOLIC {
                        crate::reset();
                    }
                    let (a, b) = (vars::<F>("a", da + 1), vars::<F>("b", db + 1));
                    let (pa, pb) = (PolynomialCoeffs::new(a.clone()), PolynomialCoeffs::new(b.clone()));
                    let (q, r) = F::assume_ne(|| if long { pa.div_rem_long_division(&pb) } else { pa.div_rem(&pb) });
                    let mut qb = school::<F>(&q.coeffs, &b);
                    let m = qb.len().max(r.coeffs.len()).max(a.len());
                    qb.resize(m, F::ZERO);
                    let mut goals = vec![];
                    for i in 0..m {
                        let ri = if i < r.coeffs.len() { r.coeffs[i] } else { F::ZERO };
                        let ai = if i < a.len() { a[i] } else { F::ZERO };
                        goals.push(eq(qb[i] + ri, ai));
                    }
                    // deg r < deg b: coefficients of r from index db upwards vanish
                    for i in db..r.coeffs.len() {
                        goals.push(eq(r.coeffs[i], F::ZERO));
                    }
                    ctx.add(
                        Ob::new(idp.clone(), POLY_FILES, format!("deg a = {da}, deg b = {db}; coefficients symbolic, leading coefficients (and every tested coefficient) non-zero"))
                            .sample("(q, r) = div_rem(a, b):  a == q b + r  and  deg r < deg b")
                            .goals(goals)
                            .key("poly:div-rem-wrong"),
                    );
                });
            }
        }
    }
    // support patterns: every coefficient is either a fresh symbol or the concrete zero, so that
    // trailing / leading / interior zero coefficients (sparse and untrimmed operands) are covered;
    // one obligation per (len a, len b, algorithm) carries all patterns.
    let (sla, slb) = if th { (7, 4) } else { (5, 3) };
    for la in 1..=sla {
        for lb in 1..=slb.min(la) {
            for long in [false, true] {
                let alg = if long { "long-division" } else { "div-rem" };
                let idp = format!("C15.S.algebra.poly.{alg}.support.{la}by{lb}");
                ctx.guarded(&idp.clone(), POLY_FILES, |ctx| {
                    if F::SYMBOLIC {
                        crate::reset();
                    }
                    let mut goals = vec![];
                    let mut panics = vec![];
                    for ma in 0..(1usize << la) {
                        for mb in 1..(1usize << lb) {
                            let (a, b) = (masked::<F>("a", la, ma), masked::<F>("b", lb, mb));
                            let (pa, pb) = (PolynomialCoeffs::new(a.clone()), PolynomialCoeffs::new(b.clone()));
                            let res = std::panic::catch_unwind(std::panic::AssertUnwindSafe(|| {
                                F::assume_ne(|| if long { pa.div_rem_long_division(&pb) } else { pa.div_rem(&pb) })
                            }));
                            let (q, r) = match res {
                                Ok(x) => x,
                                Err(_) => {
                                    panics.push(format!("a~{ma:#b} b~{mb:#b}"));
                                    goals.push(A::Bool(false));
                                    continue;
                                }
                            };
                            let mut qb = school::<F>(&q.coeffs, &b);
                            let m = qb.len().max(r.coeffs.len()).max(a.len());
                            qb.resize(m, F::ZERO);
                            for i in 0..m {
                                let ri = if i < r.coeffs.len() { r.coeffs[i] } else { F::ZERO };
                                let ai = if i < a.len() { a[i] } else { F::ZERO };
                                goals.push(eq(qb[i] + ri, ai));
                            }
                            let db = usize::BITS as usize - 1 - mb.leading_zeros() as usize;
                            for i in db..r.coeffs.len() {
                                goals.push(eq(r.coeffs[i], F::ZERO));
                            }
                        }
                    }
                    ctx.add(
                        Ob::new(idp.clone(), POLY_FILES, format!("operand lengths {la} and {lb}; every support pattern (each coefficient a symbol or the concrete zero, b not all zero): {} patterns; symbols generic (tested values non-zero){}", (1usize << la) * ((1usize << lb) - 1), if panics.is_empty() { String::new() } else { format!("; PANICS at patterns {}", panics.join(", ")) }))
                            .sample("(q, r) = div_rem(a, b):  a == q b + r  and  deg r < deg b, and no panic, for sparse / untrimmed operands")
                            .goals(goals)
                            .key(format!("poly:{alg}-wrong-on-sparse-operands")),
                    );
                });
            }
        }
    }
    // inverse modulo X^n on sparse operands
    for l in 1..=(if th { 6 } else { 4 }) {
        for n in 1..=(if th { 9 } else { 6 }) {
            let idp = format!("C15.S.algebra.poly.inv-mod-xn.support.{l}mod{n}");
            ctx.guarded(&idp.clone(), POLY_FILES, |ctx| {
                if F::SYMBOLIC {
                    crate::reset();
                }
                let mut goals = vec![];
                let mut panics = vec![];
                for m in (1..(1usize << l)).step_by(2) {
                    let a = masked::<F>("a", l, m);
                    let pa = PolynomialCoeffs::new(a.clone());
                    let res = std::panic::catch_unwind(std::panic::AssertUnwindSafe(|| F::assume_ne(|| pa.inv_mod_xn(n))));
                    let inv = match res {
                        Ok(x) => x,
                        Err(_) => {
                            panics.push(format!("a~{m:#b}"));
                            goals.push(A::Bool(false));
                            continue;
                        }
                    };
                    let prod = school::<F>(&a, &inv.coeffs);
                    for i in 0..n {
                        let pi = if i < prod.len() { prod[i] } else { F::ZERO };
                        goals.push(eq(pi, if i == 0 { F::ONE } else { F::ZERO }));
                    }
                }
                ctx.add(
                    Ob::new(idp.clone(), POLY_FILES, format!("operand length {l}, modulus X^{n}; every support pattern with a non-zero constant term; symbols generic{}", if panics.is_empty() { String::new() } else { format!("; PANICS at patterns {}", panics.join(", ")) }))
                        .sample("a * inv_mod_xn(a, n) == 1 mod X^n, and no panic")
                        .goals(goals)
                        .key("poly:inv-mod-xn-wrong-on-sparse-operands"),
                );
            });
        }
    }
    // multiplication on sparse operands
    for la in 1..=3usize {
        for lb in 1..=3usize {
            let idp = format!("C15.S.algebra.poly.mul.support.{la}x{lb}");
            ctx.guarded(&idp.clone(), POLY_FILES, |ctx| {
                if F::SYMBOLIC {
                    crate::reset();
                }
                let mut goals = vec![];
                for ma in 0..(1usize << la) {
                    for mb in 0..(1usize << lb) {
                        let (a, b) = (masked::<F>("a", la, ma), masked::<F>("b", lb, mb));
                        let p = &PolynomialCoeffs::new(a.clone()) * &PolynomialCoeffs::new(b.clone());
                        let want = school::<F>(&a, &b);
                        for i in 0..p.coeffs.len().max(want.len()) {
                            let pi = if i < p.coeffs.len() { p.coeffs[i] } else { F::ZERO };
                            goals.push(eq(pi, if i < want.len() { want[i] } else { F::ZERO }));
                        }
                    }
                }
                ctx.add(
                    Ob::new(idp.clone(), POLY_FILES, format!("operand lengths {la} and {lb}; every support pattern incl. the zero polynomial"))
                        .sample("(a * b) == schoolbook product for sparse / zero operands")
                        .goals(goals)
                        .key("poly:mul-differs-on-sparse-operands"),
                );
            });
        }
    }
    for d in 1..=maxd {
        let idp = format!("C15.S.algebra.poly.divide-by-linear.{d}");
        ctx.guarded(&idp.clone(), POLY_FILES, |ctx| {
            if F::SYMBOLIC {
                crate::reset();
            }
            let a = vars::<F>("a", d + 1);
            let z = F::var("z");
            let q = PolynomialCoeffs::new(a.clone()).divide_by_linear(z).coeffs;
            // q(X) (X - z) + a(z) == a(X)
            let prod = school::<F>(&q, &[-z, F::ONE]);
            let az = eval_at::<F>(&a, z);
            let mut goals = vec![A::Bool(q.len() == d)];
            for i in 0..=d {
                let pi = if i < prod.len() { prod[i] } else { F::ZERO };
                goals.push(eq(pi + if i == 0 { az } else { F::ZERO }, a[i]));
            }
            ctx.add(
                Ob::new(idp.clone(), POLY_FILES, format!("degree {d}; coefficients and the point symbolic"))
                    .sample("divide_by_linear(a, z) * (X - z) + a(z) == a")
                    .goals(goals)
                    .key("poly:divide-by-linear-wrong"),
            );
        });
    }
    // interpolation: concrete distinct points, symbolic values and evaluation point
    for n in 1..=(if th { 6 } else { 4 }) {
        let idp = format!("C15.S.algebra.poly.interpolate.{n}");
        ctx.guarded(&idp.clone(), POLY_FILES, |ctx| {
            if F::SYMBOLIC {
                crate::reset();
            }
            let xs: Vec<F> = (0..n).map(|i| F::from_canonical_u64(3 + 7 * i as u64 * i as u64)).collect();
            let ys = vars::<F>("y", n);
            let pts: Vec<(F, F)> = xs.iter().copied().zip(ys.iter().copied()).collect();
            let p = F::assume_ne(|| interpolant(&pts));
            let mut goals = vec![];
            for i in 0..n {
                goals.push(eq(eval_at::<F>(&p.coeffs, xs[i]), ys[i]));
            }
            for i in n..p.coeffs.len() {
                goals.push(eq(p.coeffs[i], F::ZERO));
            }
            let x = F::var("x");
            let w = barycentric_weights(&pts);
            let v = F::assume_ne(|| interpolate(&pts, x, &w));
            goals.push(eq(v, eval_at::<F>(&p.coeffs, x)));
            if n == 2 {
                goals.push(eq(F::assume_ne(|| interpolate2([pts[0], pts[1]], x)), eval_at::<F>(&p.coeffs, x)));
            }
            ctx.add(
                Ob::new(idp.clone(), POLY_FILES, format!("{n} concrete distinct points, symbolic values and evaluation point (x different from every point)"))
                    .sample("interpolant(points)(x_i) == y_i, degree < n; interpolate(points, x, weights) == interpolant(points)(x)")
                    .goals(goals)
                    .key("poly:interpolation-wrong"),
            );
        });
    }
}

// ---------------------------------------------------------------------------------------------
// C14: generic extension fields

const EXT_FILES: &[&str] = &[
    "field/src/extension/quadratic.rs::QuadraticExtension",
    "field/src/extension/quartic.rs::QuarticExtension",
    "field/src/extension/quintic.rs::QuinticExtension",
    "field/src/extension/mod.rs::Frobenius::repeated_frobenius",
    "field/src/types.rs::Field::batch_multiplicative_inverse",
    "field/src/types.rs::Field::exp_u64",
];

fn ext_group<F, E, const D: usize>(ctx: &mut Ctx, name: &str)
where
    F: VF + Extendable<D, Extension = E>,
    E: Field + OEF<D, BaseField = F> + Frobenius<D> + FieldExtension<D, BaseField = F>,
{
    let idp = format!("C14.S.algebra.ext{D}");
    ctx.guarded(&idp.clone(), EXT_FILES, |ctx| {
        if F::SYMBOLIC {
            crate::reset();
        }
        let mk = |p: &str| -> (E, [F; D]) {
            let a: [F; D] = core::array::from_fn(|i| F::var(&format!("{p}{i}")));
            (E::from_basefield_array(a), a)
        };
        let (x, xa) = mk("x");
        let (y, ya) = mk("y");
        let w = <E as OEF<D>>::W;
        // schoolbook product modulo X^D - W
        let mut want = [F::ZERO; D];
        for i in 0..D {
            for j in 0..D {
                let t = xa[i] * ya[j];
                if i + j < D {
                    want[i + j] += t;
                } else {
                    want[i + j - D] += w * t;
                }
            }
        }
        let eqv = |a: E, b: [F; D]| -> Vec<A> { a.to_basefield_array().iter().zip(b.iter()).map(|(p, q)| eq(*p, *q)).collect() };
        let eqe = |a: E, b: E| -> Vec<A> { eqv(a, b.to_basefield_array()) };
        let bounds = format!("{name}<F> (generic implementation, W = {:?}); all coefficients symbolic", w);
        ctx.add(Ob::new(format!("{idp}.mul"), EXT_FILES, bounds.clone()).sample("x * y == schoolbook product modulo X^D - W").goals(eqv(x * y, want)).key(format!("ext{D}:mul")));
        ctx.add(Ob::new(format!("{idp}.square"), EXT_FILES, bounds.clone()).sample("x.square() == x * x").goals(eqe(x.square(), x * x)).key(format!("ext{D}:square")));
        let mut s = [F::ZERO; D];
        let c = F::var("c");
        for i in 0..D {
            s[i] = xa[i] * c;
        }
        ctx.add(Ob::new(format!("{idp}.scalar-mul"), EXT_FILES, bounds.clone()).sample("x.scalar_mul(c) == (c x_i)_i; x + y, x - y, -x coefficientwise").goals(eqv(x.scalar_mul(c), s))
            .goals(eqv(x + y, core::array::from_fn(|i| xa[i] + ya[i])))
            .goals(eqv(x - y, core::array::from_fn(|i| xa[i] - ya[i])))
            .goals(eqv(-x, core::array::from_fn(|i| -xa[i])))
            .key(format!("ext{D}:linear")));
        // Frobenius is a ring homomorphism fixing the base field, of order D
        ctx.add(
            Ob::new(format!("{idp}.frobenius"), EXT_FILES, bounds.clone())
                .sample("phi(x y) == phi(x) phi(y); phi(x + y) == phi(x) + phi(y); phi^D == id; phi(embed(c)) == embed(c)")
                .goals(eqe((x * y).frobenius(), x.frobenius() * y.frobenius()))
                .goals(eqe((x + y).frobenius(), x.frobenius() + y.frobenius()))
                .goals(eqe(x.repeated_frobenius(D), x))
                .goals(eqe({ let mut t = x; for _ in 0..D { t = t.frobenius(); } t }, x))
                .goals(eqe(E::from_basefield(c).frobenius(), E::from_basefield(c)))
                .key(format!("ext{D}:frobenius")),
        );
        let inv = F::assume_ne(|| x.inverse());
        ctx.add(
            Ob::new(format!("{idp}.inverse"), EXT_FILES, format!("{bounds}; x != 0 (norm non-zero)"))
                .sample("x * x.inverse() == 1 (inverse via the Frobenius norm)")
                .goals(eqe(x * inv, E::ONE))
                .key(format!("ext{D}:inverse")),
        );
        let q = F::assume_ne(|| x / y);
        ctx.add(Ob::new(format!("{idp}.div"), EXT_FILES, format!("{bounds}; y != 0")).sample("(x / y) * y == x").goals(eqe(q * y, x)).key(format!("ext{D}:div")));
    });
}

fn field_group<F: VF>(ctx: &mut Ctx) {
    let th = ctx.thorough();
    for n in 0..=(if th { 13 } else { 9 }) {
        let idp = format!("C14.S.algebra.batch-inverse.{n}");
        ctx.guarded(&idp.clone(), EXT_FILES, |ctx| {
            if F::SYMBOLIC {
                crate::reset();
            }
            let x = vars::<F>("x", n);
            let inv = F::assume_ne(|| F::batch_multiplicative_inverse(&x));
            let mut goals = vec![A::Bool(inv.len() == n)];
            for i in 0..n.min(inv.len()) {
                goals.push(eq(inv[i] * x[i], F::ONE));
            }
            ctx.add(
                Ob::new(idp.clone(), EXT_FILES, format!("length {n}; all elements symbolic and non-zero"))
                    .sample("batch_multiplicative_inverse(x)[i] * x[i] == 1 (Montgomery trick with four interleaved chains)")
                    .goals(goals)
                    .key("field:batch-inverse"),
            );
        });
    }
    ctx.guarded("C14.S.algebra.exp", EXT_FILES, |ctx| {
        if F::SYMBOLIC {
            crate::reset();
        }
        let x = F::var("x");
        let mut goals = vec![];
        for e in [0u64, 1, 2, 3, 5, 7, 8, 12, 21] {
            let mut want = F::ONE;
            for _ in 0..e {
                want *= x;
            }
            goals.push(eq(x.exp_u64(e), want));
        }
        let mut sq = x;
        for k in 0..4 {
            goals.push(eq(x.exp_power_of_2(k), sq));
            sq = sq * sq;
        }
        let pw: Vec<F> = x.powers().take(5).collect();
        let mut acc = F::ONE;
        for p in pw {
            goals.push(eq(p, acc));
            acc *= x;
        }
        goals.push(eq(x.double(), x + x));
        goals.push(eq(x.triple(), x + x + x));
        goals.push(eq(x.cube(), x * x * x));
        goals.push(eq(x.multiply_accumulate(F::var("y"), F::var("z")), x + F::var("y") * F::var("z")));
        ctx.add(
            Ob::new("C14.S.algebra.exp.small-exponents", EXT_FILES, "exponents {0,1,2,3,5,7,8,12,21}, power_of_2 logs 0..3; base symbolic")
                .sample("exp_u64(x, e) == x^e by repeated multiplication; exp_power_of_2; powers(); double/triple/cube; multiply_accumulate")
                .goals(goals)
                .key("field:exp"),
        );
    });
}

pub fn family<F>(ctx: &mut Ctx)
where
    F: VF
        + Extendable<2, Extension = QuadraticExtension<F>>
        + Extendable<4, Extension = QuarticExtension<F>>
        + Extendable<5, Extension = QuinticExtension<F>>,
{
    fft_group::<F>(ctx);
    poly_group::<F>(ctx);
    ext_group::<F, QuadraticExtension<F>, 2>(ctx, "QuadraticExtension");
    ext_group::<F, QuarticExtension<F>, 4>(ctx, "QuarticExtension");
    ext_group::<F, QuinticExtension<F>, 5>(ctx, "QuinticExtension");
    field_group::<F>(ctx);
}
