//! Algebraic search for a counterexample candidate of a "hypotheses ==> all perturbations zero"
//! obligation when the SMT solvers cannot construct one (they are poor at solving polynomial
//! equations modulo a 64-bit prime, e.g. the quadratic left over when per-bit booleanity
//! constraints are folded into one sum).
//!
//! Inputs are the obligation's polynomials after the encoder's preprocessing. Non-perturbation
//! symbols get pseudo-random values; equations linear in a perturbation variable are solved by
//! substitution; what remains is made univariate (other free perturbations fixed) and solved by
//! gcd + root finding over GF(p) (Cantor-Zassenhaus). The result is only a *candidate*: the
//! driver replays it natively against the real code, and only a reproduction is reported.
use std::collections::{BTreeSet, HashMap};

use crate::poly::{invm, powm, Mono, Poly};
use crate::smt::{PAtom, Prepared};
use crate::{node_of, Node, P};

fn addm(a: u64, b: u64) -> u64 {
    ((a as u128 + b as u128) % P as u128) as u64
}
fn subm(a: u64, b: u64) -> u64 {
    ((a as u128 + P as u128 - b as u128) % P as u128) as u64
}
fn mulm(a: u64, b: u64) -> u64 {
    ((a as u128 * b as u128) % P as u128) as u64
}

struct Rng(u64);
impl Rng {
    fn next(&mut self) -> u64 {
        self.0 ^= self.0 << 13;
        self.0 ^= self.0 >> 7;
        self.0 ^= self.0 << 17;
        self.0.wrapping_mul(0x2545_F491_4F6C_DD1D) % P
    }
}

fn eval(p: &Poly, vals: &HashMap<u32, u64>) -> Option<u64> {
    let mut acc = 0u64;
    for (m, c) in &p.t {
        let mut t = *c;
        for (a, e) in m {
            t = mulm(t, powm(*vals.get(a)?, *e as u64));
        }
        acc = addm(acc, t);
    }
    Some(acc)
}

/// substitute known values, keep the atoms in `unknown` symbolic
fn partial(p: &Poly, vals: &HashMap<u32, u64>, unknown: &BTreeSet<u32>) -> Poly {
    let mut out = Poly::zero();
    for (m, c) in &p.t {
        let mut coeff = *c;
        let mut rest: Mono = vec![];
        for (a, e) in m {
            if unknown.contains(a) {
                rest.push((*a, *e));
            } else {
                coeff = mulm(coeff, powm(vals[a], *e as u64));
            }
        }
        out = out.add(&Poly { t: [(rest, coeff)].into_iter().collect() });
    }
    out
}

fn subst(p: &Poly, v: u32, r: &Poly) -> Poly {
    let mut out = Poly::zero();
    for (m, c) in &p.t {
        match m.iter().position(|(x, _)| *x == v) {
            None => out = out.add(&Poly { t: [(m.clone(), *c)].into_iter().collect() }),
            Some(pos) => {
                let e = m[pos].1;
                let mut rest = m.clone();
                rest.remove(pos);
                out = out.add(&Poly { t: [(rest, *c)].into_iter().collect() }.mul(&r.pow(e)));
            }
        }
    }
    out
}

fn vars_of(p: &Poly) -> BTreeSet<u32> {
    let mut s = BTreeSet::new();
    p.atoms(&mut s);
    s
}

// ---- dense univariate polynomials over GF(p), low degree first
type U = Vec<u64>;
fn trim(mut a: U) -> U {
    while a.last() == Some(&0) {
        a.pop();
    }
    a
}
fn umul(a: &U, b: &U) -> U {
    if a.is_empty() || b.is_empty() {
        return vec![];
    }
    let mut r = vec![0u64; a.len() + b.len() - 1];
    for (i, x) in a.iter().enumerate() {
        for (j, y) in b.iter().enumerate() {
            r[i + j] = addm(r[i + j], mulm(*x, *y));
        }
    }
    trim(r)
}
fn urem(a: &U, b: &U) -> U {
    let mut r = a.clone();
    let lb = invm(*b.last().unwrap());
    while r.len() >= b.len() && !r.is_empty() {
        let k = r.len() - b.len();
        let q = mulm(*r.last().unwrap(), lb);
        for (i, y) in b.iter().enumerate() {
            r[k + i] = subm(r[k + i], mulm(q, *y));
        }
        r = trim(r);
    }
    r
}
fn ugcd(a: &U, b: &U) -> U {
    let (mut a, mut b) = (trim(a.clone()), trim(b.clone()));
    while !b.is_empty() {
        let r = urem(&a, &b);
        a = b;
        b = r;
    }
    if let Some(l) = a.last().copied() {
        let li = invm(l);
        a.iter_mut().for_each(|x| *x = mulm(*x, li));
    }
    a
}
fn upowmod(base: &U, mut e: u64, m: &U) -> U {
    let mut r: U = vec![1];
    let mut b = urem(base, m);
    while e > 0 {
        if e & 1 == 1 {
            r = urem(&umul(&r, &b), m);
        }
        b = urem(&umul(&b, &b), m);
        e >>= 1;
    }
    r
}
/// all roots of a univariate polynomial over GF(p) (small degree)
fn roots(f: &U, rng: &mut Rng) -> Vec<u64> {
    let f = trim(f.clone());
    if f.len() <= 1 {
        return vec![];
    }
    // product of the distinct linear factors: gcd(f, x^p - x)
    let xp = upowmod(&vec![0, 1], P, &f);
    let mut d = xp;
    if d.len() < 2 {
        d.resize(2, 0);
    }
    d[1] = subm(d[1], 1);
    let g = ugcd(&f, &trim(d));
    let mut out = vec![];
    let mut stack = vec![g];
    let mut guard = 0;
    while let Some(h) = stack.pop() {
        guard += 1;
        if guard > 200 {
            break;
        }
        if h.len() <= 1 {
            continue;
        }
        if h.len() == 2 {
            out.push(mulm(subm(0, h[0]), invm(h[1])));
            continue;
        }
        // split with gcd(h, (x + a)^((p-1)/2) - 1)
        let a = rng.next();
        let mut t = upowmod(&vec![a, 1], (P - 1) / 2, &h);
        if t.is_empty() {
            t = vec![0];
        }
        t[0] = subm(t[0], 1);
        let s = ugcd(&h, &trim(t));
        if s.len() <= 1 || s.len() == h.len() {
            stack.push(h);
            continue;
        }
        // h / s
        let mut q = vec![0u64; h.len() - s.len() + 1];
        let mut r = h.clone();
        let ls = invm(*s.last().unwrap());
        while r.len() >= s.len() && !r.is_empty() {
            let k = r.len() - s.len();
            let c = mulm(*r.last().unwrap(), ls);
            q[k] = c;
            for (i, y) in s.iter().enumerate() {
                r[k + i] = subm(r[k + i], mulm(c, *y));
            }
            r = trim(r);
        }
        stack.push(s);
        stack.push(trim(q));
    }
    out
}

fn to_univariate(p: &Poly, v: u32) -> Option<U> {
    let mut u: U = vec![];
    for (m, c) in &p.t {
        let e = match m.len() {
            0 => 0usize,
            1 if m[0].0 == v => m[0].1 as usize,
            _ => return None,
        };
        if u.len() <= e {
            u.resize(e + 1, 0);
        }
        u[e] = addm(u[e], *c);
    }
    Some(trim(u))
}

fn is_delta(atom: u32) -> bool {
    matches!(node_of(atom), Node::Var(ref s) if s.starts_with("delta"))
}

/// Returns atom id -> value for a candidate counterexample (hypotheses hold, denominators
/// non-zero, some goal atom false), or None.
pub fn search(prep: &Prepared, seed: u64, tries: usize) -> Option<HashMap<u32, u64>> {
    let mut all: BTreeSet<u32> = BTreeSet::new();
    let mut polys: Vec<&Poly> = vec![];
    for a in prep.hyps.iter().chain(prep.goals.iter()) {
        match a {
            PAtom::Eq(p) | PAtom::Ne(p) => polys.push(p),
            PAtom::AnyNe(v) | PAtom::AllEq(v) | PAtom::AnyEq(v) => polys.extend(v.iter()),
            PAtom::False => {}
        }
    }
    polys.extend(prep.dens.iter());
    for p in &polys {
        p.atoms(&mut all);
    }
    if all.iter().any(|a| matches!(node_of(*a), Node::Perm(..))) {
        return None; // hash symbols: a numeric model would not be consistent with the real hash
    }
    let unknown: BTreeSet<u32> = all.iter().copied().filter(|a| is_delta(*a)).collect();
    if unknown.is_empty() {
        return None;
    }
    let mut rng = Rng(seed | 1);
    'attempt: for attempt in 0..tries {
        let mut vals: HashMap<u32, u64> = HashMap::new();
        for a in &all {
            if !unknown.contains(a) {
                vals.insert(*a, rng.next());
            }
        }
        // equations over the unknowns
        let mut eqs: Vec<Poly> = vec![];
        for h in &prep.hyps {
            match h {
                PAtom::Eq(p) => eqs.push(partial(p, &vals, &unknown)),
                PAtom::AllEq(ps) => eqs.extend(ps.iter().map(|p| partial(p, &vals, &unknown))),
                PAtom::AnyEq(ps) if !ps.is_empty() => {
                    let k = (rng.next() as usize) % ps.len();
                    eqs.push(partial(&ps[k], &vals, &unknown));
                }
                PAtom::False => return None,
                _ => {}
            }
        }
        // solve equations that are linear in some variable with a constant coefficient
        let mut solved: Vec<(u32, Poly)> = vec![];
        loop {
            eqs.retain(|e| !e.is_zero());
            if eqs.iter().any(|e| e.as_constant().is_some()) {
                continue 'attempt; // contradiction for these input values
            }
            let mut found: Option<(usize, u32, Poly)> = None;
            'scan: for (i, e) in eqs.iter().enumerate() {
                for v in vars_of(e) {
                    let key: Mono = vec![(v, 1)];
                    if let Some(c) = e.t.get(&key).copied() {
                        let mut rest = e.clone();
                        rest.t.remove(&key);
                        if !vars_of(&rest).contains(&v) {
                            found = Some((i, v, rest.scale(invm(c)).neg()));
                            break 'scan;
                        }
                    }
                }
            }
            match found {
                None => break,
                Some((i, v, r)) => {
                    eqs.remove(i);
                    for e in eqs.iter_mut() {
                        *e = subst(e, v, &r);
                    }
                    for (_, s) in solved.iter_mut() {
                        *s = subst(s, v, &r);
                    }
                    solved.push((v, r));
                }
            }
        }
        // remaining unknowns
        let mut rem: BTreeSet<u32> = BTreeSet::new();
        for e in &eqs {
            rem.extend(vars_of(e));
        }
        for (_, s) in &solved {
            rem.extend(vars_of(s));
        }
        for u in &unknown {
            if !solved.iter().any(|(v, _)| v == u) {
                rem.insert(*u);
            }
        }
        let rem: Vec<u32> = rem.into_iter().collect();
        let mut uvals: HashMap<u32, u64> = HashMap::new();
        if !rem.is_empty() {
            // keep one variable symbolic, fix the others (zero first, random later)
            let keep = rem[attempt % rem.len()];
            for r in &rem {
                if *r != keep {
                    uvals.insert(*r, if attempt < rem.len() { 0 } else { rng.next() });
                }
            }
            let others: BTreeSet<u32> = [keep].into_iter().collect();
            let mut g: Option<U> = None;
            for e in &eqs {
                let pe = partial(e, &uvals, &others);
                if pe.is_zero() {
                    continue;
                }
                let u = match to_univariate(&pe, keep) {
                    Some(u) => u,
                    None => continue 'attempt,
                };
                g = Some(match g {
                    None => u,
                    Some(h) => ugcd(&h, &u),
                });
            }
            let cands: Vec<u64> = match g {
                None => vec![rng.next(), 1],
                Some(h) if h.len() <= 1 => continue 'attempt,
                Some(h) => {
                    let mut r = roots(&h, &mut rng);
                    r.sort_by_key(|x| (*x == 0) as u8); // prefer non-zero roots
                    r
                }
            };
            if cands.is_empty() {
                continue 'attempt;
            }
            for cand in cands {
                let mut uv = uvals.clone();
                uv.insert(keep, cand);
                if let Some(m) = finish(prep, &vals, &uv, &solved) {
                    return Some(m);
                }
            }
            continue 'attempt;
        }
        if let Some(m) = finish(prep, &vals, &uvals, &solved) {
            return Some(m);
        }
    }
    None
}

fn finish(prep: &Prepared, vals: &HashMap<u32, u64>, uvals: &HashMap<u32, u64>, solved: &[(u32, Poly)]) -> Option<HashMap<u32, u64>> {
    let mut m = vals.clone();
    for (k, v) in uvals {
        m.insert(*k, *v);
    }
    for (v, r) in solved {
        let x = eval(r, &m)?;
        m.insert(*v, x);
    }
    let z = |p: &Poly| eval(p, &m).map(|x| x == 0);
    for h in &prep.hyps {
        let ok = match h {
            PAtom::Eq(p) => z(p)?,
            PAtom::Ne(p) => !z(p)?,
            PAtom::AllEq(ps) => ps.iter().all(|p| z(p) == Some(true)),
            PAtom::AnyEq(ps) => ps.iter().any(|p| z(p) == Some(true)),
            PAtom::AnyNe(ps) => ps.iter().any(|p| z(p) == Some(false)),
            PAtom::False => false,
        };
        if !ok {
            return None;
        }
    }
    for d in &prep.dens {
        if z(d)? {
            return None;
        }
    }
    let goals_all = prep.goals.iter().all(|g| match g {
        PAtom::Eq(p) => z(p) == Some(true),
        PAtom::Ne(p) => z(p) == Some(false),
        PAtom::AllEq(ps) => ps.iter().all(|p| z(p) == Some(true)),
        PAtom::AnyEq(ps) => ps.iter().any(|p| z(p) == Some(true)),
        PAtom::AnyNe(ps) => ps.iter().any(|p| z(p) == Some(false)),
        PAtom::False => false,
    });
    if goals_all && !prep.goals.is_empty() {
        return None; // not a counterexample
    }
    Some(m)
}
