//! C13 (second half) and C04.
//!
//! C13 / Ob13.4  `hash_n_to_m_no_pad`, `hash_no_pad`, `hash_pad`, `hash_or_noop`, `two_to_one` /
//!               `compress` and `Challenger<F, PoseidonHash>` against a small reference
//!               overwrite-mode (duplex) sponge written here, over the same free permutation
//!               symbol `Perm` (`F::poseidon`); every call sequence up to a bounded length;
//!               chunking independence. Both sides build hash-consed `Perm` terms, so a correct
//!               implementation closes by normalisation; a divergence leaves a satisfiable query
//!               whose model is replayed natively with the real Poseidon.
//! C13 / Ob13.3  the real `Poseidon::partial_rounds` (fast, precomputed matrices) against the
//!               real `Poseidon::partial_rounds_naive`, by induction over the 22 S-boxes with cut
//!               points at the S-box outputs; the full-round layers against their definitions.
//! C04 / Ob4.1-2 the real `ProofWithPublicInputs::get_challenges` (plonky2) and
//!               `StarkProofWithPublicInputs::get_challenges` (starky) on proofs whose every
//!               element is a symbol: every challenge depends (through injective positions of the
//!               ideal permutation) on every component that precedes it in the protocol order and
//!               mentions none that follows it; every observed FRI / degree / config parameter
//!               changes every challenge.
//!
//! Reference semantics fixed here (what "overwrite-mode sponge" means for this code base):
//!  * a short block overwrites only its own lanes; the other rate lanes keep the previous
//!    permutation output (no zero padding) -- in `hash_n_to_m_no_pad` and in the challenger alike;
//!  * the empty message is never permuted: `hash_no_pad(&[])` is the all-zero digest;
//!  * the challenger hands out the rate lanes of one permutation from lane 7 down to lane 0, the
//!    hash functions from lane 0 up;
//!  * `compact` absorbs pending input and discards pending output.
use std::collections::HashSet;

use plonky2::hash::hash_types::HashOut;
use plonky2::hash::hashing::{compress, hash_n_to_m_no_pad};
use plonky2::hash::merkle_tree::MerkleCap;
use plonky2::hash::poseidon::{Poseidon, PoseidonHash, PoseidonPermutation, ALL_ROUND_CONSTANTS};
use core::marker::PhantomData;

use plonky2::fri::proof::{FriInitialTreeProof, FriProof, FriQueryRound};
use plonky2::hash::merkle_proofs::MerkleProof;
use plonky2::iop::ext_target::ExtensionTarget;
use plonky2_field::packed::PackedField;
use starky::config::StarkConfig;
use starky::constraint_consumer::{ConstraintConsumer, RecursiveConstraintConsumer};
use starky::evaluation_frame::{StarkEvaluationFrame, StarkFrame};
use starky::proof::{StarkOpeningSet, StarkProof, StarkProofChallenges, StarkProofWithPublicInputs};
use starky::stark::Stark;
use plonky2::fri::reduction_strategies::FriReductionStrategy;
use plonky2::fri::FriConfig;
use plonky2::iop::challenger::Challenger;
use plonky2::plonk::circuit_builder::CircuitBuilder;
use plonky2::plonk::circuit_data::{CircuitConfig, CommonCircuitData};
use plonky2::plonk::config::Hasher;
use plonky2::plonk::proof::{OpeningSet, Proof, ProofChallenges, ProofWithPublicInputs};
use plonky2_field::polynomial::PolynomialCoeffs;
use plonky2_field::extension::{Extendable, FieldExtension};
use plonky2_field::types::Field;

use crate::ctx::{eq, Ctx, Ob, A, VF};
use crate::{Node, Op};

type Ext<F> = <F as Extendable<2>>::Extension;
type H = PoseidonHash;

const RATE: usize = 8;
const WIDTH: usize = 12;
const N_PARTIAL: usize = 22;
const HALF_FULL: usize = 4;

fn ext_of<F: VF>(a: F, b: F) -> Ext<F> {
    <Ext<F> as FieldExtension<2>>::from_basefield_array([a, b])
}
fn limbs<F: VF>(x: Ext<F>) -> [F; 2] {
    x.to_basefield_array()
}
fn vars<F: VF>(prefix: &str, n: usize) -> Vec<F> {
    (0..n).map(|i| F::var(&format!("{prefix}{i}"))).collect()
}
fn reset<F: VF>() {
    if F::SYMBOLIC {
        crate::reset();
    }
}

// ------------------------------------------------------------------------------------------
// Reference: overwrite-mode sponge / duplex over the permutation F::poseidon (width 12, rate 8)
// ------------------------------------------------------------------------------------------

/// Absorb phase: state := 0; for every block of up to RATE message elements, the block
/// overwrites the first |block| rate lanes (a short last block leaves the remaining lanes as the
/// previous permutation left them) and the permutation is applied.
fn ref_absorb<F: VF>(msg: &[F]) -> [F; WIDTH] {
    let mut st = [F::ZERO; WIDTH];
    let mut pos = 0;
    while pos < msg.len() {
        let n = RATE.min(msg.len() - pos);
        for i in 0..n {
            st[i] = msg[pos + i];
        }
        st = F::poseidon(st);
        pos += n;
    }
    st
}

/// Squeeze phase: output rate lanes 0, 1, .. in order, permuting between blocks of RATE outputs.
fn ref_squeeze<F: VF>(mut st: [F; WIDTH], n: usize) -> Vec<F> {
    let mut out = Vec::with_capacity(n);
    for k in 0..n {
        if k > 0 && k % RATE == 0 {
            st = F::poseidon(st);
        }
        out.push(st[k % RATE]);
    }
    out
}

fn ref_hash<F: VF>(msg: &[F], n_out: usize) -> Vec<F> {
    ref_squeeze::<F>(ref_absorb::<F>(msg), n_out)
}

/// pad10*1 to a multiple of RATE: msg || 1 || 0* || 1, at least two padding elements.
fn ref_pad<F: VF>(msg: &[F]) -> Vec<F> {
    let total = (msg.len() + 2 + RATE - 1) / RATE * RATE;
    let mut v = msg.to_vec();
    v.resize(total, F::ZERO);
    v[msg.len()] = F::ONE;
    v[total - 1] = F::ONE;
    v
}

/// Reference duplex challenger: pending inputs overwrite the first rate lanes at the next
/// permutation; an absorption invalidates all not yet consumed outputs; outputs of one
/// permutation are handed out from the last rate lane downwards (the real implementation pops
/// its output buffer from the end).
struct RefDuplex<F: VF> {
    st: [F; WIDTH],
    pending: Vec<F>,
    /// number of rate lanes of `st` not yet handed out
    avail: usize,
}

impl<F: VF> RefDuplex<F> {
    fn new() -> Self {
        RefDuplex { st: [F::ZERO; WIDTH], pending: vec![], avail: 0 }
    }
    fn duplex(&mut self) {
        for (i, x) in self.pending.drain(..).enumerate() {
            self.st[i] = x;
        }
        self.st = F::poseidon(self.st);
        self.avail = RATE;
    }
    fn absorb(&mut self, x: F) {
        self.avail = 0;
        self.pending.push(x);
        if self.pending.len() == RATE {
            self.duplex();
        }
    }
    fn squeeze(&mut self) -> F {
        if !self.pending.is_empty() || self.avail == 0 {
            self.duplex();
        }
        self.avail -= 1;
        self.st[self.avail]
    }
    fn compact(&mut self) -> [F; WIDTH] {
        if !self.pending.is_empty() {
            self.duplex();
        }
        self.avail = 0;
        self.st
    }
}

// ------------------------------------------------------------------------------------------
// Ob13.4 hashing
// ------------------------------------------------------------------------------------------

const HASH_FILES: &[&str] = &[
    "plonky2/src/hash/hashing.rs::hash_n_to_m_no_pad",
    "plonky2/src/hash/hashing.rs::hash_n_to_hash_no_pad",
    "plonky2/src/hash/hashing.rs::compress",
    "plonky2/src/hash/poseidon.rs::PoseidonHash::hash_no_pad",
    "plonky2/src/hash/poseidon.rs::PoseidonHash::two_to_one",
    "plonky2/src/hash/poseidon.rs::PoseidonPermutation",
    "plonky2/src/plonk/config.rs::Hasher::hash_pad",
    "plonky2/src/plonk/config.rs::Hasher::hash_or_noop",
];

fn eq_vecs<F: VF>(a: &[F], b: &[F]) -> Vec<A> {
    let mut g = vec![A::Bool(a.len() == b.len())];
    for (x, y) in a.iter().zip(b) {
        g.push(eq(*x, *y));
    }
    g
}

fn hash_obs<F: VF>(ctx: &mut Ctx) {
    let max_n = 25;
    for n in 0..=max_n {
        let idp = format!("C13.S.transcript.hash.n{n}");
        ctx.guarded(&idp.clone(), HASH_FILES, |ctx| {
            reset::<F>();
            let msg: Vec<F> = vars::<F>("m", n);
            let bounds = format!("message of {n} symbolic field elements (all values); permutation = free function symbol");
            // hash_no_pad
            let h = <H as Hasher<F>>::hash_no_pad(&msg);
            ctx.add(
                Ob::new(format!("{idp}.hash_no_pad"), HASH_FILES, bounds.clone())
                    .sample(format!("PoseidonHash::hash_no_pad(m[0..{n}]) == reference overwrite-mode sponge (rate 8, width 12), first 4 rate lanes"))
                    .goals(eq_vecs::<F>(&h.elements, &ref_hash::<F>(&msg, 4)))
                    .key("sponge:hash_no_pad-differs"),
            );
            // hash_n_to_m_no_pad, several output lengths (cross 0, 1, 2 squeeze permutations)
            for m in [1usize, 4, 8, 9, 17] {
                let out = hash_n_to_m_no_pad::<F, PoseidonPermutation<F>>(&msg, m);
                ctx.add(
                    Ob::new(format!("{idp}.n_to_m.out{m}"), HASH_FILES, bounds.clone())
                        .sample(format!("hash_n_to_m_no_pad(m[0..{n}], {m}) == reference sponge squeezing {m} elements"))
                        .goals(eq_vecs::<F>(&out, &ref_hash::<F>(&msg, m)))
                        .key("sponge:hash_n_to_m-differs"),
                );
            }
            // hash_pad
            let hp = <H as Hasher<F>>::hash_pad(&msg);
            ctx.add(
                Ob::new(format!("{idp}.hash_pad"), HASH_FILES, bounds.clone())
                    .sample(format!("PoseidonHash::hash_pad(m[0..{n}]) == reference sponge of m || 1 || 0* || 1 (padded to a multiple of 8)"))
                    .goals(eq_vecs::<F>(&hp.elements, &ref_hash::<F>(&ref_pad::<F>(&msg), 4)))
                    .key("sponge:hash_pad-differs"),
            );
            // hash_or_noop threshold
            if n <= 9 {
                let old = if F::SYMBOLIC { crate::set_placeholders(true) } else { false };
                if F::SYMBOLIC && n > 0 {
                    // hash_or_noop moves short inputs through to_canonical_u64 / bytes /
                    // from_noncanonical_u64: the harness field must carry symbols through that
                    let back = F::from_noncanonical_u64(msg[0].to_canonical_u64());
                    assert!(back.to_op() == msg[0].to_op(), "placeholder round trip through u64 is not the identity (harness)");
                }
                let hn = <H as Hasher<F>>::hash_or_noop(&msg);
                if F::SYMBOLIC {
                    crate::set_placeholders(old);
                }
                let expect: Vec<F> = if n <= 4 {
                    let mut v = msg.clone();
                    v.resize(4, F::ZERO);
                    v
                } else {
                    ref_hash::<F>(&msg, 4)
                };
                ctx.add(
                    Ob::new(format!("{idp}.hash_or_noop"), HASH_FILES, bounds.clone())
                        .sample(format!(
                            "PoseidonHash::hash_or_noop(m[0..{n}]) == {}",
                            if n <= 4 { "m padded with zeros to 4 elements (no hashing)" } else { "reference sponge hash" }
                        ))
                        .goals(eq_vecs::<F>(&hn.elements, &expect))
                        .key("sponge:hash_or_noop-differs"),
                );
            }
        });
    }
    ctx.guarded("C13.S.transcript.hash.two_to_one", HASH_FILES, |ctx| {
        reset::<F>();
        let l = HashOut { elements: [F::var("l0"), F::var("l1"), F::var("l2"), F::var("l3")] };
        let r = HashOut { elements: [F::var("r0"), F::var("r1"), F::var("r2"), F::var("r3")] };
        let mut st = [F::ZERO; WIDTH];
        st[..4].copy_from_slice(&l.elements);
        st[4..8].copy_from_slice(&r.elements);
        let p = F::poseidon(st);
        let a = <H as Hasher<F>>::two_to_one(l, r);
        let b = compress::<F, PoseidonPermutation<F>>(l, r);
        let mut goals = eq_vecs::<F>(&a.elements, &p[..4]);
        goals.extend(eq_vecs::<F>(&b.elements, &p[..4]));
        // a two-to-one compression is one sponge block: same as hashing the 8 elements
        goals.extend(eq_vecs::<F>(&a.elements, &ref_hash::<F>(&[l.elements, r.elements].concat(), 4)));
        ctx.add(
            Ob::new("C13.S.transcript.hash.two_to_one", HASH_FILES, "two symbolic digests (all values)")
                .sample("two_to_one(l, r) == compress(l, r) == permute(l || r || 0000)[0..4]")
                .goals(goals)
                .key("sponge:two_to_one-differs"),
        );
    });
}

// ------------------------------------------------------------------------------------------
// Ob13.4 challenger = duplex sponge, every call sequence
// ------------------------------------------------------------------------------------------

const CH_FILES: &[&str] = &[
    "plonky2/src/iop/challenger.rs::Challenger::observe_element",
    "plonky2/src/iop/challenger.rs::Challenger::observe_elements",
    "plonky2/src/iop/challenger.rs::Challenger::observe_extension_element",
    "plonky2/src/iop/challenger.rs::Challenger::observe_hash",
    "plonky2/src/iop/challenger.rs::Challenger::observe_cap",
    "plonky2/src/iop/challenger.rs::Challenger::get_challenge",
    "plonky2/src/iop/challenger.rs::Challenger::get_n_challenges",
    "plonky2/src/iop/challenger.rs::Challenger::get_hash",
    "plonky2/src/iop/challenger.rs::Challenger::get_extension_challenge",
    "plonky2/src/iop/challenger.rs::Challenger::duplexing",
    "plonky2/src/iop/challenger.rs::Challenger::compact",
];

#[derive(Clone, Copy, PartialEq, Eq, Debug)]
enum Call {
    Obs1,
    Obs3,
    Obs9,
    ObsExt,
    ObsHash,
    ObsCap2,
    Get1,
    Get3,
    Get9,
    GetHash,
    GetExt,
    Compact,
}

impl Call {
    const ALL: [Call; 12] = [
        Call::Obs1, Call::Obs3, Call::Obs9, Call::ObsExt, Call::ObsHash, Call::ObsCap2,
        Call::Get1, Call::Get3, Call::Get9, Call::GetHash, Call::GetExt, Call::Compact,
    ];
    /// one representative per effect on (pending inputs, available outputs): absorb 1 / 3 / 9
    /// (9 crosses the rate), squeeze 1 / 9 (9 crosses the rate), compact
    const REDUCED: [Call; 6] = [Call::Obs1, Call::Obs3, Call::Obs9, Call::Get1, Call::Get9, Call::Compact];
    fn code(self) -> &'static str {
        match self {
            Call::Obs1 => "o1",
            Call::Obs3 => "o3",
            Call::Obs9 => "o9",
            Call::ObsExt => "ox",
            Call::ObsHash => "oh",
            Call::ObsCap2 => "oc",
            Call::Get1 => "g1",
            Call::Get3 => "g3",
            Call::Get9 => "g9",
            Call::GetHash => "gh",
            Call::GetExt => "gx",
            Call::Compact => "k",
        }
    }
    fn name(self) -> &'static str {
        match self {
            Call::Obs1 => "observe_element",
            Call::Obs3 => "observe_elements(3)",
            Call::Obs9 => "observe_elements(9)",
            Call::ObsExt => "observe_extension_element",
            Call::ObsHash => "observe_hash",
            Call::ObsCap2 => "observe_cap(2 entries)",
            Call::Get1 => "get_challenge",
            Call::Get3 => "get_n_challenges(3)",
            Call::Get9 => "get_n_challenges(9)",
            Call::GetHash => "get_hash",
            Call::GetExt => "get_extension_challenge",
            Call::Compact => "compact",
        }
    }
}

/// Apply one call to the real challenger and to the reference; returns the pairs of outputs.
fn apply_call<F: VF>(step: usize, c: Call, real: &mut Challenger<F, H>, rf: &mut RefDuplex<F>) -> Vec<(F, F)> {
    let a = |k: usize| -> Vec<F> { (0..k).map(|i| F::var(&format!("a{step}_{i}"))).collect() };
    let mut out = vec![];
    match c {
        Call::Obs1 => {
            let v = a(1);
            real.observe_element(v[0]);
            rf.absorb(v[0]);
        }
        Call::Obs3 | Call::Obs9 => {
            let v = a(if c == Call::Obs3 { 3 } else { 9 });
            real.observe_elements(&v);
            for x in v {
                rf.absorb(x);
            }
        }
        Call::ObsExt => {
            let v = a(2);
            real.observe_extension_element::<2>(&ext_of::<F>(v[0], v[1]));
            rf.absorb(v[0]);
            rf.absorb(v[1]);
        }
        Call::ObsHash => {
            let v = a(4);
            real.observe_hash::<H>(HashOut { elements: [v[0], v[1], v[2], v[3]] });
            for x in v {
                rf.absorb(x);
            }
        }
        Call::ObsCap2 => {
            let v = a(8);
            let cap: MerkleCap<F, H> = MerkleCap(vec![
                HashOut { elements: [v[0], v[1], v[2], v[3]] },
                HashOut { elements: [v[4], v[5], v[6], v[7]] },
            ]);
            real.observe_cap::<H>(&cap);
            for x in v {
                rf.absorb(x);
            }
        }
        Call::Get1 => out.push((real.get_challenge(), rf.squeeze())),
        Call::Get3 | Call::Get9 => {
            let n = if c == Call::Get3 { 3 } else { 9 };
            let v = real.get_n_challenges(n);
            assert_eq!(v.len(), n);
            for x in v {
                out.push((x, rf.squeeze()));
            }
        }
        Call::GetHash => {
            let h = real.get_hash();
            for x in h.elements {
                out.push((x, rf.squeeze()));
            }
        }
        Call::GetExt => {
            let e = limbs::<F>(real.get_extension_challenge::<2>());
            out.push((e[0], rf.squeeze()));
            out.push((e[1], rf.squeeze()));
        }
        Call::Compact => {
            let p = real.compact();
            let r = rf.compact();
            let s: &[F] = p.as_ref();
            assert_eq!(s.len(), WIDTH);
            for i in 0..WIDTH {
                out.push((s[i], r[i]));
            }
        }
    }
    out
}

fn sequences(alphabet: &[Call], len: usize) -> Vec<Vec<Call>> {
    let mut out: Vec<Vec<Call>> = vec![vec![]];
    for _ in 0..len {
        let mut next = Vec::with_capacity(out.len() * alphabet.len());
        for s in &out {
            for c in alphabet {
                let mut t = s.clone();
                t.push(*c);
                next.push(t);
            }
        }
        out = next;
    }
    out
}

fn challenger_obs<F: VF>(ctx: &mut Ctx) {
    // A sequence obligation compares the outputs of every call of the sequence, hence covers all
    // its prefixes: only maximal lengths are enumerated.
    //   quick:    all 12^2 sequences over the full alphabet, all 6^4 over the reduced alphabet
    //   thorough: all 12^3 over the full alphabet, all 6^5 over the reduced alphabet
    let mut seqs: Vec<Vec<Call>> = vec![];
    if ctx.thorough() {
        seqs.extend(sequences(&Call::ALL, 3));
        seqs.extend(sequences(&Call::REDUCED, 5));
    } else {
        seqs.extend(sequences(&Call::ALL, 2));
        seqs.extend(sequences(&Call::REDUCED, 4));
    }
    let mut seen = HashSet::new();
    for seq in seqs {
        let code: Vec<&str> = seq.iter().map(|c| c.code()).collect();
        let id = format!("C13.S.transcript.duplex.{}", code.join("-"));
        if !seen.insert(id.clone()) {
            continue;
        }
        ctx.guarded(&id.clone(), CH_FILES, |ctx| {
            reset::<F>();
            let mut real = Challenger::<F, H>::new();
            let mut rf = RefDuplex::<F>::new();
            let mut pairs = vec![];
            for (s, c) in seq.iter().enumerate() {
                pairs.extend(apply_call::<F>(s, *c, &mut real, &mut rf));
            }
            // final probe: the complete sponge state after absorbing whatever is pending
            pairs.extend(apply_call::<F>(seq.len(), Call::Compact, &mut real, &mut rf));
            let names: Vec<&str> = seq.iter().map(|c| c.name()).collect();
            ctx.add(
                Ob::new(id.clone(), CH_FILES, "every absorbed element a symbol (all field values); fresh Challenger; permutation = free function symbol")
                    .sample(format!(
                        "Challenger::new(); {}; compact()  -- every squeezed output and the final state equal those of the reference overwrite-mode duplex sponge ({} outputs)",
                        names.join("; "),
                        pairs.len()
                    ))
                    .goals(pairs.iter().map(|(x, y)| eq(*x, *y)).collect())
                    .key("challenger:differs-from-duplex-sponge"),
            );
        });
    }
    // chunking independence: the same elements absorbed through different entry points
    for n in 0..=20usize {
        let id = format!("C13.S.transcript.chunking.n{n}");
        ctx.guarded(&id.clone(), CH_FILES, |ctx| {
            reset::<F>();
            let v: Vec<F> = vars::<F>("a", n);
            let finish = |mut c: Challenger<F, H>| -> Vec<F> {
                let mut o = c.get_n_challenges(9);
                o.extend(limbs::<F>(c.get_extension_challenge::<2>()));
                o
            };
            let mut one = Challenger::<F, H>::new();
            for x in &v {
                one.observe_element(*x);
            }
            let base = finish(one);
            let mut goals = vec![];
            let mut ways = vec!["one by one"];
            let mut all = Challenger::<F, H>::new();
            all.observe_elements(&v);
            goals.extend(eq_vecs::<F>(&finish(all), &base));
            ways.push("observe_elements(all)");
            // uneven split 3 | rest
            let mut split = Challenger::<F, H>::new();
            split.observe_elements(&v[..n.min(3)]);
            split.observe_elements(&v[n.min(3)..]);
            goals.extend(eq_vecs::<F>(&finish(split), &base));
            ways.push("observe_elements(3) + observe_elements(rest)");
            if n % 2 == 0 {
                let es: Vec<Ext<F>> = v.chunks(2).map(|c| ext_of::<F>(c[0], c[1])).collect();
                let mut e1 = Challenger::<F, H>::new();
                for e in &es {
                    e1.observe_extension_element::<2>(e);
                }
                goals.extend(eq_vecs::<F>(&finish(e1), &base));
                let mut e2 = Challenger::<F, H>::new();
                e2.observe_extension_elements::<2>(&es);
                goals.extend(eq_vecs::<F>(&finish(e2), &base));
                ways.push("as extension elements");
            }
            if n % 4 == 0 {
                let hs: Vec<HashOut<F>> = v.chunks(4).map(|c| HashOut { elements: [c[0], c[1], c[2], c[3]] }).collect();
                let mut h1 = Challenger::<F, H>::new();
                for h in &hs {
                    h1.observe_hash::<H>(*h);
                }
                goals.extend(eq_vecs::<F>(&finish(h1), &base));
                let mut h2 = Challenger::<F, H>::new();
                h2.observe_cap::<H>(&MerkleCap(hs.clone()));
                goals.extend(eq_vecs::<F>(&finish(h2), &base));
                ways.push("as hashes / one cap");
            }
            // and the hash functions are the same sponge: hash_no_pad(v) is the first block of
            // outputs of a challenger that absorbed v (when v is non-empty), read from lane 0 up
            if n > 0 {
                let h = <H as Hasher<F>>::hash_no_pad(&v);
                let mut c = Challenger::<F, H>::new();
                c.observe_elements(&v);
                let o = c.get_n_challenges(8);
                goals.extend(eq_vecs::<F>(&h.elements, &[o[7], o[6], o[5], o[4]]));
            }
            ctx.add(
                Ob::new(id.clone(), CH_FILES, format!("{n} symbolic elements (all values)"))
                    .sample(format!("absorbing a[0..{n}] {} gives the same 9 challenges + extension challenge", ways.join(" / ")))
                    .goals(goals)
                    .key("challenger:chunking-dependent"),
            );
        });
    }
}

// ------------------------------------------------------------------------------------------
// Ob13.3 Poseidon layers and fast partial rounds
// ------------------------------------------------------------------------------------------

const POS_FILES: &[&str] = &[
    "plonky2/src/hash/poseidon.rs::Poseidon::partial_rounds",
    "plonky2/src/hash/poseidon.rs::Poseidon::partial_rounds_naive",
    "plonky2/src/hash/poseidon.rs::Poseidon::partial_first_constant_layer",
    "plonky2/src/hash/poseidon.rs::Poseidon::mds_partial_layer_init",
    "plonky2/src/hash/poseidon.rs::Poseidon::mds_partial_layer_fast_field",
    "plonky2/src/hash/poseidon.rs::Poseidon::mds_layer_field",
    "plonky2/src/hash/poseidon.rs::Poseidon::constant_layer_field",
    "plonky2/src/hash/poseidon.rs::Poseidon::sbox_layer_field",
    "plonky2/src/hash/poseidon.rs::Poseidon::sbox_monomial",
    "plonky2/src/hash/poseidon_goldilocks.rs::FAST_PARTIAL_ROUND_W_HATS",
    "plonky2/src/hash/poseidon_goldilocks.rs::FAST_PARTIAL_ROUND_VS",
    "plonky2/src/hash/poseidon_goldilocks.rs::FAST_PARTIAL_ROUND_INITIAL_MATRIX",
    "plonky2/src/hash/poseidon_goldilocks.rs::FAST_PARTIAL_ROUND_CONSTANTS",
    "plonky2/src/hash/poseidon_goldilocks.rs::FAST_PARTIAL_FIRST_ROUND_CONSTANT",
];

/// x^7 by six multiplications
fn pow7<T: Field>(x: T) -> T {
    x * x * x * x * x * x * x
}

/// (circ(MDS_MATRIX_CIRC) + diag(MDS_MATRIX_DIAG)) * v, the circulant having MDS_MATRIX_CIRC as
/// its first row: M[r][c] = CIRC[(c - r) mod 12] + (r == c) * DIAG[r]
fn mds_def<F: VF, T: FieldExtension<D, BaseField = F>, const D: usize>(v: &[T; WIDTH]) -> [T; WIDTH] {
    let mut out = [T::ZERO; WIDTH];
    for r in 0..WIDTH {
        for c in 0..WIDTH {
            let mut m = <F as Poseidon>::MDS_MATRIX_CIRC[(c + WIDTH - r) % WIDTH];
            if r == c {
                m += <F as Poseidon>::MDS_MATRIX_DIAG[r];
            }
            out[r] += v[c] * T::from_canonical_u64(m);
        }
    }
    out
}

fn layer_obs<F: VF>(ctx: &mut Ctx) {
    ctx.guarded("C13.S.transcript.layers", POS_FILES, |ctx| {
        reset::<F>();
        let st: [F; WIDTH] = core::array::from_fn(|i| F::var(&format!("s{i}")));
        let xs: [Ext<F>; WIDTH] = core::array::from_fn(|i| F::ext(&format!("x{i}")));
        let bounds = "all 12-element states (base field and quadratic extension)";
        // S-box layer
        {
            let mut a = st;
            F::sbox_layer_field::<F, 1>(&mut a);
            let mut b = st;
            F::sbox_layer(&mut b);
            let mut c = xs;
            F::sbox_layer_field::<Ext<F>, 2>(&mut c);
            let mut goals = vec![];
            for i in 0..WIDTH {
                goals.push(eq(a[i], pow7(st[i])));
                goals.push(eq(b[i], pow7(st[i])));
                goals.push(eq(F::sbox_monomial::<F, 1>(st[i]), pow7(st[i])));
                let (l, r) = (limbs::<F>(c[i]), limbs::<F>(pow7(xs[i])));
                goals.push(eq(l[0], r[0]));
                goals.push(eq(l[1], r[1]));
            }
            ctx.add(
                Ob::new("C13.S.transcript.layers.sbox", POS_FILES, bounds)
                    .sample("sbox_layer_field / sbox_layer / sbox_monomial: every lane x |-> x^7")
                    .goals(goals)
                    .key("poseidon:sbox-layer"),
            );
        }
        // constant layer, every round
        for r in 0..(2 * HALF_FULL + N_PARTIAL) {
            let mut a = st;
            F::constant_layer_field::<F, 1>(&mut a, r);
            let mut b = st;
            F::constant_layer(&mut b, r);
            let mut c = xs;
            F::constant_layer_field::<Ext<F>, 2>(&mut c, r);
            let mut goals = vec![];
            for i in 0..WIDTH {
                let k = F::from_canonical_u64(ALL_ROUND_CONSTANTS[i + WIDTH * r]);
                goals.push(A::Bool(ALL_ROUND_CONSTANTS[i + WIDTH * r] < F::ORDER));
                goals.push(eq(a[i], st[i] + k));
                goals.push(eq(b[i], st[i] + k));
                let (l, x) = (limbs::<F>(c[i]), limbs::<F>(xs[i]));
                goals.push(eq(l[0], x[0] + k));
                goals.push(eq(l[1], x[1]));
            }
            ctx.add(
                Ob::new(format!("C13.S.transcript.layers.constant.r{r}"), POS_FILES, bounds)
                    .sample(format!("constant_layer_field / constant_layer (round {r}): lane i += ALL_ROUND_CONSTANTS[i + 12*{r}] (canonical)"))
                    .goals(goals)
                    .key("poseidon:constant-layer"),
            );
        }
        // MDS layer
        {
            let a = F::mds_layer_field::<F, 1>(&st);
            let b = F::mds_layer(&st);
            let d = mds_def::<F, F, 1>(&st);
            let c = F::mds_layer_field::<Ext<F>, 2>(&xs);
            let dx = mds_def::<F, Ext<F>, 2>(&xs);
            let mut goals = vec![];
            for i in 0..WIDTH {
                goals.push(eq(a[i], d[i]));
                goals.push(eq(b[i], d[i]));
                let (l, r) = (limbs::<F>(c[i]), limbs::<F>(dx[i]));
                goals.push(eq(l[0], r[0]));
                goals.push(eq(l[1], r[1]));
            }
            ctx.add(
                Ob::new("C13.S.transcript.layers.mds", POS_FILES, bounds)
                    .sample("mds_layer_field / mds_layer == (circulant(MDS_MATRIX_CIRC) + diag(MDS_MATRIX_DIAG)) * state")
                    .goals(goals)
                    .key("poseidon:mds-layer"),
            );
        }
    });
}

fn partial_rounds_obs<F: VF>(ctx: &mut Ctx) {
    ctx.guarded("C13.S.transcript.partial", POS_FILES, |ctx| {
        reset::<F>();
        let st: [F; WIDTH] = core::array::from_fn(|i| F::var(&format!("s{i}")));
        // the real functions, called as `poseidon` / `poseidon_naive` call them (round_ctr = 4)
        let mut fast = st;
        let mut ctr_f = HALF_FULL;
        F::partial_rounds(&mut fast, &mut ctr_f);
        let mut naive = st;
        let mut ctr_n = HALF_FULL;
        F::partial_rounds_naive(&mut naive, &mut ctr_n);
        // The same two computations replayed layer by layer with the real layer functions, only
        // to learn where the S-boxes sit (the term arena is hash-consed: the replay produces the
        // very nodes the real functions produced; checked by the `.mirror` obligation).
        let (mut f_in, mut f_out, mut n_in, mut n_out) = (vec![], vec![], vec![], vec![]);
        let mut s = st;
        F::partial_first_constant_layer::<F, 1>(&mut s);
        s = F::mds_partial_layer_init::<F, 1>(&s);
        for i in 0..N_PARTIAL {
            f_in.push(s[0]);
            s[0] = F::sbox_monomial::<F, 1>(s[0]);
            f_out.push(s[0]);
            s[0] = unsafe { s[0].add_canonical_u64(<F as Poseidon>::FAST_PARTIAL_ROUND_CONSTANTS[i]) };
            s = F::mds_partial_layer_fast(&s, i);
        }
        let mirror_fast = s;
        let mut s = st;
        for r in 0..N_PARTIAL {
            F::constant_layer(&mut s, HALF_FULL + r);
            n_in.push(s[0]);
            s[0] = F::sbox_monomial::<F, 1>(s[0]);
            n_out.push(s[0]);
            s = F::mds_layer(&s);
        }
        let mirror_naive = s;
        let bounds = "all 12-element input states of the partial rounds; S-box outputs are cut points (fresh symbols)";
        let mut g = vec![A::Bool(ctr_f == HALF_FULL + N_PARTIAL), A::Bool(ctr_n == HALF_FULL + N_PARTIAL)];
        for i in 0..WIDTH {
            g.push(A::Bool(fast[i].to_op() == mirror_fast[i].to_op()));
            g.push(A::Bool(naive[i].to_op() == mirror_naive[i].to_op()));
        }
        ctx.add(
            Ob::new("C13.S.transcript.partial.mirror", POS_FILES, bounds)
                .sample("partial_rounds / partial_rounds_naive produce exactly the terms of their layer-by-layer replay (locates the 2 x 22 S-boxes); round_ctr advances by 22")
                .goals(g)
                .key("poseidon:partial-rounds-structure"),
        );
        // cut every S-box output; `cut_of(x)` = x with all S-box outputs replaced by their symbols
        let mut souts: Vec<F> = f_out.clone();
        souts.extend(n_out.iter().copied());
        let (syms, _) = F::cut(&souts, "sb");
        let cut_of = |x: F| -> F {
            let mut v = souts.clone();
            v.push(x);
            let (_, defs) = F::cut(&v, "sb");
            defs[souts.len()]
        };
        let same_out = |k: usize| -> Vec<A> { (0..k).map(|j| eq(syms[j], syms[N_PARTIAL + j])).collect() };
        for k in 0..N_PARTIAL {
            ctx.add(
                Ob::new(format!("C13.S.transcript.partial.sbox-input{k}"), POS_FILES, bounds)
                    .sample(format!(
                        "induction step {k}: if the first {k} S-box outputs of the fast and the naive partial rounds agree then the inputs of S-box {k} agree (linear in 12 state symbols + {k} S-box symbols)"
                    ))
                    .hyps(same_out(k))
                    .goal(eq(cut_of(f_in[k]), cut_of(n_in[k])))
                    .key("poseidon:fast-partial-rounds-differ"),
            );
        }
        let mut goals = vec![];
        for i in 0..WIDTH {
            goals.push(eq(cut_of(fast[i]), cut_of(naive[i])));
        }
        ctx.add(
            Ob::new("C13.S.transcript.partial.final", POS_FILES, bounds)
                .sample("conclusion: all 22 S-box outputs agree (by the 22 induction steps, S-box being a function) ==> the 12 output lanes of partial_rounds and partial_rounds_naive agree")
                .hyps(same_out(N_PARTIAL))
                .goals(goals)
                .key("poseidon:fast-partial-rounds-differ"),
        );
    });
}

// ------------------------------------------------------------------------------------------
// C04: ideal-permutation reasoning on challenge terms
// ------------------------------------------------------------------------------------------

/// Ideal-hash model used for C04: every output lane of the permutation is an injective free
/// constructor (a challenge is a single lane, so the digest-lane collision-freeness of
/// `.injective()` is not enough). Under that model `Perm_k(s) == Perm_k(t)` is equivalent to
/// `s == t` lane by lane; the equality of two challenge terms is decomposed accordingly into
/// equalities between the non-`Perm` leaves. Natively the pair itself is returned.
fn unify_ops(a: Op, b: Op, out: &mut Vec<(Op, Op)>, seen: &mut HashSet<(Op, Op)>) {
    if a == b || !seen.insert((a, b)) {
        return;
    }
    if let (Op::N(i), Op::N(j)) = (a, b) {
        if let (Node::Perm(k, s), Node::Perm(l, t)) = (crate::node_of(i), crate::node_of(j)) {
            if k == l && s.len() == t.len() {
                for (x, y) in s.iter().zip(t.iter()) {
                    unify_ops(*x, *y, out, seen);
                }
            } else {
                // distinct constructors are never equal
                out.push((Op::C(0), Op::C(1)));
            }
            return;
        }
    }
    // Only equalities between directly absorbed elements are kept. An equality between two
    // absorbed *computed* values (starky absorbs constraint evaluations that are algebraic in
    // earlier challenges) is dropped: fewer hypotheses / fewer goal disjuncts only make the
    // obligation harder to discharge, never easier.
    if simple_op(a) && simple_op(b) {
        out.push((a, b));
    }
}

/// a small `Perm`-free term (an absorbed symbol, constant, or symbol + perturbation)
fn simple_op(o: Op) -> bool {
    let mut seen = HashSet::new();
    let mut stack = vec![o];
    while let Some(x) = stack.pop() {
        if let Op::N(i) = x {
            if !seen.insert(i) {
                continue;
            }
            if seen.len() > 32 {
                return false;
            }
            match crate::node_of(i) {
                Node::Var(_) => {}
                Node::Add(a, b) | Node::Sub(a, b) | Node::Mul(a, b) => {
                    stack.push(a);
                    stack.push(b);
                }
                Node::Neg(a) => stack.push(a),
                Node::Inv(_) | Node::Perm(..) => return false,
            }
        }
    }
    true
}

fn leaves<F: VF>(c: F, c2: F) -> Vec<(Op, Op)> {
    let (a, b) = (c.to_op(), c2.to_op());
    if !F::SYMBOLIC {
        return vec![(a, b)];
    }
    let mut out = vec![];
    unify_ops(a, b, &mut out, &mut HashSet::new());
    out
}

/// hypothesis atoms "challenge c == challenge c2" under the ideal-permutation model
fn same_challenge<F: VF>(c: F, c2: F) -> Vec<A> {
    leaves::<F>(c, c2).into_iter().map(|(a, b)| A::Eq(a, b)).collect()
}

/// goal atom "challenge c != challenge c2" under the ideal-permutation model
fn differs<F: VF>(c: F, c2: F) -> A {
    A::AnyNe(leaves::<F>(c, c2))
}

const IDEAL: &str = "ideal-permutation model: every output lane of the Poseidon permutation is an injective free constructor (equality of two challenge terms is decomposed into equality of the absorbed elements)";

/// The symbolic value behind a FRI query index. With placeholders, `to_canonical_u64` of node id
/// is P + id and the index is (P + id) mod lde_size; for lde_size >= 2^33 the id is recoverable
/// (P mod 2^k = 2^k - 2^32 + 1).
const BIG_DEGREE_BITS: usize = 40;
fn index_term<F: VF>(idx: usize, lde_bits: usize) -> F {
    if !F::SYMBOLIC {
        return F::from_canonical_u64(idx as u64);
    }
    assert!(lde_bits >= 33 && lde_bits < 64);
    let base = (crate::P % (1u64 << lde_bits)) as usize;
    assert!(idx >= base, "query index is not a placeholder");
    let old = crate::set_placeholders(true);
    let t = F::from_canonical_u64(crate::P + (idx - base) as u64);
    crate::set_placeholders(old);
    t
}

// ------------------------------------------------------------------------------------------
// C04: plonky2 `ProofWithPublicInputs::get_challenges`
// ------------------------------------------------------------------------------------------

const PLONK_FILES: &[&str] = &[
    "plonky2/src/plonk/get_challenges.rs::get_challenges",
    "plonky2/src/plonk/get_challenges.rs::ProofWithPublicInputs::get_challenges",
    "plonky2/src/fri/challenges.rs::Challenger::fri_challenges",
    "plonky2/src/fri/challenges.rs::Challenger::observe_openings",
    "plonky2/src/fri/mod.rs::FriParams::observe",
    "plonky2/src/fri/mod.rs::FriConfig::observe",
    "plonky2/src/fri/reduction_strategies.rs::FriReductionStrategy::serialize",
    "plonky2/src/plonk/proof.rs::OpeningSet::to_fri_openings",
    "plonky2/src/iop/challenger.rs::Challenger",
];

/// One scalar position of the statement / proof.
#[derive(Clone, Copy, Debug, PartialEq, Eq)]
enum PPos {
    Digest(usize),
    Pih(usize),
    WiresCap(usize, usize),
    ZsCap(usize, usize),
    QuotCap(usize, usize),
    /// (opening vector 0..9, index, limb)
    Open(usize, usize, usize),
    CommitCap(usize, usize, usize),
    FinalPoly(usize, usize),
    Pow,
}

const OPEN_NAMES: [&str; 9] =
    ["constants", "plonk_sigmas", "wires", "plonk_zs", "plonk_zs_next", "partial_products", "quotient_polys", "lookup_zs", "lookup_zs_next"];

struct PlonkT<F: VF> {
    digest: HashOut<F>,
    pih: HashOut<F>,
    proof: ProofWithPublicInputs<F, F::Cfg, 2>,
}

fn sym_hash<F: VF>(name: &str) -> HashOut<F> {
    HashOut { elements: core::array::from_fn(|k| F::var(&format!("{name}.{k}"))) }
}
fn sym_cap<F: VF>(name: &str, h: usize) -> MerkleCap<F, H> {
    MerkleCap((0..(1usize << h)).map(|k| sym_hash::<F>(&format!("{name}_{k}"))).collect())
}
fn sym_exts<F: VF>(name: &str, n: usize) -> Vec<Ext<F>> {
    (0..n).map(|i| F::ext(&format!("{name}{i}"))).collect()
}

impl<F: VF> PlonkT<F> {
    /// every element a distinct symbol; shapes as `common` prescribes
    fn symbolic(common: &CommonCircuitData<F, 2>) -> Self {
        let cfg = &common.config;
        let ch = cfg.num_challenges;
        let caph = cfg.fri_config.cap_height;
        let nl = common.num_lookup_polys;
        let openings = OpeningSet {
            constants: sym_exts::<F>("o_const", common.num_constants),
            plonk_sigmas: sym_exts::<F>("o_sigma", cfg.num_routed_wires),
            wires: sym_exts::<F>("o_wire", cfg.num_wires),
            plonk_zs: sym_exts::<F>("o_z", ch),
            plonk_zs_next: sym_exts::<F>("o_znext", ch),
            partial_products: sym_exts::<F>("o_pp", ch * common.num_partial_products),
            quotient_polys: sym_exts::<F>("o_quot", ch * common.quotient_degree_factor),
            lookup_zs: sym_exts::<F>("o_lz", nl),
            lookup_zs_next: sym_exts::<F>("o_lznext", nl),
        };
        let steps = common.fri_params.reduction_arity_bits.len();
        let opening_proof = FriProof {
            commit_phase_merkle_caps: (0..steps).map(|s| sym_cap::<F>(&format!("ccap{s}"), caph)).collect(),
            query_round_proofs: vec![],
            final_poly: PolynomialCoeffs::new(sym_exts::<F>("final", common.fri_params.final_poly_len())),
            pow_witness: F::var("pow_witness"),
        };
        let proof = Proof {
            wires_cap: sym_cap::<F>("wires_cap", caph),
            plonk_zs_partial_products_cap: sym_cap::<F>("zs_cap", caph),
            quotient_polys_cap: sym_cap::<F>("quot_cap", caph),
            openings,
            opening_proof,
        };
        PlonkT {
            digest: sym_hash::<F>("digest"),
            pih: sym_hash::<F>("pih"),
            proof: ProofWithPublicInputs { proof, public_inputs: vec![] },
        }
    }
    fn open_vec(&mut self, v: usize) -> &mut Vec<Ext<F>> {
        let o = &mut self.proof.proof.openings;
        match v {
            0 => &mut o.constants,
            1 => &mut o.plonk_sigmas,
            2 => &mut o.wires,
            3 => &mut o.plonk_zs,
            4 => &mut o.plonk_zs_next,
            5 => &mut o.partial_products,
            6 => &mut o.quotient_polys,
            7 => &mut o.lookup_zs,
            _ => &mut o.lookup_zs_next,
        }
    }
    /// read (d = None) or add d to the element at `pos`; returns the (old) element
    fn at(&mut self, pos: PPos, d: Option<F>) -> F {
        fn scalar<F: VF>(x: &mut F, d: Option<F>) -> F {
            let old = *x;
            if let Some(d) = d {
                *x += d;
            }
            old
        }
        fn ext<F: VF>(x: &mut Ext<F>, limb: usize, d: Option<F>) -> F {
            let mut a = x.to_basefield_array();
            let old = a[limb];
            if let Some(d) = d {
                a[limb] += d;
                *x = ext_of::<F>(a[0], a[1]);
            }
            old
        }
        let p = &mut self.proof.proof;
        match pos {
            PPos::Digest(l) => scalar(&mut self.digest.elements[l], d),
            PPos::Pih(l) => scalar(&mut self.pih.elements[l], d),
            PPos::WiresCap(k, l) => scalar(&mut p.wires_cap.0[k].elements[l], d),
            PPos::ZsCap(k, l) => scalar(&mut p.plonk_zs_partial_products_cap.0[k].elements[l], d),
            PPos::QuotCap(k, l) => scalar(&mut p.quotient_polys_cap.0[k].elements[l], d),
            PPos::Open(v, i, l) => ext::<F>(&mut self.open_vec(v)[i], l, d),
            PPos::CommitCap(s, k, l) => scalar(&mut p.opening_proof.commit_phase_merkle_caps[s].0[k].elements[l], d),
            PPos::FinalPoly(i, l) => ext::<F>(&mut p.opening_proof.final_poly.coeffs[i], l, d),
            PPos::Pow => scalar(&mut p.opening_proof.pow_witness, d),
        }
    }
    fn clone_(&self) -> Self {
        PlonkT { digest: self.digest, pih: self.pih, proof: self.proof.clone() }
    }
}

/// Components of the transcript in protocol order: (name, index of the first challenge group
/// that is drawn after it, all its scalar positions).
fn plonk_components<F: VF>(t: &mut PlonkT<F>) -> Vec<(String, usize, Vec<PPos>)> {
    let caps = |n: usize, f: &dyn Fn(usize, usize) -> PPos| -> Vec<PPos> {
        let mut v = vec![];
        for k in 0..n {
            for l in 0..4 {
                v.push(f(k, l));
            }
        }
        v
    };
    let ncap = t.proof.proof.wires_cap.0.len();
    let steps = t.proof.proof.opening_proof.commit_phase_merkle_caps.len();
    let mut out = vec![
        ("circuit_digest".to_string(), 0, (0..4).map(PPos::Digest).collect()),
        ("public_inputs_hash".to_string(), 0, (0..4).map(PPos::Pih).collect()),
        ("wires_cap".to_string(), 0, caps(ncap, &PPos::WiresCap)),
        ("plonk_zs_partial_products_cap".to_string(), 1, caps(ncap, &PPos::ZsCap)),
        ("quotient_polys_cap".to_string(), 2, caps(ncap, &PPos::QuotCap)),
    ];
    for v in 0..9 {
        let n = t.open_vec(v).len();
        let mut ps = vec![];
        for i in 0..n {
            ps.push(PPos::Open(v, i, 0));
            ps.push(PPos::Open(v, i, 1));
        }
        if !ps.is_empty() {
            out.push((format!("openings.{}", OPEN_NAMES[v]), 3, ps));
        }
    }
    for s in 0..steps {
        out.push((format!("commit_phase_merkle_caps[{s}]"), 4 + s, caps(ncap, &|k, l| PPos::CommitCap(s, k, l))));
    }
    let nf = t.proof.proof.opening_proof.final_poly.coeffs.len();
    let mut ps = vec![];
    for i in 0..nf {
        ps.push(PPos::FinalPoly(i, 0));
        ps.push(PPos::FinalPoly(i, 1));
    }
    out.push(("final_poly".to_string(), 4 + steps, ps));
    out.push(("pow_witness".to_string(), 4 + steps, vec![PPos::Pow]));
    out
}

/// Challenge groups in the order they are drawn:
///   0 betas, gammas (and the extra lookup deltas) | 1 alphas | 2 zeta | 3 fri_alpha |
///   4+i fri_beta_i | 4+steps fri_pow_response | 5+steps query indices
fn plonk_groups<F: VF>(c: &ProofChallenges<F, 2>, lde_bits: usize, with_indices: bool) -> Vec<(String, Vec<F>)> {
    let mut g0 = c.plonk_betas.clone();
    g0.extend(c.plonk_gammas.iter().copied());
    // deltas = betas ++ gammas ++ additional
    if c.plonk_deltas.len() > g0.len() {
        g0.extend(c.plonk_deltas[g0.len()..].iter().copied());
    }
    let mut out = vec![
        ("plonk_betas/gammas/deltas".to_string(), g0),
        ("plonk_alphas".to_string(), c.plonk_alphas.clone()),
        ("plonk_zeta".to_string(), limbs::<F>(c.plonk_zeta).to_vec()),
        ("fri_alpha".to_string(), limbs::<F>(c.fri_challenges.fri_alpha).to_vec()),
    ];
    for (i, b) in c.fri_challenges.fri_betas.iter().enumerate() {
        out.push((format!("fri_betas[{i}]"), limbs::<F>(*b).to_vec()));
    }
    out.push(("fri_pow_response".to_string(), vec![c.fri_challenges.fri_pow_response]));
    if with_indices {
        out.push((
            "fri_query_indices".to_string(),
            c.fri_challenges.fri_query_indices.iter().map(|&i| index_term::<F>(i, lde_bits)).collect(),
        ));
    }
    out
}

fn run_plonk<F: VF>(t: &PlonkT<F>, common: &CommonCircuitData<F, 2>) -> ProofChallenges<F, 2> {
    // the query indices go through to_canonical_u64
    let old = if F::SYMBOLIC { crate::set_placeholders(true) } else { false };
    let r = t.proof.get_challenges(t.pih, &t.digest, common);
    if F::SYMBOLIC {
        crate::set_placeholders(old);
    }
    r.expect("get_challenges")
}

/// grinding bits of the plonk variants (a variant without grinding is run as well: a transcript
/// that skips the proof-of-work witness "when no grinding is configured" leaves it unbound)
static PLONK_POW_BITS: core::sync::atomic::AtomicU32 = core::sync::atomic::AtomicU32::new(3);

fn small_common<F: VF>(lookups: bool, num_challenges: usize) -> CommonCircuitData<F, 2> {
    let mut config = CircuitConfig::standard_recursion_config();
    config.num_challenges = num_challenges;
    config.zero_knowledge = false;
    let pow = PLONK_POW_BITS.load(core::sync::atomic::Ordering::Relaxed);
    config.security_bits = 6 + pow as usize; // = num_query_rounds * rate_bits + proof_of_work_bits (build() checks it)
    config.fri_config = FriConfig {
        rate_bits: 3,
        cap_height: 1,
        proof_of_work_bits: pow,
        reduction_strategy: FriReductionStrategy::Fixed(vec![1, 1]),
        num_query_rounds: 2,
    };
    let mut b = CircuitBuilder::<F, 2>::new(config);
    let x = b.add_virtual_target();
    let y = b.add_virtual_target();
    let z = b.mul(x, y);
    b.register_public_input(z);
    let mut common = b.build::<F::Cfg>().common;
    if lookups {
        // shape of a circuit with one lookup table: one (Z, next Z) pair per lookup polynomial
        common.num_lookup_polys = 3;
        common.num_lookup_selectors = 1;
    }
    common
}

fn set_big_degree<F: VF>(common: &mut CommonCircuitData<F, 2>) {
    common.fri_params.degree_bits = BIG_DEGREE_BITS;
}

fn rep_positions(all: &[PPos], thorough: bool) -> Vec<PPos> {
    if thorough || all.len() <= 2 {
        return all.to_vec();
    }
    vec![all[0], all[all.len() - 1]]
}

fn plonk_variant<F: VF>(ctx: &mut Ctx, vname: &str, lookups: bool, num_challenges: usize) {
    let idp = format!("C04.S.transcript.plonk.{vname}");
    let th = ctx.thorough();
    ctx.guarded(&idp.clone(), PLONK_FILES, |ctx| {
        reset::<F>();
        let mut common = small_common::<F>(lookups, num_challenges);
        // query indices are `challenge mod lde_size`: run with a huge degree so that the challenge
        // behind every index stays visible (degree_bits is just one more observed constant)
        let mut base = PlonkT::<F>::symbolic(&common);
        set_big_degree::<F>(&mut common);
        let lde_bits = common.fri_params.degree_bits + common.config.fri_config.rate_bits;
        let comps = plonk_components::<F>(&mut base);
        let c0 = run_plonk::<F>(&base, &common);
        let groups = plonk_groups::<F>(&c0, lde_bits, true);
        let n_groups = groups.len();
        let bounds = format!(
            "circuit built by the real CircuitBuilder (num_challenges {num_challenges}, cap_height 1, Fixed([1,1]), 2 query rounds, lookups: {lookups}; degree_bits overridden to {BIG_DEGREE_BITS}); circuit digest, public-input hash and every proof element a distinct symbol ({} scalars in {} components)",
            comps.iter().map(|c| c.2.len()).sum::<usize>(),
            comps.len()
        );
        let order: Vec<String> = comps.iter().map(|(n, g, _)| format!("{n} -> {}", groups[*g].0)).collect();

        // shape: as many challenges as the configuration asks for
        ctx.add(
            Ob::new(format!("{idp}.shape"), PLONK_FILES, bounds.clone())
                .sample("numbers of betas, gammas, alphas, deltas, FRI betas and query indices are those of the configuration")
                .goals(vec![
                    A::Bool(c0.plonk_betas.len() == num_challenges && c0.plonk_gammas.len() == num_challenges && c0.plonk_alphas.len() == num_challenges),
                    A::Bool(c0.plonk_deltas.len() == if lookups { 4 * num_challenges } else { 0 }),
                    A::Bool(c0.fri_challenges.fri_betas.len() == common.fri_params.reduction_arity_bits.len()),
                    A::Bool(c0.fri_challenges.fri_query_indices.len() == common.config.fri_config.num_query_rounds),
                ])
                .key("transcript:plonk:shape"),
        );

        // Ob4.2: no challenge mentions a component that follows it in the protocol order
        for (gi, (gname, lanes)) in groups.iter().enumerate() {
            let mut ok = true;
            let mut bad = vec![];
            if F::SYMBOLIC {
                for (cname, first, poss) in &comps {
                    if *first > gi {
                        for p in poss {
                            let s = base.at(*p, None);
                            if lanes.iter().any(|l| F::mentions(*l, s)) {
                                ok = false;
                                bad.push(format!("{cname}:{p:?}"));
                            }
                        }
                    }
                }
            }
            ctx.add(
                Ob::new(format!("{idp}.not-after.g{gi}"), PLONK_FILES, bounds.clone())
                    .sample(format!(
                        "the term of challenge group {gi} ({gname}) contains no symbol of a component sent after it (protocol order: {}){}",
                        order.join("; "),
                        if bad.is_empty() { String::new() } else { format!(" -- mentions {}", bad.join(", ")) }
                    ))
                    .goal(A::Bool(ok))
                    .key("transcript:plonk:challenge-depends-on-later-message"),
            );
        }

        // Ob4.1: every component influences every challenge drawn after it
        let delta = F::var("delta");
        for (cname, first, poss) in &comps {
            // quick: first and last scalar of the component against the next challenge group,
            // fri_pow_response and the query indices (first and last lane);
            // thorough: every scalar against those, first/last scalar against every later group
            // and every lane
            let reps = rep_positions(poss, false);
            for p in rep_positions(poss, th) {
                let full = th && reps.contains(&p);
                let mut t2 = base.clone_();
                t2.at(p, Some(delta));
                let c1 = run_plonk::<F>(&t2, &common);
                let groups1 = plonk_groups::<F>(&c1, lde_bits, true);
                let targets: Vec<usize> = if full {
                    (*first..n_groups).collect()
                } else {
                    let mut v = vec![*first, n_groups - 2, n_groups - 1];
                    v.dedup();
                    v
                };
                for gi in targets {
                    let (gname, lanes0) = &groups[gi];
                    let lanes1 = &groups1[gi].1;
                    let lane_ids: Vec<usize> = if full || lanes0.len() <= 2 { (0..lanes0.len()).collect() } else { vec![0, lanes0.len() - 1] };
                    for li in lane_ids {
                        ctx.add(
                            Ob::new(format!("{idp}.dep.{p:?}.g{gi}.l{li}").replace(' ', ""), PLONK_FILES, bounds.clone())
                                .sample(format!(
                                    "{gname}[{li}](t) == {gname}[{li}](t[{cname} {p:?} += delta])  ==>  delta == 0"
                                ))
                                .assume(IDEAL)
                                .hyps(same_challenge::<F>(lanes0[li], lanes1[li]))
                                .goal(eq(delta, F::ZERO))
                                .key(format!("transcript:plonk:not-absorbed:{cname}")),
                        );
                    }
                }
            }
        }

        // statement parameters: every FRI / degree parameter changes every challenge
        let mut params: Vec<(&str, Box<dyn Fn(&mut CommonCircuitData<F, 2>)>)> = vec![
            ("rate_bits", Box::new(|c| { c.fri_params.config.rate_bits += 1; c.config.fri_config.rate_bits += 1; })),
            ("cap_height", Box::new(|c| { c.fri_params.config.cap_height += 1; c.config.fri_config.cap_height += 1; })),
            ("proof_of_work_bits", Box::new(|c| { c.fri_params.config.proof_of_work_bits += 1; c.config.fri_config.proof_of_work_bits += 1; })),
            ("num_query_rounds", Box::new(|c| { c.fri_params.config.num_query_rounds += 1; c.config.fri_config.num_query_rounds += 1; })),
            ("reduction_strategy", Box::new(|c| {
                c.fri_params.config.reduction_strategy = FriReductionStrategy::Fixed(vec![1, 2]);
                c.config.fri_config.reduction_strategy = FriReductionStrategy::Fixed(vec![1, 2]);
            })),
            ("reduction_strategy_kind", Box::new(|c| {
                c.fri_params.config.reduction_strategy = FriReductionStrategy::ConstantArityBits(1, 1);
                c.config.fri_config.reduction_strategy = FriReductionStrategy::ConstantArityBits(1, 1);
            })),
            ("hiding", Box::new(|c| c.fri_params.hiding = !c.fri_params.hiding)),
            ("degree_bits", Box::new(|c| c.fri_params.degree_bits += 1)),
            ("reduction_arity_bits", Box::new(|c| c.fri_params.reduction_arity_bits[1] += 1)),
        ];
        for (pname, f) in params.drain(..) {
            let mut c2 = common.clone();
            f(&mut c2);
            let lde2 = c2.fri_params.degree_bits + c2.config.fri_config.rate_bits;
            let c1 = run_plonk::<F>(&base, &c2);
            let groups1 = plonk_groups::<F>(&c1, lde2, true);
            let mut goals = vec![];
            let mut n = 0;
            for (g0, g1) in groups.iter().zip(groups1.iter()) {
                for (a, b) in g0.1.iter().zip(g1.1.iter()) {
                    goals.push(differs::<F>(*a, *b));
                    n += 1;
                }
            }
            ctx.add(
                Ob::new(format!("{idp}.param.{pname}"), PLONK_FILES, bounds.clone())
                    .sample(format!("changing FRI/degree parameter `{pname}` of the common circuit data (same proof, same digest) changes every one of the {n} challenges"))
                    .assume(IDEAL)
                    .goals(goals)
                    .key(format!("transcript:plonk:parameter-not-absorbed:{pname}")),
            );
        }

        // the public inputs enter through their hash: perturbing one public input changes the
        // first and the last challenge (pih := real get_public_inputs_hash of symbolic inputs)
        let mut tp = base.clone_();
        tp.proof.public_inputs = vars::<F>("pi", 3);
        tp.pih = tp.proof.get_public_inputs_hash();
        let cp0 = run_plonk::<F>(&tp, &common);
        let gp0 = plonk_groups::<F>(&cp0, lde_bits, true);
        for k in 0..3 {
            let mut tq = tp.clone_();
            tq.proof.public_inputs[k] += delta;
            tq.pih = tq.proof.get_public_inputs_hash();
            let cp1 = run_plonk::<F>(&tq, &common);
            let gp1 = plonk_groups::<F>(&cp1, lde_bits, true);
            for gi in [0, n_groups - 1] {
                ctx.add(
                    Ob::new(format!("{idp}.dep.PublicInput({k}).g{gi}"), PLONK_FILES, bounds.clone())
                        .sample(format!("{}[0] unchanged when public input {k} += delta (hash recomputed by get_public_inputs_hash)  ==>  delta == 0", gp0[gi].0))
                        .assume(IDEAL)
                        .hyps(same_challenge::<F>(gp0[gi].1[0], gp1[gi].1[0]))
                        .goal(eq(delta, F::ZERO))
                        .key("transcript:plonk:not-absorbed:public_inputs"),
                );
            }
        }
    });
}

fn plonk_obs<F: VF>(ctx: &mut Ctx) {
    plonk_variant::<F>(ctx, "c2", false, 2);
    plonk_variant::<F>(ctx, "c2-lookup", true, 2);
    PLONK_POW_BITS.store(0, core::sync::atomic::Ordering::Relaxed);
    plonk_variant::<F>(ctx, "c2-pow0", false, 2);
    PLONK_POW_BITS.store(3, core::sync::atomic::Ordering::Relaxed);
    if ctx.thorough() {
        plonk_variant::<F>(ctx, "c1", false, 1);
        plonk_variant::<F>(ctx, "c3-lookup", true, 3);
    }
}

// ------------------------------------------------------------------------------------------
// C04: starky `StarkProofWithPublicInputs::get_challenges`
// ------------------------------------------------------------------------------------------

const STARK_FILES: &[&str] = &[
    "starky/src/get_challenges.rs::get_challenges",
    "starky/src/get_challenges.rs::get_dummy_polys",
    "starky/src/get_challenges.rs::StarkProof::get_challenges",
    "starky/src/get_challenges.rs::StarkProofWithPublicInputs::get_challenges",
    "starky/src/config.rs::StarkConfig::observe",
    "starky/src/proof.rs::StarkProof::recover_degree_bits",
    "starky/src/proof.rs::StarkOpeningSet::to_fri_openings",
    "starky/src/lookup.rs::get_grand_product_challenge_set",
    "starky/src/vanishing_poly.rs::compute_eval_vanishing_poly",
    "plonky2/src/fri/challenges.rs::Challenger::fri_challenges",
    "plonky2/src/fri/mod.rs::FriConfig::observe",
];

/// Two-column Fibonacci STARK with three public inputs (the constraints of starky's own
/// `FibonacciStark`, which is test-only): enough for `get_challenges`, which evaluates the
/// constraints on dummy challenge values and absorbs the result.
#[derive(Copy, Clone)]
struct MiniStark<F: VF>(PhantomData<F>);

impl<F: VF> Stark<F, 2> for MiniStark<F> {
    type EvaluationFrame<FE, P, const D2: usize>
        = StarkFrame<P, P::Scalar, 2, 3>
    where
        FE: FieldExtension<D2, BaseField = F>,
        P: PackedField<Scalar = FE>;
    type EvaluationFrameTarget = StarkFrame<ExtensionTarget<2>, ExtensionTarget<2>, 2, 3>;

    fn eval_packed_generic<FE, P, const D2: usize>(
        &self,
        vars: &Self::EvaluationFrame<FE, P, D2>,
        yield_constr: &mut ConstraintConsumer<P>,
    ) where
        FE: FieldExtension<D2, BaseField = F>,
        P: PackedField<Scalar = FE>,
    {
        let local_values = vars.get_local_values();
        let next_values = vars.get_next_values();
        let public_inputs = vars.get_public_inputs();
        yield_constr.constraint_first_row(local_values[0] - public_inputs[0]);
        yield_constr.constraint_first_row(local_values[1] - public_inputs[1]);
        yield_constr.constraint_last_row(local_values[1] - public_inputs[2]);
        yield_constr.constraint_transition(next_values[0] - local_values[1]);
        yield_constr.constraint_transition(next_values[1] - local_values[0] - local_values[1]);
    }

    fn eval_ext_circuit(
        &self,
        _builder: &mut CircuitBuilder<F, 2>,
        _vars: &Self::EvaluationFrameTarget,
        _yield_constr: &mut RecursiveConstraintConsumer<F, 2>,
    ) {
        unimplemented!("the recursive evaluator is not part of this obligation")
    }

    fn constraint_degree(&self) -> usize {
        2
    }
}

#[derive(Clone, Copy, Debug, PartialEq, Eq)]
enum SPos {
    PublicInput(usize),
    TraceCap(usize, usize),
    AuxCap(usize, usize),
    QuotCap(usize, usize),
    /// (vector 0 local, 1 next, 2 aux, 3 aux_next, 4 quotient; index; limb)
    Open(usize, usize, usize),
    CtlZsFirst(usize),
    CommitCap(usize, usize, usize),
    FinalPoly(usize, usize),
    Pow,
}

const STARK_DEGREE_BITS: usize = 32;
/// emit the obligation "the lookup challenges depend on the (prover-supplied) degree"
const STARK_DEGREE_OBLIGATION: bool = true;

fn stark_config(num_challenges: usize) -> StarkConfig {
    StarkConfig::new(
        9,
        num_challenges,
        FriConfig {
            rate_bits: 3,
            cap_height: 1,
            proof_of_work_bits: 3,
            reduction_strategy: FriReductionStrategy::Fixed(vec![1, 1]),
            num_query_rounds: 2,
        },
    )
}

type StarkT<F> = StarkProofWithPublicInputs<F, <F as VF>::Cfg, 2>;

/// every element a distinct symbol. The only part of the query rounds `get_challenges` looks at
/// is the length of the first Merkle path (degree_bits is recovered from it).
fn stark_symbolic<F: VF>(config: &StarkConfig, aux: bool, degree_bits: usize) -> StarkT<F> {
    let caph = config.fri_config.cap_height;
    let ch = config.num_challenges;
    let path_len = degree_bits + config.fri_config.rate_bits - caph;
    let openings = StarkOpeningSet {
        local_values: sym_exts::<F>("o_local", 2),
        next_values: sym_exts::<F>("o_next", 2),
        auxiliary_polys: aux.then(|| sym_exts::<F>("o_aux", 2)),
        auxiliary_polys_next: aux.then(|| sym_exts::<F>("o_auxnext", 2)),
        ctl_zs_first: aux.then(|| vars::<F>("o_ctlfirst", 1)),
        quotient_polys: Some(sym_exts::<F>("o_quot", ch)),
    };
    let round = FriQueryRound {
        initial_trees_proof: FriInitialTreeProof {
            evals_proofs: vec![(vec![], MerkleProof { siblings: vec![HashOut::ZERO; path_len] })],
        },
        steps: vec![],
    };
    let opening_proof = FriProof {
        commit_phase_merkle_caps: (0..2).map(|s| sym_cap::<F>(&format!("ccap{s}"), caph)).collect(),
        query_round_proofs: vec![round],
        final_poly: PolynomialCoeffs::new(sym_exts::<F>("final", 2)),
        pow_witness: F::var("pow_witness"),
    };
    StarkProofWithPublicInputs {
        proof: StarkProof {
            trace_cap: sym_cap::<F>("trace_cap", caph),
            auxiliary_polys_cap: aux.then(|| sym_cap::<F>("aux_cap", caph)),
            quotient_polys_cap: Some(sym_cap::<F>("quot_cap", caph)),
            openings,
            opening_proof,
        },
        public_inputs: vars::<F>("pi", 3),
    }
}

fn stark_at<F: VF>(t: &mut StarkT<F>, pos: SPos, d: Option<F>) -> F {
    fn scalar<F: VF>(x: &mut F, d: Option<F>) -> F {
        let old = *x;
        if let Some(d) = d {
            *x += d;
        }
        old
    }
    fn ext<F: VF>(x: &mut Ext<F>, limb: usize, d: Option<F>) -> F {
        let mut a = x.to_basefield_array();
        let old = a[limb];
        if let Some(d) = d {
            a[limb] += d;
            *x = ext_of::<F>(a[0], a[1]);
        }
        old
    }
    let p = &mut t.proof;
    match pos {
        SPos::PublicInput(i) => scalar(&mut t.public_inputs[i], d),
        SPos::TraceCap(k, l) => scalar(&mut p.trace_cap.0[k].elements[l], d),
        SPos::AuxCap(k, l) => scalar(&mut p.auxiliary_polys_cap.as_mut().unwrap().0[k].elements[l], d),
        SPos::QuotCap(k, l) => scalar(&mut p.quotient_polys_cap.as_mut().unwrap().0[k].elements[l], d),
        SPos::Open(v, i, l) => {
            let o = &mut p.openings;
            let vec = match v {
                0 => &mut o.local_values,
                1 => &mut o.next_values,
                2 => o.auxiliary_polys.as_mut().unwrap(),
                3 => o.auxiliary_polys_next.as_mut().unwrap(),
                _ => o.quotient_polys.as_mut().unwrap(),
            };
            ext::<F>(&mut vec[i], l, d)
        }
        SPos::CtlZsFirst(i) => scalar(&mut p.openings.ctl_zs_first.as_mut().unwrap()[i], d),
        SPos::CommitCap(s, k, l) => scalar(&mut p.opening_proof.commit_phase_merkle_caps[s].0[k].elements[l], d),
        SPos::FinalPoly(i, l) => ext::<F>(&mut p.opening_proof.final_poly.coeffs[i], l, d),
        SPos::Pow => scalar(&mut p.opening_proof.pow_witness, d),
    }
}

/// (name, first challenge group drawn after it, positions). Groups (returned challenges only; the
/// internal binding challenges alphas', dummy zetas, zeta' are drawn between the auxiliary cap and
/// stark_alphas and reach the output only through the absorbed constraint evaluations):
///   [0 lookup betas/gammas, only with an auxiliary cap] | stark_alphas | stark_zeta | fri_alpha |
///   fri_beta_i | fri_pow_response | query indices
fn stark_components(aux: bool, num_challenges: usize) -> Vec<(String, usize, Vec<SPos>)> {
    let caps = |f: &dyn Fn(usize, usize) -> SPos| -> Vec<SPos> {
        let mut v = vec![];
        for k in 0..2 {
            for l in 0..4 {
                v.push(f(k, l));
            }
        }
        v
    };
    let a = aux as usize;
    let mut out = vec![
        ("public_inputs".to_string(), 0, (0..3).map(SPos::PublicInput).collect()),
        ("trace_cap".to_string(), 0, caps(&SPos::TraceCap)),
    ];
    if aux {
        out.push(("auxiliary_polys_cap".to_string(), 1, caps(&SPos::AuxCap)));
    }
    out.push(("quotient_polys_cap".to_string(), a + 1, caps(&SPos::QuotCap)));
    let names = ["local_values", "next_values", "auxiliary_polys", "auxiliary_polys_next", "quotient_polys"];
    for v in 0..5 {
        if !aux && (v == 2 || v == 3) {
            continue;
        }
        let mut ps = vec![];
        for i in 0..(if v == 4 { num_challenges } else { 2 }) {
            ps.push(SPos::Open(v, i, 0));
            ps.push(SPos::Open(v, i, 1));
        }
        out.push((format!("openings.{}", names[v]), a + 2, ps));
    }
    if aux {
        out.push(("openings.ctl_zs_first".to_string(), a + 2, vec![SPos::CtlZsFirst(0)]));
    }
    for s in 0..2 {
        out.push((format!("commit_phase_merkle_caps[{s}]"), a + 3 + s, caps(&|k, l| SPos::CommitCap(s, k, l))));
    }
    out.push(("final_poly".to_string(), a + 5, (0..4).map(|j| SPos::FinalPoly(j / 2, j % 2)).collect()));
    out.push(("pow_witness".to_string(), a + 5, vec![SPos::Pow]));
    out
}

fn stark_groups<F: VF>(c: &StarkProofChallenges<F, 2>, lde_bits: usize) -> Vec<(String, Vec<F>)> {
    let mut out = vec![];
    if let Some(set) = &c.lookup_challenge_set {
        let mut v = vec![];
        for ch in &set.challenges {
            v.push(ch.beta);
            v.push(ch.gamma);
        }
        out.push(("lookup_challenge_set".to_string(), v));
    }
    out.push(("stark_alphas".to_string(), c.stark_alphas.clone()));
    out.push(("stark_zeta".to_string(), limbs::<F>(c.stark_zeta).to_vec()));
    out.push(("fri_alpha".to_string(), limbs::<F>(c.fri_challenges.fri_alpha).to_vec()));
    for (i, b) in c.fri_challenges.fri_betas.iter().enumerate() {
        out.push((format!("fri_betas[{i}]"), limbs::<F>(*b).to_vec()));
    }
    out.push(("fri_pow_response".to_string(), vec![c.fri_challenges.fri_pow_response]));
    out.push((
        "fri_query_indices".to_string(),
        c.fri_challenges.fri_query_indices.iter().map(|&i| index_term::<F>(i, lde_bits)).collect(),
    ));
    out
}

fn run_stark<F: VF>(t: &StarkT<F>, config: &StarkConfig) -> StarkProofChallenges<F, 2> {
    // query indices go through to_canonical_u64; the Lagrange denominators n(x-1), n(gx-1) at the
    // binding point are inverted: their zero-tests are taken as non-zero (path hypotheses)
    // (the assumptions are local to this run and dropped afterwards: the inverted terms never
    // reach a query, and having fewer hypotheses is the safe direction)
    let old = if F::SYMBOLIC {
        let saved = crate::with(|a| (core::mem::take(&mut a.path), core::mem::take(&mut a.assumed_ne)));
        Some((crate::set_placeholders(true), crate::set_unknown(crate::Unknown::AssumeNe), saved))
    } else {
        None
    };
    let mut challenger = Challenger::<F, H>::new();
    let r = t.get_challenges(&MiniStark::<F>(PhantomData), &mut challenger, None, None, false, config, None);
    if let Some((p, u, saved)) = old {
        crate::set_placeholders(p);
        crate::set_unknown(u);
        crate::with(|a| {
            a.path = saved.0;
            a.assumed_ne = saved.1;
        });
    }
    r
}

fn stark_variant<F: VF>(ctx: &mut Ctx, vname: &str, aux: bool, num_challenges: usize) {
    let idp = format!("C04.S.transcript.stark.{vname}");
    let th = ctx.thorough();
    ctx.guarded(&idp.clone(), STARK_FILES, |ctx| {
        reset::<F>();
        let config = stark_config(num_challenges);
        let lde_bits = STARK_DEGREE_BITS + config.fri_config.rate_bits;
        let mut base = stark_symbolic::<F>(&config, aux, STARK_DEGREE_BITS);
        let comps = stark_components(aux, num_challenges);
        let c0 = run_stark::<F>(&base, &config);
        let groups = stark_groups::<F>(&c0, lde_bits);
        let n_groups = groups.len();
        let bounds = format!(
            "two-column Fibonacci STARK, 3 public inputs, num_challenges {num_challenges}, cap_height 1, 2 commit-phase caps, 2 query rounds, auxiliary cap/openings: {aux}, degree_bits {STARK_DEGREE_BITS} (from the Merkle path length); public inputs and every proof element a distinct symbol ({} scalars in {} components)",
            comps.iter().map(|c| c.2.len()).sum::<usize>(),
            comps.len()
        );
        let order: Vec<String> = comps.iter().map(|(n, g, _)| format!("{n} -> {}", groups[*g].0)).collect();
        ctx.add(
            Ob::new(format!("{idp}.shape"), STARK_FILES, bounds.clone())
                .sample("numbers of lookup challenges, alphas, FRI betas and query indices are those of the configuration")
                .goals(vec![
                    A::Bool(c0.lookup_challenge_set.as_ref().map_or(!aux, |s| aux && s.challenges.len() == num_challenges)),
                    A::Bool(c0.stark_alphas.len() == num_challenges),
                    A::Bool(c0.fri_challenges.fri_betas.len() == 2),
                    A::Bool(c0.fri_challenges.fri_query_indices.len() == config.fri_config.num_query_rounds),
                ])
                .key("transcript:stark:shape"),
        );
        // Ob4.2
        for (gi, (gname, lanes)) in groups.iter().enumerate() {
            let mut bad = vec![];
            if F::SYMBOLIC {
                for (cname, first, poss) in &comps {
                    if *first > gi {
                        for p in poss {
                            let s = stark_at::<F>(&mut base, *p, None);
                            if lanes.iter().any(|l| F::mentions(*l, s)) {
                                bad.push(format!("{cname}:{p:?}"));
                            }
                        }
                    }
                }
            }
            ctx.add(
                Ob::new(format!("{idp}.not-after.g{gi}"), STARK_FILES, bounds.clone())
                    .sample(format!(
                        "the term of challenge group {gi} ({gname}) contains no symbol of a component sent after it (protocol order: {}){}",
                        order.join("; "),
                        if bad.is_empty() { String::new() } else { format!(" -- mentions {}", bad.join(", ")) }
                    ))
                    .goal(A::Bool(bad.is_empty()))
                    .key("transcript:stark:challenge-depends-on-later-message"),
            );
        }
        // Ob4.1
        let delta = F::var("delta");
        for (cname, first, poss) in &comps {
            let reps: Vec<SPos> = if poss.len() <= 2 { poss.clone() } else { vec![poss[0], poss[poss.len() - 1]] };
            for p in if th { poss.clone() } else { reps.clone() } {
                let full = th && reps.contains(&p);
                let mut t2 = base.clone();
                stark_at::<F>(&mut t2, p, Some(delta));
                let c1 = run_stark::<F>(&t2, &config);
                let groups1 = stark_groups::<F>(&c1, lde_bits);
                let targets: Vec<usize> = if full {
                    (*first..n_groups).collect()
                } else {
                    let mut v = vec![*first, n_groups - 2, n_groups - 1];
                    v.dedup();
                    v
                };
                for gi in targets {
                    let (gname, lanes0) = &groups[gi];
                    let lanes1 = &groups1[gi].1;
                    let lane_ids: Vec<usize> = if full || lanes0.len() <= 2 { (0..lanes0.len()).collect() } else { vec![0, lanes0.len() - 1] };
                    for li in lane_ids {
                        ctx.add(
                            Ob::new(format!("{idp}.dep.{p:?}.g{gi}.l{li}").replace(' ', ""), STARK_FILES, bounds.clone())
                                .sample(format!("{gname}[{li}](t) == {gname}[{li}](t[{cname} {p:?} += delta])  ==>  delta == 0"))
                                .assume(IDEAL)
                                .assume("only the directly absorbed elements are used: equalities between the absorbed constraint evaluations (algebraic in earlier challenges) are dropped from the hypotheses")
                                .hyps(same_challenge::<F>(lanes0[li], lanes1[li]))
                                .goal(eq(delta, F::ZERO))
                                .key(format!("transcript:stark:not-absorbed:{cname}")),
                        );
                    }
                }
            }
        }
        // configuration parameters (the Merkle path is re-sized so that the recovered degree stays)
        let mut params: Vec<(&str, Box<dyn Fn(&mut StarkConfig)>)> = vec![
            ("security_bits", Box::new(|c| c.security_bits += 1)),
            ("num_challenges", Box::new(|c| c.num_challenges += 1)),
            ("rate_bits", Box::new(|c| c.fri_config.rate_bits += 1)),
            ("cap_height", Box::new(|c| c.fri_config.cap_height += 1)),
            ("proof_of_work_bits", Box::new(|c| c.fri_config.proof_of_work_bits += 1)),
            ("num_query_rounds", Box::new(|c| c.fri_config.num_query_rounds += 1)),
            ("reduction_strategy", Box::new(|c| c.fri_config.reduction_strategy = FriReductionStrategy::Fixed(vec![1, 2]))),
            ("reduction_strategy_kind", Box::new(|c| c.fri_config.reduction_strategy = FriReductionStrategy::ConstantArityBits(1, 1))),
        ];
        let with_path = |t: &StarkT<F>, len: usize| -> StarkT<F> {
            let mut t2 = t.clone();
            t2.proof.opening_proof.query_round_proofs[0].initial_trees_proof.evals_proofs[0].1.siblings = vec![HashOut::ZERO; len];
            t2
        };
        for (pname, f) in params.drain(..) {
            let mut c2 = config.clone();
            f(&mut c2);
            let lde2 = STARK_DEGREE_BITS + c2.fri_config.rate_bits;
            let t2 = with_path(&base, lde2 - c2.fri_config.cap_height);
            let c1 = run_stark::<F>(&t2, &c2);
            let groups1 = stark_groups::<F>(&c1, lde2);
            let mut goals = vec![];
            let mut n = 0;
            for (g0, g1) in groups.iter().zip(groups1.iter()) {
                for (a, b) in g0.1.iter().zip(g1.1.iter()) {
                    goals.push(differs::<F>(*a, *b));
                    n += 1;
                }
            }
            ctx.add(
                Ob::new(format!("{idp}.param.{pname}"), STARK_FILES, bounds.clone())
                    .sample(format!("changing `{pname}` of the StarkConfig (same proof elements, same public inputs, same degree) changes every one of the {n} challenges"))
                    .assume(IDEAL)
                    .goals(goals)
                    .key(format!("transcript:stark:parameter-not-absorbed:{pname}")),
            );
        }
        // The degree is not a configuration field: the verifier recovers it from the length of
        // the first Merkle path of the proof. It reaches the transcript only through the absorbed
        // constraint evaluations (L_0, L_last, Z_last at the binding point), i.e. from
        // stark_alphas on and only algebraically; the lookup challenges drawn before that cannot
        // depend on it. Stated for the first challenge group of the variant with auxiliary
        // polynomials.
        if aux && STARK_DEGREE_OBLIGATION {
            let t2 = with_path(&base, lde_bits - 1 - config.fri_config.cap_height);
            let c1 = run_stark::<F>(&t2, &config);
            let groups1 = stark_groups::<F>(&c1, lde_bits - 1);
            let goals: Vec<A> = groups[0].1.iter().zip(groups1[0].1.iter()).map(|(a, b)| differs::<F>(*a, *b)).collect();
            ctx.add(
                Ob::new(format!("{idp}.param.degree_bits.g0"), STARK_FILES, bounds.clone())
                    .sample(format!(
                        "degree_bits {STARK_DEGREE_BITS} -> {} (Merkle path one sibling shorter; everything else identical) changes the lookup challenges (betas, gammas)",
                        STARK_DEGREE_BITS - 1
                    ))
                    .assume(IDEAL)
                    .goals(goals)
                    .key("transcript:stark:parameter-not-absorbed:degree_bits"),
            );
        }
    });
}

fn stark_obs<F: VF>(ctx: &mut Ctx) {
    stark_variant::<F>(ctx, "plain", false, 2);
    stark_variant::<F>(ctx, "aux", true, 2);
    if ctx.thorough() {
        stark_variant::<F>(ctx, "aux-c1", true, 1);
    }
}

pub fn family<F: VF>(ctx: &mut Ctx) {
    hash_obs::<F>(ctx);
    challenger_obs::<F>(ctx);
    layer_obs::<F>(ctx);
    partial_rounds_obs::<F>(ctx);
    plonk_obs::<F>(ctx);
    stark_obs::<F>(ctx);
}
