//! C07 (and the gate part of C01/C02/C06): every built-in gate's own generators against its own
//! constraints, single-value perturbation, and the four evaluators in lock-step.
use plonky2::gates::arithmetic_base::ArithmeticGate;
use plonky2::gates::arithmetic_extension::ArithmeticExtensionGate;
use plonky2::gates::base_sum::BaseSumGate;
use plonky2::gates::constant::ConstantGate;
use plonky2::gates::coset_interpolation::CosetInterpolationGate;
use plonky2::gates::exponentiation::ExponentiationGate;
use plonky2::gates::gate::Gate;
use plonky2::gates::multiplication_extension::MulExtensionGate;
use plonky2::gates::noop::NoopGate;
use plonky2::gates::poseidon::PoseidonGate;
use plonky2::gates::poseidon_mds::PoseidonMdsGate;
use plonky2::gates::public_input::PublicInputGate;
use plonky2::gates::random_access::RandomAccessGate;
use plonky2::gates::reducing::ReducingGate;
use plonky2::gates::reducing_extension::ReducingExtensionGate;
use plonky2::hash::hash_types::{HashOut, HashOutTarget};
use plonky2::iop::generator::{generate_partial_witness, GeneratedValues};
use plonky2::iop::target::Target;
use plonky2::iop::witness::{PartialWitness, PartitionWitness, Witness, WitnessWrite};
use plonky2::plonk::circuit_builder::CircuitBuilder;
use plonky2::plonk::circuit_data::CircuitConfig;
use plonky2::plonk::vars::{EvaluationTargets, EvaluationVars, EvaluationVarsBaseBatch};
use plonky2_field::extension::{Extendable, FieldExtension};

use crate::ctx::{def, eq, eqz_factored, Ctx, Ob, A, VF};

type Ext<F> = <F as Extendable<2>>::Extension;

fn ext_of<F: VF>(a: F, b: F) -> Ext<F> {
    <Ext<F> as FieldExtension<2>>::from_basefield_array([a, b])
}
fn emb<F: VF>(a: F) -> Ext<F> {
    ext_of::<F>(a, F::ZERO)
}
fn limbs<F: VF>(x: Ext<F>) -> [F; 2] {
    x.to_basefield_array()
}

pub struct Spec {
    /// concrete values for integer-valued input wires: (column, value)
    pub concrete: Vec<(usize, u64)>,
    /// use cut points at every generator-written wire
    pub cut: bool,
    /// skip the in-circuit evaluator comparison (too large)
    pub skip_circuit: bool,
    pub file: &'static str,
}

/// Run the gate's own generators on a one-row partition witness. Inputs (watched, unset wires)
/// are symbols `w<col>` (or the concrete values of the spec). Returns (row values, written cols).
fn honest_row<F: VF, Gt: Gate<F, 2>>(gate: &Gt, consts: &[F], spec: &Spec) -> (Vec<F>, Vec<usize>, Vec<usize>) {
    let nw = gate.num_wires();
    let rep: Vec<usize> = (0..nw).collect();
    let mut pw = PartitionWitness::<F>::new(nw, 1, &rep);
    let gens = gate.generators(0, consts);
    // "routed constants": the builder copies constant i into wire j (CircuitBuilder::constant)
    for (ci, wi) in gate.extra_constant_wires() {
        pw.set_target(Target::wire(0, wi), consts[ci]).unwrap();
    }
    let mut done = vec![false; gens.len()];
    // routed-constant wires are written by the builder's ConstantGenerator
    let mut written: Vec<usize> = gate.extra_constant_wires().iter().map(|(_, w)| *w).collect();
    let mut inputs: Vec<usize> = vec![];
    let val = |col: usize| -> F {
        for (c, v) in &spec.concrete {
            if *c == col {
                return F::from_canonical_u64(*v);
            }
        }
        F::var(&format!("w{}", col))
    };
    loop {
        let mut progress = false;
        for (gi, g) in gens.iter().enumerate() {
            if done[gi] {
                continue;
            }
            let mut buf = GeneratedValues::empty();
            if g.0.run(&pw, &mut buf) {
                done[gi] = true;
                progress = true;
                for (t, v) in buf.target_values {
                    if let Target::Wire(w) = t {
                        if !written.contains(&w.column) {
                            written.push(w.column);
                        }
                    }
                    pw.set_target(t, v).expect("generator conflict");
                }
            }
        }
        if done.iter().all(|d| *d) {
            break;
        }
        if !progress {
            let mut seeded = false;
            for (gi, g) in gens.iter().enumerate() {
                if done[gi] {
                    continue;
                }
                for t in g.0.watch_list() {
                    if pw.try_get_target(t).is_none() {
                        if let Target::Wire(w) = t {
                            pw.set_target(t, val(w.column)).unwrap();
                            inputs.push(w.column);
                            seeded = true;
                        }
                    }
                }
                if seeded {
                    break;
                }
            }
            assert!(seeded, "generators stuck");
        }
    }
    let row: Vec<F> = (0..nw)
        .map(|j| pw.try_get_target(Target::wire(0, j)).unwrap_or_else(|| F::var(&format!("free{}", j))))
        .collect();
    (row, written, inputs)
}

fn eval_row<F: VF, Gt: Gate<F, 2>>(gate: &Gt, consts: &[F], row: &[F], pih: &HashOut<F>) -> Vec<Ext<F>> {
    let wires: Vec<Ext<F>> = row.iter().map(|v| emb::<F>(*v)).collect();
    let cext: Vec<Ext<F>> = consts.iter().map(|c| emb::<F>(*c)).collect();
    let vars = EvaluationVars { local_constants: &cext, local_wires: &wires, public_inputs_hash: pih };
    gate.eval_unfiltered(vars)
}

fn pih<F: VF>() -> HashOut<F> {
    HashOut { elements: [F::var("pi0"), F::var("pi1"), F::var("pi2"), F::var("pi3")] }
}

pub fn gate_obs<F: VF, Gt: Gate<F, 2>>(ctx: &mut Ctx, name: &str, gate: Gt, spec: Spec) {
    let idp = format!("C07.S.{}", name);
    let file = spec.file;
    ctx.guarded(&idp.clone(), &[file], move |ctx| gate_obs_inner::<F, Gt>(ctx, name, gate, spec));
}

fn gate_obs_inner<F: VF, Gt: Gate<F, 2>>(ctx: &mut Ctx, name: &str, gate: Gt, spec: Spec) {
    let idp = format!("C07.S.{}", name);
    if F::SYMBOLIC {
        crate::reset();
    }
    let file = spec.file;
    let nc = gate.num_constants();
    let consts: Vec<F> = (0..nc).map(|i| F::var(&format!("c{}", i))).collect();
    let pi = pih::<F>();
    let (row, written, inputs) = honest_row(&gate, &consts, &spec);
    let params = format!("{} (wires={}, constants={}, constraints={}, inputs={:?}, concrete={:?})",
        gate.id(), gate.num_wires(), nc, gate.num_constraints(), inputs.len(), spec.concrete);

    // cut points at generator-written wires
    let (row_c, defs): (Vec<F>, Vec<F>) = if spec.cut {
        let wvals: Vec<F> = written.iter().map(|&j| row[j]).collect();
        let (syms, defs) = F::cut(&wvals, "s");
        let mut r = row.clone();
        let mut d = row.clone();
        for (k, &j) in written.iter().enumerate() {
            r[j] = syms[k];
            d[j] = defs[k];
        }
        (r, d)
    } else {
        (row.clone(), row.clone())
    };
    // definitional hypotheses s_j == T_j^cut of every cut symbol that `terms` mention (one level)
    let def_hyps_for = |terms: &[F], always: &[usize]| -> Vec<A> {
        if !spec.cut {
            return vec![];
        }
        let mut out = vec![];
        for &j in &written {
            if row_c[j].to_op() == defs[j].to_op() {
                continue;
            }
            if always.contains(&j) || terms.iter().any(|t| F::mentions(*t, row_c[j])) {
                out.push(def(row_c[j], defs[j]));
            }
        }
        out
    };

    if written.is_empty() && gate.num_constraints() > 0 {
        assert!(gate.num_wires() >= 4 && gate.num_constraints() == 4, "generator-less gate other than PublicInputGate");
        // no generators (PublicInputGate): the wires are filled through copy constraints; the
        // constraints must pin every wire to the public-input hash
        let cs = eval_row(&gate, &consts, &row_c, &pi);
        let mut hyps = vec![];
        for c in &cs {
            let l = limbs::<F>(*c);
            hyps.push(eq(l[0], F::ZERO));
            hyps.push(eq(l[1], F::ZERO));
        }
        let goals: Vec<A> = (0..4).map(|i| eq(row_c[i], pi.elements[i])).collect();
        ctx.add(
            Ob::new(format!("{idp}.pins-public-input-hash"), &[file], format!("all wire values, all hashes; {params}"))
                .sample("all constraints == 0  ==>  wire_i == public_inputs_hash[i] (i < 4)".to_string())
                .hyps(hyps)
                .goals(goals)
                .goal(A::Bool(cs.len() == gate.num_constraints()))
                .key(format!("{}:unpinned-wire", gate_kind(name))),
        );
    } else {
        // --- Ob7.1 honest row satisfies every constraint; count matches the declaration
        let cs = eval_row(&gate, &consts, &row_c, &pi);
        if !spec.cut {
            let mut goals = vec![A::Bool(cs.len() == gate.num_constraints())];
            for c in &cs {
                let l = limbs::<F>(*c);
                goals.push(eq(l[0], F::ZERO));
                goals.push(eq(l[1], F::ZERO));
            }
            ctx.add(
                Ob::new(format!("{idp}.honest"), &[file], format!("all field values of the inputs; {params}"))
                    .sample(format!("row := {name}.generators(inputs); forall inputs: eval_unfiltered(row) == 0 (all {} constraints)", cs.len()))
                    .goals(goals)
                    .key(format!("{}:honest-row", gate_kind(name))),
            );
        } else {
            // cut points: one query per constraint, over the wire symbols it mentions
            for (m, c) in cs.iter().enumerate() {
                let l = limbs::<F>(*c);
                ctx.add(
                    Ob::new(format!("{idp}.honest.c{m}"), &[file], format!("all field values of the inputs; cut points at the {} generator-written wires; {params}", written.len()))
                        .sample(format!("wires mentioned by constraint {m} := their generator definitions  ==>  constraint {m} == 0"))
                        .hyps(def_hyps_for(&l, &[]))
                        .goals(vec![eq(l[0], F::ZERO), eq(l[1], F::ZERO), A::Bool(cs.len() == gate.num_constraints())])
                        .key(format!("{}:honest-row", gate_kind(name))),
                );
            }
        }
    }

    // --- Ob7.2 single-value perturbation of each generator-written wire
    if gate.num_constraints() > 0 {
        let delta = F::var("delta");
        for &j in &written {
            let mut r2 = row_c.clone();
            r2[j] = row_c[j] + delta;
            let cs2 = eval_row(&gate, &consts, &r2, &pi);
            let mut chyps = vec![];
            let mut terms = vec![];
            let mut used = 0;
            for c in &cs2 {
                let l = limbs::<F>(*c);
                if !spec.cut || F::mentions(l[0], r2[j]) || F::mentions(l[1], r2[j]) {
                    chyps.push(eqz_factored(l[0]));
                    chyps.push(eqz_factored(l[1]));
                    terms.push(l[0]);
                    terms.push(l[1]);
                    used += 1;
                }
            }
            let mut hyps = def_hyps_for(&terms, &[j]);
            hyps.extend(chyps);
            ctx.add(
                Ob::new(format!("{idp}.pin.w{j}"), &[file], format!("all inputs, all delta != 0; {params}"))
                    .sample(format!("row[{j}] += delta, delta != 0  ==>  some constraint of {name} is non-zero ({used} constraints mention the wire)"))
                    .hyps(hyps)
                    .goal(eq(delta, F::ZERO))
                    .domain()
                    .key(format!("{}:unpinned-wire", gate_kind(name))),
            );
        }
    }

    // --- Ob7.2' joint determinism: all generated wires replaced at once (small gates)
    // (base-sum gates with more than 4 limbs are left to the single-wire pins: the joint query
    // case-splits over every limb's range product, 2^8 branches and more, and did not get a solver
    // verdict within the thorough tier's cap on a loaded machine)
    let many_limbs = name.starts_with("BaseSumGate") && written.len() > 4;
    if gate.num_constraints() > 0 && !spec.cut && !written.is_empty() && written.len() <= 48 && !many_limbs {
        let mut r2 = row_c.clone();
        let mut ds = vec![];
        for &j in &written {
            let d = F::var(&format!("delta{j}"));
            r2[j] = row_c[j] + d;
            ds.push(d);
        }
        let cs2 = eval_row(&gate, &consts, &r2, &pi);
        let mut hyps = vec![];
        for c in &cs2 {
            let l = limbs::<F>(*c);
            hyps.push(eqz_factored(l[0]));
            hyps.push(eqz_factored(l[1]));
        }
        ctx.add(
            Ob::new(format!("{idp}.determined"), &[file], format!("all inputs, all simultaneous replacements of the {} generated wires; {params}", written.len()))
                .sample(format!("every generated wire w replaced by w + delta_w; all constraints of {name} == 0  ==>  every delta_w == 0"))
                .hyps(hyps)
                .goals(ds.iter().map(|d| eq(*d, F::ZERO)).collect())
                .domain()
                .key(format!("{}:under-constrained", gate_kind(name))),
        );
    }

    // --- Ob7.3 evaluator lock-step on fully symbolic rows
    if F::SYMBOLIC {
        crate::reset();
    }
    let nw = gate.num_wires();
    let pi = pih::<F>();
    {
        // base batch (sizes 1 and 3) vs extension evaluator on base-embedded rows
        for bs in [1usize, 3] {
            let mut lw = vec![F::ZERO; nw * bs];
            let mut lc = vec![F::ZERO; nc * bs];
            for i in 0..bs {
                for j in 0..nw {
                    lw[j * bs + i] = F::var(&format!("b{i}w{j}"));
                }
                for j in 0..nc {
                    lc[j * bs + i] = F::var(&format!("b{i}c{j}"));
                }
            }
            let batch = EvaluationVarsBaseBatch::new(bs, &lc, &lw, &pi);
            let res = gate.eval_unfiltered_base_batch(batch);
            let ncons = gate.num_constraints();
            let mut goals = vec![A::Bool(res.len() == ncons * bs)];
            for i in 0..bs {
                let row: Vec<F> = (0..nw).map(|j| lw[j * bs + i]).collect();
                let cst: Vec<F> = (0..nc).map(|j| lc[j * bs + i]).collect();
                let ext = eval_row(&gate, &cst, &row, &pi);
                goals.push(A::Bool(ext.len() == ncons));
                for (k, e) in ext.iter().enumerate() {
                    let l = limbs::<F>(*e);
                    if k * bs + i < res.len() {
                        goals.push(eq(res[k * bs + i], l[0]));
                    }
                    goals.push(eq(l[1], F::ZERO));
                }
            }
            ctx.add(
                Ob::new(format!("{idp}.lockstep.base_batch{bs}"), &[file], format!("all base-field rows, batch size {bs}; {params}"))
                    .sample(format!("eval_unfiltered_base_batch(rows)[k*{bs}+i] == eval_unfiltered(embed(row_i))[k]"))
                    .goals(goals)
                    .key(format!("{}:base-evaluator-differs", gate_kind(name))),
            );
        }
    }
    if !spec.skip_circuit {
        // in-circuit evaluator vs extension evaluator on extension-valued rows
        let wires: Vec<Ext<F>> = (0..nw).map(|j| F::ext(&format!("xw{j}"))).collect();
        let cext: Vec<Ext<F>> = (0..nc).map(|j| F::ext(&format!("xc{j}"))).collect();
        let vars = EvaluationVars { local_constants: &cext, local_wires: &wires, public_inputs_hash: &pi };
        let native = gate.eval_unfiltered(vars);

        let mut config = CircuitConfig::standard_recursion_config();
        config.num_wires = config.num_wires.max(nw);
        let mut b = CircuitBuilder::<F, 2>::new(config);
        let wt = b.add_virtual_extension_targets(nw);
        let ct = b.add_virtual_extension_targets(nc);
        let pt = b.add_virtual_hash();
        let out = gate.eval_unfiltered_circuit(
            &mut b,
            EvaluationTargets { local_constants: &ct, local_wires: &wt, public_inputs_hash: &pt },
        );
        let data = b.build::<F::Cfg>();
        let mut pw = PartialWitness::<F>::new();
        for (t, v) in wt.iter().zip(&wires) {
            pw.set_extension_target(*t, *v).unwrap();
        }
        for (t, v) in ct.iter().zip(&cext) {
            pw.set_extension_target(*t, *v).unwrap();
        }
        pw.set_hash_target(pt, pi).unwrap();
        let wit = generate_partial_witness(pw, &data.prover_only, &data.common).expect("witness generation");
        let mut goals = vec![A::Bool(out.len() == native.len()), A::Bool(native.len() == gate.num_constraints())];
        for (t, n) in out.iter().zip(&native) {
            let v = limbs::<F>(wit.get_extension_target(*t));
            let l = limbs::<F>(*n);
            goals.push(eq(v[0], l[0]));
            goals.push(eq(v[1], l[1]));
        }
        core::mem::forget(wit);
        ctx.add(
            Ob::new(format!("{idp}.lockstep.circuit"), &[file, "plonky2/src/iop/generator.rs::generate_partial_witness"],
                format!("all extension-field rows; in-circuit evaluator run through the real builder + generators; {params}"))
                .sample("value(eval_unfiltered_circuit(targets)) == eval_unfiltered(values) for every constraint".to_string())
                .goals(goals)
                .key(format!("{}:circuit-evaluator-differs", gate_kind(name))),
        );
    }
    let _ = HashOutTarget::from_vec;
}

fn ra_gate<F: VF>(copies: usize, bits: usize, extra: usize) -> RandomAccessGate<F, 2> {
    let vec = 1usize << bits;
    assert!(extra < 2 + vec);
    let mut config = CircuitConfig::standard_recursion_config();
    config.num_routed_wires = (2 + vec) * copies + extra;
    config.num_wires = ((2 + vec + bits) * copies).max(config.num_routed_wires);
    config.num_constants = extra;
    let g = RandomAccessGate::<F, 2>::new_from_config(&config, bits);
    assert_eq!((g.num_copies, g.num_extra_constants), (copies, extra));
    g
}

fn gate_kind(name: &str) -> String {
    name.split('-').next().unwrap_or(name).to_string()
}

pub fn family<F: VF>(ctx: &mut Ctx) {
    let th = ctx.thorough();
    let s = |file: &'static str| Spec { concrete: vec![], cut: false, skip_circuit: false, file };
    // arithmetic
    for n in if th { vec![1usize, 2, 7, 20] } else { vec![1, 20] } {
        gate_obs::<F, _>(ctx, &format!("ArithmeticGate-{n}"), ArithmeticGate { num_ops: n }, s("plonky2/src/gates/arithmetic_base.rs::ArithmeticGate"));
    }
    for n in if th { vec![1usize, 3, 10] } else { vec![1, 10] } {
        gate_obs::<F, _>(ctx, &format!("ArithmeticExtensionGate-{n}"), ArithmeticExtensionGate::<2> { num_ops: n }, s("plonky2/src/gates/arithmetic_extension.rs::ArithmeticExtensionGate"));
    }
    for n in if th { vec![1usize, 4, 13] } else { vec![1, 13] } {
        gate_obs::<F, _>(ctx, &format!("MulExtensionGate-{n}"), MulExtensionGate::<2> { num_ops: n }, s("plonky2/src/gates/multiplication_extension.rs::MulExtensionGate"));
    }
    for n in if th { vec![1usize, 2, 4] } else { vec![2] } {
        gate_obs::<F, _>(ctx, &format!("ConstantGate-{n}"), ConstantGate::new(n), s("plonky2/src/gates/constant.rs::ConstantGate"));
    }
    gate_obs::<F, _>(ctx, "NoopGate", NoopGate, s("plonky2/src/gates/noop.rs::NoopGate"));
    gate_obs::<F, _>(ctx, "PublicInputGate", PublicInputGate, s("plonky2/src/gates/public_input.rs::PublicInputGate"));
    for n in if th { vec![1usize, 2, 10] } else { vec![1, 10] } {
        gate_obs::<F, _>(ctx, &format!("ReducingGate-{n}"), ReducingGate::<2>::new(n), s("plonky2/src/gates/reducing.rs::ReducingGate"));
    }
    for n in if th { vec![1usize, 2, 5] } else { vec![1, 5] } {
        gate_obs::<F, _>(ctx, &format!("ReducingExtensionGate-{n}"), ReducingExtensionGate::<2>::new(n), s("plonky2/src/gates/reducing_extension.rs::ReducingExtensionGate"));
    }
    // base sum: the generator decomposes a concrete sum (structure parameter), contents concrete
    fn base_sum<F: VF, const B: usize>(ctx: &mut Ctx, limbs: usize, sums: &[u64]) {
        for &sum in sums {
            gate_obs::<F, _>(
                ctx,
                &format!("BaseSumGate-B{B}-L{limbs}-sum{sum}"),
                BaseSumGate::<B>::new(limbs),
                Spec { concrete: vec![(plonky2::verif_hooks::base_sum_wire_sum::<B>(), sum)], cut: false, skip_circuit: sum != sums[0], file: "plonky2/src/gates/base_sum.rs::BaseSumGate" },
            );
        }
    }
    base_sum::<F, 2>(ctx, 1, &[0, 1]);
    base_sum::<F, 2>(ctx, 3, &[0, 5, 7]);
    base_sum::<F, 3>(ctx, 2, &[0, 5, 8]);
    base_sum::<F, 4>(ctx, 2, &[0, 7, 15]);
    if th {
        base_sum::<F, 2>(ctx, 8, &[0, 129, 255]);
        base_sum::<F, 2>(ctx, 63, &[0, (1u64 << 63) - 1, 0x5555_5555_5555_5555 & ((1u64 << 63) - 1)]);
        base_sum::<F, 3>(ctx, 3, &[0, 13, 26]);
        base_sum::<F, 4>(ctx, 3, &[0, 27, 63]);
    }
    // exponentiation: power bits enumerated, base symbolic
    for bits in if th { vec![1usize, 2, 3, 8] } else { vec![1, 3] } {
        let g0 = ExponentiationGate::<F, 2>::new(bits);
        let pows: Vec<u64> = if bits <= 3 { (0..(1u64 << bits)).collect() } else { vec![0, 1, 0xa5, 0xff] };
        for (pi, p) in pows.iter().enumerate() {
            let conc: Vec<(usize, u64)> = (0..bits).map(|i| (plonky2::verif_hooks::exponentiation_wire_power_bit(&g0, i), (p >> i) & 1)).collect();
            gate_obs::<F, _>(
                ctx,
                &format!("ExponentiationGate-{bits}-pow{p}"),
                ExponentiationGate::<F, 2>::new(bits),
                Spec { concrete: conc, cut: false, skip_circuit: pi != 0, file: "plonky2/src/gates/exponentiation.rs::ExponentiationGate" },
            );
        }
    }
    // random access: index enumerated, list symbolic
    for (bits, copies, extra) in if th { vec![(1usize, 1usize, 0usize), (2, 2, 2), (3, 1, 1)] } else { vec![(1, 1, 0), (2, 2, 2)] } {
        for idx in 0..(1u64 << bits) {
            let g0 = ra_gate::<F>(copies, bits, extra);
            let conc: Vec<(usize, u64)> = (0..copies).map(|c| (plonky2::verif_hooks::random_access_wire_access_index(&g0, c), (idx + c as u64) % (1 << bits))).collect();
            gate_obs::<F, _>(
                ctx,
                &format!("RandomAccessGate-b{bits}c{copies}e{extra}-idx{idx}"),
                ra_gate::<F>(copies, bits, extra),
                Spec { concrete: conc, cut: false, skip_circuit: idx != 0, file: "plonky2/src/gates/random_access.rs::RandomAccessGate" },
            );
        }
    }
    // coset interpolation
    for sb in if th { vec![1usize, 2, 3] } else { vec![1, 2] } {
        gate_obs::<F, _>(
            ctx,
            &format!("CosetInterpolationGate-{sb}"),
            CosetInterpolationGate::<F, 2>::new(sb),
            Spec { concrete: vec![], cut: true, skip_circuit: false, file: "plonky2/src/gates/coset_interpolation.rs::CosetInterpolationGate" },
        );
    }
    // poseidon mds / poseidon (cut points at every generated wire)
    gate_obs::<F, _>(ctx, "PoseidonMdsGate", PoseidonMdsGate::<F, 2>::new(), Spec { concrete: vec![], cut: false, skip_circuit: false, file: "plonky2/src/gates/poseidon_mds.rs::PoseidonMdsGate" });
    for swap in [0u64, 1] {
        gate_obs::<F, _>(
            ctx,
            &format!("PoseidonGate-swap{swap}"),
            PoseidonGate::<F, 2>::new(),
            Spec { concrete: vec![(plonky2::verif_hooks::poseidon_wire_swap::<F, 2>(), swap)], cut: true, skip_circuit: swap != 0, file: "plonky2/src/gates/poseidon.rs::PoseidonGate" },
        );
    }
}
