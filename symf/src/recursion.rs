//! C06 / C20 (arithmetic slice): the in-circuit sub-verifiers of the recursion circuits against
//! their native twins.  Every in-circuit function is built with the real `CircuitBuilder`, the
//! real `build()`, the library's own witness-assignment routines and the real
//! `generate_partial_witness` on symbolic inputs; the value of the output target is compared with
//! the native function on the same symbols (for all values).
//!
//!  1. (Ob6.1) `eval_vanishing_poly_circuit` == `eval_vanishing_poly` per challenge index, on the
//!     tiny circuit's common data (everything symbolic, extension field) and on a circuit with
//!     many gate types / selectors; `check_partial_products_circuit`, `eval_l_0_circuit`,
//!     `reduce_with_powers*_circuit`, `ReducingFactorTarget` == native.
//!  2. (Ob6.3) the real (private) `verify_proof_with_challenges` circuit for the tiny circuit's
//!     common data, witness generation in accept-path mode: the copy constraints that involve
//!     only openings / challenges imply the native vanishing identity for EVERY challenge index.
//!  3. (Ob6.2) `fri_combine_initial`, `compute_evaluation`, final-polynomial evaluation,
//!     `get_fri_instance_target`: circuit == native.
//!  4. (Ob20.1) `select_proof_with_pis` / `select_verifier_data` element-wise through
//!     `set_proof_with_pis_target` / `set_verifier_data_target`; `check_cyclic_proof_verifier_data`
//!     Accept <=> trailing public inputs == verifier data, each position pinned.
//!
//! Outside (see `OUTSIDE`): in-circuit hashing / Merkle verification / challenger / proof of work
//! as *checked facts* (they are executed, but their atoms are not used), outer prove / verify.
use plonky2::fri::proof::{
    FriInitialTreeProof, FriInitialTreeProofTarget, FriProof, FriQueryRound, FriQueryStep,
};
use plonky2::fri::reduction_strategies::FriReductionStrategy;
use plonky2::fri::structure::{
    FriBatchInfo, FriBatchInfoTarget, FriInstanceInfo, FriInstanceInfoTarget, FriOpeningBatch,
    FriOpeningBatchTarget, FriOpenings, FriOpeningsTarget, FriOracleInfo, FriPolynomialInfo,
};
use plonky2::fri::{FriConfig, FriParams};
use plonky2::gadgets::polynomial::PolynomialCoeffsExtTarget;
use plonky2::hash::hash_types::{HashOut, HashOutTarget, MerkleCapTarget};
use plonky2::hash::merkle_proofs::{MerkleProof, MerkleProofTarget};
use plonky2::hash::merkle_tree::MerkleCap;
use plonky2::hash::poseidon::PoseidonHash;
use plonky2::iop::ext_target::ExtensionTarget;
use plonky2::iop::generator::generate_partial_witness;
use plonky2::iop::target::{BoolTarget, Target};
use plonky2::iop::witness::{PartialWitness, Witness, WitnessWrite};
use plonky2::plonk::circuit_builder::CircuitBuilder;
use plonky2::plonk::circuit_data::{
    CircuitConfig, CircuitData, CommonCircuitData, VerifierCircuitTarget, VerifierOnlyCircuitData,
};
use plonky2::plonk::plonk_common::{
    reduce_with_powers, reduce_with_powers_circuit, reduce_with_powers_ext_circuit,
};
use plonky2::plonk::proof::{OpeningSet, Proof, ProofWithPublicInputs, ProofWithPublicInputsTarget};
use plonky2::plonk::vars::{EvaluationTargets, EvaluationVars};
use plonky2::recursion::cyclic_recursion::check_cyclic_proof_verifier_data;
use plonky2::util::reducing::{ReducingFactor, ReducingFactorTarget};
use plonky2::verif_hooks as hk;
use plonky2_field::extension::{Extendable, FieldExtension};
use plonky2_field::polynomial::PolynomialCoeffs;
use plonky2_field::types::Field;

use crate::ctx::{eq, eq_ext, Ctx, Ob, A, VF};
use crate::fri::Shape;
use crate::plonk::tiny_circuit;

type Ext<F> = <F as Extendable<2>>::Extension;
type H = PoseidonHash;

const OUTSIDE: &str = "arithmetic slice only: in-circuit hashing, Merkle verification, the recursive challenger, the proof-of-work check and any outer prove/verify of a full recursion circuit (~2^12 rows of Poseidon gates on symbolic states) are outside this engine's reach";

fn ext_of<F: VF>(a: F, b: F) -> Ext<F> {
    <Ext<F> as FieldExtension<2>>::from_basefield_array([a, b])
}
fn emb<F: VF>(a: F) -> Ext<F> {
    ext_of::<F>(a, F::ZERO)
}
fn limbs<F: VF>(x: Ext<F>) -> [F; 2] {
    x.to_basefield_array()
}
/// seeded concrete pseudo-random element (for inputs the obligation holds fixed)
fn chal<F: VF>(seed: u64, k: u64) -> F {
    let mut h = seed.wrapping_mul(0x9E37_79B9_7F4A_7C15) ^ (k.wrapping_add(311)).wrapping_mul(0xD6E8_FEB8_6659_FD93);
    h ^= h >> 31;
    h = h.wrapping_mul(0xBF58_476D_1CE4_E5B9);
    h ^= h >> 29;
    F::from_noncanonical_u64(h)
}

/// A circuit fragment under construction together with the values of its input targets.
struct Cx<F: VF> {
    b: CircuitBuilder<F, 2>,
    pw: PartialWitness<F>,
}

impl<F: VF> Cx<F> {
    fn new() -> Self {
        Cx { b: CircuitBuilder::<F, 2>::new(CircuitConfig::standard_recursion_config()), pw: PartialWitness::new() }
    }
    fn t(&mut self, v: F) -> Target {
        let t = self.b.add_virtual_target();
        self.pw.set_target(t, v).unwrap();
        t
    }
    fn ts(&mut self, v: &[F]) -> Vec<Target> {
        v.iter().map(|x| self.t(*x)).collect()
    }
    fn e(&mut self, v: Ext<F>) -> ExtensionTarget<2> {
        let t = self.b.add_virtual_extension_target();
        self.pw.set_extension_target(t, v).unwrap();
        t
    }
    fn es(&mut self, v: &[Ext<F>]) -> Vec<ExtensionTarget<2>> {
        v.iter().map(|x| self.e(*x)).collect()
    }
    fn h(&mut self, v: HashOut<F>) -> HashOutTarget {
        let t = self.b.add_virtual_hash();
        self.pw.set_hash_target(t, v).unwrap();
        t
    }
    fn bit(&mut self, v: bool) -> BoolTarget {
        let t = self.b.add_virtual_bool_target_unsafe();
        self.pw.set_bool_target(t, v).unwrap();
        t
    }
    /// real `build`, real witness generation; values of the requested targets
    fn run(self, outs: &[Target]) -> (Vec<F>, usize) {
        let data = self.b.build::<F::Cfg>();
        let wit = F::assume_ne(|| generate_partial_witness(self.pw, &data.prover_only, &data.common)).expect("witness generation");
        let r = outs.iter().map(|t| wit.get_target(*t)).collect();
        core::mem::forget(wit);
        (r, data.common.degree())
    }
    fn run_ext(self, outs: &[ExtensionTarget<2>]) -> (Vec<Ext<F>>, usize) {
        let flat: Vec<Target> = outs.iter().flat_map(|e| e.0).collect();
        let (v, rows) = self.run(&flat);
        (v.chunks(2).map(|c| ext_of::<F>(c[0], c[1])).collect(), rows)
    }
}

fn goals_ext<F: VF>(got: &[Ext<F>], want: &[Ext<F>]) -> Vec<A> {
    let mut g = vec![A::Bool(got.len() == want.len())];
    for (a, b) in got.iter().zip(want) {
        g.extend(eq_ext::<F>(*a, *b));
    }
    g
}

// -------------------------------------------------------------------------------------------
// 1. vanishing polynomial: circuit vs native

const VP_FILES: &[&str] = &[
    "plonky2/src/plonk/vanishing_poly.rs::eval_vanishing_poly_circuit",
    "plonky2/src/plonk/vanishing_poly.rs::evaluate_gate_constraints_circuit",
    "plonky2/src/plonk/vanishing_poly.rs::eval_vanishing_poly",
    "plonky2/src/gates/gate.rs::Gate::eval_filtered_circuit",
    "plonky2/src/util/partial_products.rs::check_partial_products_circuit",
    "plonky2/src/plonk/plonk_common.rs::eval_l_0_circuit",
    "plonky2/src/util/reducing.rs::ReducingFactorTarget::reduce",
    "plonky2/src/gadgets/arithmetic_extension.rs::exp_power_of_2_extension",
    "plonky2/src/recursion/recursive_verifier.rs::verify_proof_with_challenges",
    "plonky2/src/iop/generator.rs::generate_partial_witness",
];

struct Opn<F: VF> {
    constants: Vec<Ext<F>>,
    wires: Vec<Ext<F>>,
    zs: Vec<Ext<F>>,
    zs_next: Vec<Ext<F>>,
    pps: Vec<Ext<F>>,
    sigmas: Vec<Ext<F>>,
    pih: HashOut<F>,
    betas: Vec<F>,
    gammas: Vec<F>,
    alphas: Vec<F>,
    zeta: Ext<F>,
    /// lookup openings and delta challenges (empty for circuits without lookups)
    lzs: Vec<Ext<F>>,
    lzs_next: Vec<Ext<F>>,
    deltas: Vec<F>,
}

/// `ext`: openings are extension symbols (else base symbols, embedded); `fixed_perm`: the
/// permutation-argument inputs that only multiply up term sizes (zeta, betas, gammas, sigmas) are
/// seeded constants.
fn sym_opn<F: VF>(cd: &CommonCircuitData<F, 2>, ext: bool, fixed_perm: bool) -> Opn<F> {
    let e = |n: String| if ext { F::ext(&n) } else { emb::<F>(F::var(&n)) };
    let nch = cd.config.num_challenges;
    let fx = |k: u64| ext_of::<F>(chal::<F>(17, 2 * k), chal::<F>(17, 2 * k + 1));
    Opn {
        constants: (0..cd.num_constants).map(|i| e(format!("c{i}"))).collect(),
        wires: (0..cd.config.num_wires).map(|i| e(format!("w{i}"))).collect(),
        zs: (0..nch).map(|i| e(format!("z{i}"))).collect(),
        zs_next: (0..nch).map(|i| e(format!("zn{i}"))).collect(),
        pps: (0..nch * cd.num_partial_products).map(|i| e(format!("pp{i}"))).collect(),
        sigmas: (0..cd.config.num_routed_wires).map(|i| if fixed_perm { fx(100 + i as u64) } else { e(format!("sg{i}")) }).collect(),
        pih: HashOut { elements: core::array::from_fn(|k| F::var(&format!("pih{k}"))) },
        betas: (0..nch).map(|i| if fixed_perm { chal::<F>(18, i as u64) } else { F::var(&format!("beta{i}")) }).collect(),
        gammas: (0..nch).map(|i| if fixed_perm { chal::<F>(19, i as u64) } else { F::var(&format!("gamma{i}")) }).collect(),
        alphas: (0..nch).map(|i| F::var(&format!("alpha{i}"))).collect(),
        zeta: if fixed_perm { fx(7) } else { F::ext("zeta") },
        lzs: (0..nch * cd.num_lookup_polys).map(|i| e(format!("lz{i}"))).collect(),
        lzs_next: (0..nch * cd.num_lookup_polys).map(|i| e(format!("lzn{i}"))).collect(),
        deltas: if cd.num_lookup_polys == 0 { vec![] } else { (0..4 * nch).map(|i| chal::<F>(23, i as u64)).collect() },
    }
}

struct OpnT {
    constants: Vec<ExtensionTarget<2>>,
    wires: Vec<ExtensionTarget<2>>,
    zs: Vec<ExtensionTarget<2>>,
    zs_next: Vec<ExtensionTarget<2>>,
    pps: Vec<ExtensionTarget<2>>,
    sigmas: Vec<ExtensionTarget<2>>,
    pih: HashOutTarget,
    betas: Vec<Target>,
    gammas: Vec<Target>,
    alphas: Vec<Target>,
    zeta: ExtensionTarget<2>,
    lzs: Vec<ExtensionTarget<2>>,
    lzs_next: Vec<ExtensionTarget<2>>,
    deltas: Vec<Target>,
}

fn opn_targets<F: VF>(cx: &mut Cx<F>, o: &Opn<F>) -> OpnT {
    OpnT {
        constants: cx.es(&o.constants),
        wires: cx.es(&o.wires),
        zs: cx.es(&o.zs),
        zs_next: cx.es(&o.zs_next),
        pps: cx.es(&o.pps),
        sigmas: cx.es(&o.sigmas),
        pih: cx.h(o.pih),
        betas: cx.ts(&o.betas),
        gammas: cx.ts(&o.gammas),
        alphas: cx.ts(&o.alphas),
        zeta: cx.e(o.zeta),
        lzs: cx.es(&o.lzs),
        lzs_next: cx.es(&o.lzs_next),
        deltas: cx.ts(&o.deltas),
    }
}

fn native_vanishing<F: VF>(cd: &CommonCircuitData<F, 2>, o: &Opn<F>) -> Vec<Ext<F>> {
    let vars = EvaluationVars { local_constants: &o.constants, local_wires: &o.wires, public_inputs_hash: &o.pih };
    F::assume_ne(|| hk::eval_vanishing_poly::<F, 2>(cd, o.zeta, vars, &o.zs, &o.zs_next, &o.lzs, &o.lzs_next, &o.pps, &o.sigmas, &o.betas, &o.gammas, &o.alphas, &o.deltas))
}

/// mirrors the head of `CircuitBuilder::verify_proof_with_challenges`
fn circuit_vanishing<F: VF>(cx: &mut Cx<F>, cd: &CommonCircuitData<F, 2>, t: &OpnT) -> Vec<ExtensionTarget<2>> {
    let vars = EvaluationTargets { local_constants: &t.constants, local_wires: &t.wires, public_inputs_hash: &t.pih };
    let zeta_pow_deg = cx.b.exp_power_of_2_extension(t.zeta, cd.degree_bits());
    hk::eval_vanishing_poly_circuit::<F, 2>(&mut cx.b, cd, t.zeta, zeta_pow_deg, vars, &t.zs, &t.zs_next, &t.lzs, &t.lzs_next, &t.pps, &t.sigmas, &t.betas, &t.gammas, &t.alphas, &t.deltas)
}

/// arithmetic + constant + random access + base sum (range check) + Poseidon / public input
pub fn multi_gate_circuit<F: VF>() -> CircuitData<F, F::Cfg, 2> {
    let mut b = CircuitBuilder::<F, 2>::new(CircuitConfig::standard_recursion_config());
    let x = b.add_virtual_target();
    let y = b.add_virtual_target();
    let idx = b.add_virtual_target();
    let xy = b.mul(x, y);
    let c = b.constant(F::from_canonical_u64(7));
    let t = b.mul_add(xy, c, x);
    b.range_check(y, 6);
    let v = b.random_access(idx, vec![x, y, xy, t]);
    b.register_public_input(v);
    b.build::<F::Cfg>()
}

fn vanishing<F: VF>(ctx: &mut Ctx, name: &str, mk: impl Fn() -> CommonCircuitData<F, 2>, ext: bool, fixed_perm: bool) {
    let idp = format!("C06.S.recursion.vanishing.{name}");
    ctx.guarded(&idp.clone(), VP_FILES, |ctx| {
        if F::SYMBOLIC {
            crate::reset();
        }
        let cd = mk();
        let o = sym_opn::<F>(&cd, ext, fixed_perm);
        let native = native_vanishing::<F>(&cd, &o);
        let mut cx = Cx::<F>::new();
        let t = opn_targets::<F>(&mut cx, &o);
        let outs = circuit_vanishing::<F>(&mut cx, &cd, &t);
        let (got, rows) = cx.run_ext(&outs);
        let gates: Vec<String> = cd.gates.iter().map(|g| g.0.id()).collect();
        let bounds = format!(
            "inner common data from the real builder: gates {:?}, {} selector column(s), {} wires ({} routed), quotient degree factor {}, {} challenges, degree 2^{}, lookup tables of {:?} entries; evaluating circuit: standard_recursion_config, {} rows, real generators; openings {}; {}",
            gates, hk::selectors_info_parts(&cd.selectors_info).1.len(), cd.config.num_wires, cd.config.num_routed_wires, cd.quotient_degree_factor, cd.config.num_challenges, cd.degree_bits(), cd.luts.iter().map(|l| l.len()).collect::<Vec<_>>(), rows,
            if ext { "symbolic extension elements" } else { "symbolic base elements (embedded)" },
            if fixed_perm { "alphas, public-input hash symbolic; zeta, betas, gammas, sigma openings fixed to seeded constants" } else { "zeta, betas, gammas, alphas, public-input hash symbolic" }
        );
        for i in 0..cd.config.num_challenges {
            ctx.add(
                Ob::new(format!("{idp}.challenge{i}"), VP_FILES, bounds.clone())
                    .sample(format!("value(eval_vanishing_poly_circuit(targets, zeta, zeta^n := exp_power_of_2_extension)[{i}]) == eval_vanishing_poly(values, zeta)[{i}]"))
                    .assume(OUTSIDE)
                    .goal(A::Bool(got.len() == native.len() && native.len() == cd.config.num_challenges))
                    .goals(if i < got.len() && i < native.len() { eq_ext::<F>(got[i], native[i]) } else { vec![A::Bool(false)] })
                    .key("recursion:vanishing-circuit-differs"),
            );
        }
    });
}

// -------------------------------------------------------------------------------------------
// 2. the real verify_proof_with_challenges circuit: vanishing identity for every challenge index

const ID_FILES: &[&str] = &[
    "plonky2/src/recursion/recursive_verifier.rs::verify_proof_with_challenges",
    "plonky2/src/recursion/recursive_verifier.rs::add_virtual_proof_with_pis",
    "plonky2/src/plonk/vanishing_poly.rs::eval_vanishing_poly_circuit",
    "plonky2/src/plonk/vanishing_poly.rs::eval_vanishing_poly",
    "plonky2/src/fri/recursive_verifier.rs::verify_fri_proof",
    "plonky2/src/iop/witness.rs::set_proof_with_pis_target",
    "plonky2/src/iop/generator.rs::generate_partial_witness",
];

/// does the term DAG of `op` reach one of the `excluded` arena nodes?
fn reaches(op: crate::Op, excluded: &std::collections::HashSet<u32>) -> bool {
    let mut seen = std::collections::HashSet::new();
    let mut stack = vec![op];
    while let Some(o) = stack.pop() {
        if let crate::Op::N(i) = o {
            if excluded.contains(&i) {
                return true;
            }
            if !seen.insert(i) {
                continue;
            }
            match crate::node_of(i) {
                crate::Node::Var(_) => {}
                crate::Node::Add(a, b) | crate::Node::Sub(a, b) | crate::Node::Mul(a, b) => {
                    stack.push(a);
                    stack.push(b);
                }
                crate::Node::Neg(a) | crate::Node::Inv(a) => stack.push(a),
                crate::Node::Perm(_, st) => stack.extend(st),
            }
        }
    }
    false
}

/// `full`: every opening a symbol (large non-linear acceptance atoms); otherwise the constants /
/// sigmas / wires openings are seeded constants, so that the acceptance atoms are linear in the
/// remaining symbols (Z, partial products, quotient chunks, public-input hash)
fn identity<F: VF>(ctx: &mut Ctx, full: bool) {
    let idp = format!("C06.S.recursion.identity.tiny{}", if full { "-full" } else { "" });
    ctx.guarded(&idp.clone(), ID_FILES, |ctx| {
        if F::SYMBOLIC {
            crate::reset();
        }
        let (data, ins) = tiny_circuit::<F>();
        let cd = &data.common;
        let nch = cd.config.num_challenges;
        let mut cx = Cx::<F>::new();
        let pt = cx.b.add_virtual_proof_with_pis(cd);
        let vdt = cx.b.add_virtual_verifier_data(cd.config.fri_config.cap_height);
        // symbolic run: every proof element a symbol, challenges seeded constants; native run: an
        // honest proof from the real prover with its real challenges
        let (p, vd, pih, ch) = if F::SYMBOLIC {
            let mut p = sym_proof_like::<F>(&pt, "p");
            let vd = VerifierOnlyCircuitData::<F::Cfg, 2> { constants_sigmas_cap: sym_cap::<F>("vd.cap", &vdt.constants_sigmas_cap), circuit_digest: sym_hash::<F>("vd.digest") };
            let e2 = |k: u64| ext_of::<F>(chal::<F>(23, 2 * k), chal::<F>(23, 2 * k + 1));
            if !full {
                let o = &mut p.proof.openings;
                for (k, x) in o.constants.iter_mut().chain(o.plonk_sigmas.iter_mut()).chain(o.wires.iter_mut()).enumerate() {
                    *x = e2(1000 + k as u64);
                }
            }
            let ch = plonky2::plonk::proof::ProofChallenges::<F, 2> {
                plonk_betas: (0..nch).map(|i| chal::<F>(20, i as u64)).collect(),
                plonk_gammas: (0..nch).map(|i| chal::<F>(21, i as u64)).collect(),
                plonk_alphas: (0..nch).map(|i| chal::<F>(22, i as u64)).collect(),
                plonk_deltas: vec![],
                plonk_zeta: e2(0),
                fri_challenges: plonky2::fri::proof::FriChallenges {
                    fri_alpha: e2(1),
                    fri_betas: (0..cd.fri_params.reduction_arity_bits.len()).map(|i| e2(2 + i as u64)).collect(),
                    fri_pow_response: F::ZERO,
                    fri_query_indices: (0..cd.config.fri_config.num_query_rounds).map(|q| (5 + 3 * q) % cd.fri_params.lde_size()).collect(),
                },
            };
            (p, vd, sym_hash::<F>("pih"), ch)
        } else {
            let mut pw = PartialWitness::<F>::new();
            pw.set_target(ins[0], F::var("x")).unwrap();
            pw.set_target(ins[1], F::var("y")).unwrap();
            let pwp: ProofWithPublicInputs<F, F::Cfg, 2> = data.prove(pw).expect("honest proof");
            let pih = pwp.get_public_inputs_hash();
            let ch = pwp.get_challenges(pih, &data.verifier_only.circuit_digest, cd).expect("challenges");
            (pwp, data.verifier_only.clone(), pih, ch)
        };
        cx.pw.set_proof_with_pis_target::<F::Cfg, 2>(&pt, &p).expect("set_proof_with_pis_target");
        cx.pw.set_verifier_data_target::<F::Cfg, 2>(&vdt, &vd).expect("set_verifier_data_target");
        let piht = cx.h(pih);
        let (bt, gt, at) = (cx.ts(&ch.plonk_betas), cx.ts(&ch.plonk_gammas), cx.ts(&ch.plonk_alphas));
        let zt = cx.e(ch.plonk_zeta);
        let fct = plonky2::fri::proof::FriChallengesTarget {
            fri_alpha: cx.e(ch.fri_challenges.fri_alpha),
            fri_betas: cx.es(&ch.fri_challenges.fri_betas),
            fri_pow_response: cx.t(ch.fri_challenges.fri_pow_response),
            fri_query_indices: ch.fri_challenges.fri_query_indices.iter().map(|&i| cx.t(F::from_canonical_usize(i))).collect(),
        };
        cx.b.verif_verify_proof_with_challenges::<F::Cfg>(&pt.proof, piht, bt, gt, at, vec![], zt, fct, &vdt, cd);
        let outer = cx.b.build::<F::Cfg>();
        let pw = cx.pw;
        // accept-path mode: every copy-constraint comparison of the witness generation is recorded
        let (ok, atoms) = F::accept(|| generate_partial_witness(pw, &outer.prover_only, &outer.common).map(core::mem::forget));
        // keep the comparisons that speak about openings / challenges only (drop everything that
        // involves a cap, a Merkle path, a leaf, a FRI step or the final polynomial)
        let mut excluded = std::collections::HashSet::new();
        for (l, v) in flat_v::<F>(&p) {
            if !l.starts_with("openings.") {
                if let crate::Op::N(i) = v.to_op() {
                    excluded.insert(i);
                }
            }
        }
        for h in vd.constants_sigmas_cap.0.iter().chain(core::iter::once(&vd.circuit_digest)) {
            for e in h.elements {
                if let crate::Op::N(i) = e.to_op() {
                    excluded.insert(i);
                }
            }
        }
        let total = atoms.len();
        let kept: Vec<(crate::Op, crate::Op)> = atoms.into_iter().filter(|(a, b)| !reaches(*a, &excluded) && !reaches(*b, &excluded)).collect();
        let bounds = format!(
            "the real (private) verify_proof_with_challenges circuit for the tiny circuit's common data ({} challenges, FRI rate_bits {}, cap_height {}, arities {:?}, {} query), standard_recursion_config, {} rows; proof and verifier data assigned by set_proof_with_pis_target / set_verifier_data_target; every proof element a symbol{}, challenges seeded constants; witness generation run in accept-path mode: {} comparisons recorded, of which {} involve openings / public-input hash only",
            nch, cd.config.fri_config.rate_bits, cd.config.fri_config.cap_height, cd.fri_params.reduction_arity_bits, cd.config.fri_config.num_query_rounds, outer.common.degree(),
            if full { "" } else { " except the constants / sigmas / wires openings (seeded constants: the acceptance atoms are then linear in Z, partial-product, quotient openings and the public-input hash)" },
            total, kept.len()
        );
        ctx.add(
            Ob::new(format!("{idp}.accept-path"), ID_FILES, bounds.clone())
                .sample("generate_partial_witness of the recursive verifier circuit reaches Ok on the path where every copy-constraint comparison holds (natively: an honest inner proof from the real prover is accepted); the opening-only comparisons are exactly 2 limbs per challenge index")
                .assume(OUTSIDE)
                .goal(A::Bool(ok))
                .goal(A::Bool(!F::SYMBOLIC || kept.len() == 2 * nch)),
        );
        let acc = A::Accept(ok, kept);
        let o = &p.proof.openings;
        let vars = EvaluationVars { local_constants: &o.constants, local_wires: &o.wires, public_inputs_hash: &pih };
        let v = hk::eval_vanishing_poly::<F, 2>(cd, ch.plonk_zeta, vars, &o.plonk_zs, &o.plonk_zs_next, &[], &[], &o.partial_products, &o.plonk_sigmas, &ch.plonk_betas, &ch.plonk_gammas, &ch.plonk_alphas, &[]);
        let zn = ch.plonk_zeta.exp_power_of_2(cd.degree_bits());
        let zh = zn - Ext::<F>::ONE;
        for i in 0..nch {
            let chunk = &o.quotient_polys[i * cd.quotient_degree_factor..(i + 1) * cd.quotient_degree_factor];
            let mut t = Ext::<F>::ZERO;
            for c in chunk.iter().rev() {
                t = t * zn + *c;
            }
            ctx.add(
                Ob::new(format!("{idp}.challenge{i}"), ID_FILES, bounds.clone())
                    .sample(format!("copy constraints of the recursive verifier circuit that involve openings only  ==>  vanishing_{i}(zeta) == Z_H(zeta) * sum_j t_{{{i},j}}(zeta) zeta^(n j)   (native eval_vanishing_poly on the same openings)"))
                    .assume(OUTSIDE)
                    .assume("challenges held fixed; a violation of this obligation cannot be replayed natively in isolation (the native run accepts only complete honest proofs), it is reported as inconclusive then")
                    .hyp(acc.clone())
                    .goals(eq_ext::<F>(v[i], zh * t))
                    .key("recursion:identity-not-connected-for-every-challenge"),
            );
        }
    });
}

// -------------------------------------------------------------------------------------------
// 1'. small helpers

const HELPER_FILES: &[&str] = &[
    "plonky2/src/util/partial_products.rs::check_partial_products_circuit",
    "plonky2/src/plonk/plonk_common.rs::eval_l_0_circuit",
    "plonky2/src/plonk/plonk_common.rs::reduce_with_powers_circuit",
    "plonky2/src/plonk/plonk_common.rs::reduce_with_powers_ext_circuit",
    "plonky2/src/util/reducing.rs::ReducingFactorTarget::reduce",
    "plonky2/src/util/reducing.rs::ReducingFactorTarget::reduce_base",
    "plonky2/src/util/reducing.rs::ReducingFactorTarget::shift",
    "plonky2/src/gates/reducing.rs::ReducingGate",
    "plonky2/src/gates/reducing_extension.rs::ReducingExtensionGate",
    "plonky2/src/iop/generator.rs::generate_partial_witness",
];

fn helper<F: VF>(ctx: &mut Ctx, name: &str, bounds: &str, sample: &str, key: &str, f: impl FnOnce() -> (Vec<Ext<F>>, Vec<Ext<F>>, usize)) {
    let idp = format!("C06.S.recursion.helper.{name}");
    ctx.guarded(&idp.clone(), HELPER_FILES, |ctx| {
        if F::SYMBOLIC {
            crate::reset();
        }
        let (got, want, rows) = f();
        ctx.add(
            Ob::new(idp.clone(), HELPER_FILES, format!("{bounds}; standard_recursion_config, {rows} rows, real builder + generators"))
                .sample(sample.to_string())
                .goals(goals_ext::<F>(&got, &want))
                .key(format!("recursion:{key}")),
        );
    });
}

fn helpers<F: VF>(ctx: &mut Ctx) {
    let th = ctx.thorough();
    // check_partial_products_circuit
    let cases: Vec<(usize, usize)> = if th { vec![(1, 2), (3, 2), (5, 3), (8, 4), (9, 8), (16, 8), (80, 8)] } else { vec![(3, 2), (5, 3), (9, 8)] };
    for (routed, maxd) in cases {
        helper::<F>(ctx, &format!("check_partial_products.n{routed}d{maxd}"),
            &format!("{routed} numerators/denominators, max degree {maxd}; all values symbolic extension elements"),
            "value(check_partial_products_circuit(targets)[c]) == check_partial_products(values)[c] for every chunk c",
            "partial-products-circuit-differs",
            || {
                let nums: Vec<Ext<F>> = (0..routed).map(|i| F::ext(&format!("num{i}"))).collect();
                let dens: Vec<Ext<F>> = (0..routed).map(|i| F::ext(&format!("den{i}"))).collect();
                let npp = hk::num_partial_products(routed, maxd);
                let pps: Vec<Ext<F>> = (0..npp).map(|i| F::ext(&format!("pp{i}"))).collect();
                let (zx, zgx) = (F::ext("zx"), F::ext("zgx"));
                let want = hk::check_partial_products::<Ext<F>>(&nums, &dens, &pps, zx, zgx, maxd);
                let mut cx = Cx::<F>::new();
                let (nt, dt, pt) = (cx.es(&nums), cx.es(&dens), cx.es(&pps));
                let (zxt, zgxt) = (cx.e(zx), cx.e(zgx));
                let outs = hk::rec_check_partial_products_circuit::<F, 2>(&mut cx.b, &nt, &dt, &pt, zxt, zgxt, maxd);
                let (got, rows) = cx.run_ext(&outs);
                (got, want, rows)
            });
    }
    // eval_l_0_circuit, x^n computed in-circuit as the recursive verifier does
    for bits in if th { vec![0usize, 1, 2, 3, 5, 7] } else { vec![2, 5] } {
        helper::<F>(ctx, &format!("eval_l_0.n2^{bits}"),
            &format!("n = 2^{bits}; x a symbolic extension element (x != 1 taken as hypothesis: the native function branches on it, the circuit version documents the assumption)"),
            "value(eval_l_0_circuit(n, x, exp_power_of_2_extension(x, log n))) == eval_l_0(n, x)",
            "eval-l0-circuit-differs",
            || {
                let x = F::ext("x");
                let want = F::assume_ne(|| hk::eval_l_0::<Ext<F>>(1 << bits, x));
                let mut cx = Cx::<F>::new();
                let xt = cx.e(x);
                let xn = cx.b.exp_power_of_2_extension(xt, bits);
                let out = hk::rec_eval_l_0_circuit::<F, 2>(&mut cx.b, 1 << bits, xt, xn);
                let (got, rows) = cx.run_ext(&[out]);
                (got, vec![want], rows)
            });
    }
    // reduce_with_powers_circuit (both code paths: arithmetic gates / reducing gates)
    for l in if th { vec![0usize, 1, 3, 21, 22, 45, 100] } else { vec![3, 30] } {
        helper::<F>(ctx, &format!("reduce_with_powers.l{l}"),
            &format!("{l} symbolic base terms, symbolic base alpha"),
            "value(reduce_with_powers_circuit(terms, alpha)) == reduce_with_powers(terms, alpha)",
            "reduce-with-powers-circuit-differs",
            || {
                let terms: Vec<F> = (0..l).map(|i| F::var(&format!("t{i}"))).collect();
                let alpha = F::var("alpha");
                let want = reduce_with_powers::<F, _>(terms.iter(), alpha);
                let mut cx = Cx::<F>::new();
                let tt = cx.ts(&terms);
                let at = cx.t(alpha);
                let out = reduce_with_powers_circuit::<F, 2>(&mut cx.b, &tt, at);
                let (got, rows) = cx.run(&[out]);
                (vec![emb::<F>(got[0])], vec![emb::<F>(want)], rows)
            });
    }
    for l in if th { vec![0usize, 1, 4, 11, 12, 40, 80] } else { vec![4, 40] } {
        helper::<F>(ctx, &format!("reduce_with_powers_ext.l{l}"),
            &format!("{l} symbolic extension terms, symbolic base alpha"),
            "value(reduce_with_powers_ext_circuit(terms, alpha)) == reduce_with_powers(terms, alpha)",
            "reduce-with-powers-circuit-differs",
            || {
                let terms: Vec<Ext<F>> = (0..l).map(|i| F::ext(&format!("t{i}"))).collect();
                let alpha = F::var("alpha");
                let want = reduce_with_powers::<Ext<F>, _>(terms.iter(), emb::<F>(alpha));
                let mut cx = Cx::<F>::new();
                let tt = cx.es(&terms);
                let at = cx.t(alpha);
                let out = reduce_with_powers_ext_circuit::<F, 2>(&mut cx.b, &tt, at);
                let (got, rows) = cx.run_ext(&[out]);
                (got, vec![want], rows)
            });
    }
    // ReducingFactorTarget: reduce / reduce_base followed by shift (the count is carried), as in
    // fri_combine_initial; extension alpha for the short shapes, embedded alpha for the long ones
    for (l1, l2, ext_alpha) in if th { vec![(3usize, 2usize, true), (11, 12, true), (13, 5, true), (40, 3, false), (80, 45, false), (0, 4, true)] } else { vec![(3, 2, true), (13, 5, true), (80, 45, false)] } {
        helper::<F>(ctx, &format!("reducing_factor.l{l1}-{l2}{}", if ext_alpha { "" } else { "-base-alpha" }),
            &format!("reduce of {l1} extension terms, shift, reduce_base of {l2} base terms, shift; alpha {}", if ext_alpha { "a symbolic extension element" } else { "a symbolic base element (embedded)" }),
            "ReducingFactorTarget::{reduce, shift, reduce_base, shift, shift(zero)} values == ReducingFactor::{reduce, shift, reduce, shift} on the same inputs",
            "reducing-factor-target-differs",
            || {
                let alpha = if ext_alpha { F::ext("alpha") } else { emb::<F>(F::var("alpha")) };
                let t1: Vec<Ext<F>> = (0..l1).map(|i| F::ext(&format!("s{i}"))).collect();
                let t2: Vec<F> = (0..l2).map(|i| F::var(&format!("t{i}"))).collect();
                let (y1, y2) = (F::ext("y1"), F::ext("y2"));
                let mut r = ReducingFactor::new(alpha);
                let n1 = r.reduce(t1.iter());
                let n2 = r.shift(y1);
                let n3 = r.reduce(t2.iter().map(|x| emb::<F>(*x)));
                let n4 = r.shift(y2);
                let n5 = r.shift(y2);
                let mut cx = Cx::<F>::new();
                let at = cx.e(alpha);
                let (t1t, t2t) = (cx.es(&t1), cx.ts(&t2));
                let (y1t, y2t) = (cx.e(y1), cx.e(y2));
                let mut rt = ReducingFactorTarget::new(at);
                let c1 = rt.reduce(&t1t, &mut cx.b);
                let c2 = rt.shift(y1t, &mut cx.b);
                let c3 = rt.reduce_base(&t2t, &mut cx.b);
                let c4 = rt.shift(y2t, &mut cx.b);
                let c5 = rt.shift(y2t, &mut cx.b);
                let z = cx.b.zero_extension();
                let c6 = rt.shift(z, &mut cx.b);
                let (got, rows) = cx.run_ext(&[c1, c2, c3, c4, c5, c6]);
                (got, vec![n1, n2, n3, n4, n5, Ext::<F>::ZERO], rows)
            });
    }
}

// -------------------------------------------------------------------------------------------
// 3. FRI arithmetic

const FRI_FILES: &[&str] = &[
    "plonky2/src/fri/recursive_verifier.rs::fri_combine_initial",
    "plonky2/src/fri/recursive_verifier.rs::PrecomputedReducedOpeningsTarget::from_os_and_alpha",
    "plonky2/src/fri/recursive_verifier.rs::compute_evaluation",
    "plonky2/src/fri/verifier.rs::fri_combine_initial",
    "plonky2/src/fri/verifier.rs::compute_evaluation",
    "plonky2/src/gadgets/interpolation.rs::interpolate_coset",
    "plonky2/src/gates/coset_interpolation.rs::CosetInterpolationGate",
    "plonky2/src/gadgets/polynomial.rs::PolynomialCoeffsExtTarget::eval_scalar",
    "plonky2/src/gadgets/polynomial.rs::PolynomialCoeffsExtTarget::eval",
    "plonky2/src/plonk/circuit_data.rs::CommonCircuitData::get_fri_instance_target",
    "plonky2/src/util/reducing.rs::ReducingFactorTarget",
    "plonky2/src/iop/generator.rs::generate_partial_witness",
];

fn params_of(sh: &Shape) -> FriParams {
    FriParams {
        config: FriConfig {
            rate_bits: sh.rate_bits,
            cap_height: sh.cap_height,
            proof_of_work_bits: 0,
            reduction_strategy: FriReductionStrategy::Fixed(sh.arity_bits.clone()),
            num_query_rounds: sh.query_indices.len(),
        },
        hiding: false,
        degree_bits: sh.degree_bits,
        reduction_arity_bits: sh.arity_bits.clone(),
    }
}

/// the domain element of a query index, as both verifiers compute it (concrete)
fn subgroup_x_of<F: VF>(lde_bits: usize, x_index: usize) -> F {
    let rev = (0..lde_bits).fold(0usize, |acc, k| acc | (((x_index >> k) & 1) << (lde_bits - 1 - k)));
    F::MULTIPLICATIVE_GROUP_GENERATOR * F::primitive_root_of_unity(lde_bits).exp_u64(rev as u64)
}

struct CombineIn<F: VF> {
    instance: FriInstanceInfo<F, 2>,
    leaves: Vec<Vec<F>>,
    openings: FriOpenings<F, 2>,
    alpha: Ext<F>,
    zeta: Ext<F>,
    x: F,
    params: FriParams,
    sib_len: usize,
}

fn native_combine<F: VF>(c: &CombineIn<F>) -> Ext<F> {
    let proof = FriInitialTreeProof::<F, H> {
        evals_proofs: c.leaves.iter().map(|l| (l.clone(), MerkleProof { siblings: vec![] })).collect(),
    };
    hk::rec_fri_combine_initial::<F, F::Cfg, 2>(&c.instance, &proof, &c.openings, c.alpha, c.x, &c.params)
}

/// `real_instance`: Some(common data) => the instance comes from the real
/// `get_fri_instance_target`; otherwise it is assembled the way that function does.
fn circuit_combine<F: VF>(c: &CombineIn<F>, real_instance: Option<&CommonCircuitData<F, 2>>) -> (Ext<F>, Vec<Ext<F>>, bool, usize) {
    let mut cx = Cx::<F>::new();
    let zt = cx.e(c.zeta);
    let inst: FriInstanceInfoTarget<2> = match real_instance {
        Some(cd) => hk::rec_get_fri_instance_target::<F, 2>(cd, &mut cx.b, zt),
        None => {
            let g = F::primitive_root_of_unity(c.params.degree_bits);
            let zn = cx.b.mul_const_extension(g, zt);
            let pts = [zt, zn];
            FriInstanceInfoTarget {
                oracles: c.instance.oracles.clone(),
                batches: c.instance.batches.iter().enumerate().map(|(i, b)| FriBatchInfoTarget { point: pts[i], polynomials: b.polynomials.clone() }).collect(),
            }
        }
    };
    // structure of the instance agrees with the native one
    let same_structure = inst.oracles.len() == c.instance.oracles.len()
        && inst.oracles.iter().zip(&c.instance.oracles).all(|(a, b)| a.num_polys == b.num_polys && a.blinding == b.blinding)
        && inst.batches.len() == c.instance.batches.len()
        && inst.batches.iter().zip(&c.instance.batches).all(|(a, b)| {
            a.polynomials.len() == b.polynomials.len()
                && a.polynomials.iter().zip(&b.polynomials).all(|(p, q)| p.oracle_index == q.oracle_index && p.polynomial_index == q.polynomial_index)
        });
    let proof = FriInitialTreeProofTarget {
        evals_proofs: c
            .leaves
            .iter()
            .map(|l| (cx.ts(l), MerkleProofTarget { siblings: cx.b.add_virtual_hashes(c.sib_len) }))
            .collect(),
    };
    let openings = FriOpeningsTarget { batches: c.openings.batches.iter().map(|b| FriOpeningBatchTarget { values: cx.es(&b.values) }).collect() };
    let at = cx.e(c.alpha);
    let xt = cx.t(c.x);
    let out = hk::rec_fri_combine_initial_circuit::<F, 2>(&mut cx.b, &inst, &proof, &openings, at, xt, &c.params);
    let mut outs = vec![out];
    outs.extend(inst.batches.iter().map(|b| b.point));
    let (v, rows) = cx.run_ext(&outs);
    (v[0], v[1..].to_vec(), same_structure, rows)
}

fn combine_obs<F: VF>(ctx: &mut Ctx, idp: &str, c: &CombineIn<F>, real: Option<&CommonCircuitData<F, 2>>, desc: &str) {
    let want = F::assume_ne(|| native_combine::<F>(c));
    let (got, pts, same, rows) = circuit_combine::<F>(c, real);
    let bounds = format!("{desc}; every leaf value, opening, alpha and zeta symbolic (extension field where the type is); subgroup_x concrete; evaluating circuit {rows} rows");
    ctx.add(
        Ob::new(format!("{idp}.combine"), FRI_FILES, bounds.clone())
            .sample("value(fri_combine_initial circuit (reduced openings precomputed by from_os_and_alpha)) == native fri_combine_initial")
            .goals(eq_ext::<F>(got, want))
            .key("recursion:fri-combine-initial-circuit-differs"),
    );
    let mut goals = vec![A::Bool(same), A::Bool(pts.len() == c.instance.batches.len())];
    for (p, b) in pts.iter().zip(&c.instance.batches) {
        goals.extend(eq_ext::<F>(*p, b.point));
    }
    ctx.add(
        Ob::new(format!("{idp}.instance"), FRI_FILES, bounds)
            .sample("FriInstanceInfoTarget: same oracles / polynomial lists as the native instance; value(point targets) == [zeta, g*zeta]")
            .goals(goals)
            .key("recursion:fri-instance-target-differs"),
    );
}

fn fri_combine<F: VF>(ctx: &mut Ctx) {
    let th = ctx.thorough();
    for sh in crate::fri::shapes(th) {
        let idp = format!("C06.S.recursion.fri.{}", sh.name);
        ctx.guarded(&idp.clone(), FRI_FILES, |ctx| {
            if F::SYMBOLIC {
                crate::reset();
            }
            let params = params_of(&sh);
            let lde_bits = sh.degree_bits + sh.rate_bits;
            let zeta = F::ext("zeta");
            let g = Ext::<F>::primitive_root_of_unity(sh.degree_bits);
            let pts = [zeta, g * zeta];
            let c = CombineIn::<F> {
                instance: FriInstanceInfo {
                    oracles: sh.oracles.iter().map(|&n| FriOracleInfo { num_polys: n, blinding: false }).collect(),
                    batches: sh.batches.iter().enumerate().map(|(i, b)| FriBatchInfo { point: pts[i], polynomials: b.iter().map(|&(o, p)| FriPolynomialInfo { oracle_index: o, polynomial_index: p }).collect() }).collect(),
                },
                leaves: sh.oracles.iter().enumerate().map(|(o, &n)| (0..n).map(|i| F::var(&format!("leaf{o}_{i}"))).collect()).collect(),
                openings: FriOpenings { batches: sh.batches.iter().enumerate().map(|(b, p)| FriOpeningBatch { values: (0..p.len()).map(|i| F::ext(&format!("open{b}_{i}"))).collect() }).collect() },
                alpha: F::ext("alpha"),
                zeta,
                x: subgroup_x_of::<F>(lde_bits, sh.query_indices[0]),
                params,
                sib_len: lde_bits - sh.cap_height,
            };
            combine_obs::<F>(ctx, &idp, &c, None, &format!("shape {sh:?}"));
        });
    }
    // the tiny circuit's own instance, from the real get_fri_instance / get_fri_instance_target
    let idp = "C06.S.recursion.fri.plonk-tiny".to_string();
    ctx.guarded(&idp.clone(), FRI_FILES, |ctx| {
        if F::SYMBOLIC {
            crate::reset();
        }
        let (data, _) = tiny_circuit::<F>();
        let cd = &data.common;
        let zeta = F::ext("zeta");
        let instance = hk::get_fri_instance::<F, 2>(cd, zeta);
        let nch = cd.config.num_challenges;
        let e = |n: &str, k: usize| -> Vec<Ext<F>> { (0..k).map(|i| F::ext(&format!("{n}{i}"))).collect() };
        let os = OpeningSet::<F, 2> {
            constants: e("oc", cd.num_constants),
            plonk_sigmas: e("osg", cd.config.num_routed_wires),
            wires: e("ow", cd.config.num_wires),
            plonk_zs: e("oz", nch),
            plonk_zs_next: e("ozn", nch),
            partial_products: e("opp", nch * cd.num_partial_products),
            quotient_polys: e("oq", nch * cd.quotient_degree_factor),
            lookup_zs: vec![],
            lookup_zs_next: vec![],
        };
        let lde_bits = cd.degree_bits() + cd.config.fri_config.rate_bits;
        let c = CombineIn::<F> {
            leaves: instance.oracles.iter().enumerate().map(|(o, i)| (0..i.num_polys).map(|k| F::var(&format!("leaf{o}_{k}"))).collect()).collect(),
            instance,
            openings: hk::rec_opening_set_to_fri_openings::<F, 2>(&os),
            alpha: F::ext("alpha"),
            zeta,
            x: subgroup_x_of::<F>(lde_bits, 11 % (1 << lde_bits)),
            params: cd.fri_params.clone(),
            sib_len: lde_bits - cd.config.fri_config.cap_height,
        };
        combine_obs::<F>(ctx, &idp, &c, Some(cd), &format!("FRI instance of the tiny circuit ({} oracles, {} + {} openings) from the real get_fri_instance / get_fri_instance_target, OpeningSet::to_fri_openings", c.instance.oracles.len(), c.instance.batches[0].polynomials.len(), c.instance.batches[1].polynomials.len()));
    });
}

fn fri_compute_evaluation<F: VF>(ctx: &mut Ctx) {
    let th = ctx.thorough();
    for ab in if th { vec![1usize, 2, 3, 4] } else { vec![1, 2, 3] } {
        for idx in 0..(1usize << ab) {
            let idp = format!("C06.S.recursion.fri.compute_evaluation.a{ab}.idx{idx}");
            ctx.guarded(&idp.clone(), FRI_FILES, |ctx| {
                if F::SYMBOLIC {
                    crate::reset();
                }
                let lde_bits = 6;
                let x = subgroup_x_of::<F>(lde_bits, (5 << ab | idx) % (1 << lde_bits));
                let evals: Vec<Ext<F>> = (0..(1 << ab)).map(|i| F::ext(&format!("ev{i}"))).collect();
                let beta = F::ext("beta");
                let want = F::assume_ne(|| hk::rec_compute_evaluation::<F, 2>(x, idx, ab, &evals, beta));
                let mut cx = Cx::<F>::new();
                let xt = cx.t(x);
                let bits: Vec<BoolTarget> = (0..ab).map(|k| cx.bit((idx >> k) & 1 == 1)).collect();
                let et = cx.es(&evals);
                let bt = cx.e(beta);
                let out = hk::rec_compute_evaluation_circuit::<F, 2>(&mut cx.b, xt, &bits, ab, &et, bt);
                let (got, rows) = cx.run_ext(&[out]);
                ctx.add(
                    Ob::new(idp.clone(), FRI_FILES, format!("arity 2^{ab}, x_index_within_coset = {idx} (given in-circuit as its {ab} little-endian bits), x a concrete element of a 2^{lde_bits} coset domain; evaluations and beta symbolic extension elements (beta not one of the interpolation points: the native function branches on it); evaluating circuit {rows} rows"))
                        .sample("value(compute_evaluation circuit (CosetInterpolationGate)) == native compute_evaluation (barycentric interpolation)")
                        .goals(eq_ext::<F>(got[0], want))
                        .key("recursion:compute-evaluation-circuit-differs"),
                );
            });
        }
    }
}

fn fri_final_poly<F: VF>(ctx: &mut Ctx) {
    let th = ctx.thorough();
    for (l, scalar) in if th { vec![(1usize, true), (2, true), (8, true), (12, true), (40, true), (80, true), (1, false), (4, false), (13, false), (24, false)] } else { vec![(2, true), (8, true), (40, true), (4, false), (13, false)] } {
        let idp = format!("C06.S.recursion.fri.final_poly.{}.l{l}", if scalar { "eval_scalar" } else { "eval" });
        ctx.guarded(&idp.clone(), FRI_FILES, |ctx| {
            if F::SYMBOLIC {
                crate::reset();
            }
            let coeffs: Vec<Ext<F>> = (0..l).map(|i| F::ext(&format!("c{i}"))).collect();
            let mut cx = Cx::<F>::new();
            let ct = PolynomialCoeffsExtTarget(cx.es(&coeffs));
            let (out, want) = if scalar {
                let p = F::var("x");
                let pt = cx.t(p);
                (ct.eval_scalar(&mut cx.b, pt), PolynomialCoeffs::new(coeffs.clone()).eval(emb::<F>(p)))
            } else {
                let p = F::ext("x");
                let pt = cx.e(p);
                (ct.eval(&mut cx.b, pt), PolynomialCoeffs::new(coeffs.clone()).eval(p))
            };
            let (got, rows) = cx.run_ext(&[out]);
            ctx.add(
                Ob::new(idp.clone(), FRI_FILES, format!("{l} symbolic extension coefficients, point a symbolic {} element; evaluating circuit {rows} rows", if scalar { "base (as the FRI verifier uses it: subgroup_x)" } else { "extension" }))
                    .sample("value(PolynomialCoeffsExtTarget::eval*(point)) == PolynomialCoeffs::eval(point)")
                    .goals(eq_ext::<F>(got[0], want))
                    .key("recursion:final-poly-eval-circuit-differs"),
            );
        });
    }
}

// -------------------------------------------------------------------------------------------
// 4. conditional / cyclic recursion: selection and the verifier-data check

const SEL_FILES: &[&str] = &[
    "plonky2/src/recursion/conditional_recursive_verifier.rs::select_proof_with_pis",
    "plonky2/src/recursion/conditional_recursive_verifier.rs::select_verifier_data",
    "plonky2/src/recursion/conditional_recursive_verifier.rs::select_opening_set",
    "plonky2/src/recursion/conditional_recursive_verifier.rs::select_opening_proof",
    "plonky2/src/recursion/conditional_recursive_verifier.rs::select_hash",
    "plonky2/src/gadgets/select.rs::select",
    "plonky2/src/gadgets/select.rs::select_ext",
    "plonky2/src/recursion/recursive_verifier.rs::add_virtual_proof_with_pis",
    "plonky2/src/iop/witness.rs::set_proof_with_pis_target",
    "plonky2/src/iop/witness.rs::set_verifier_data_target",
    "plonky2/src/fri/witness_util.rs::set_fri_proof_target",
    "plonky2/src/iop/generator.rs::generate_partial_witness",
];

fn sym_hash<F: VF>(name: &str) -> HashOut<F> {
    HashOut { elements: core::array::from_fn(|k| F::var(&format!("{name}.{k}"))) }
}
fn sym_cap<F: VF>(name: &str, like: &MerkleCapTarget) -> MerkleCap<F, H> {
    MerkleCap((0..like.0.len()).map(|k| sym_hash::<F>(&format!("{name}[{k}]"))).collect())
}
fn sym_exts<F: VF>(name: &str, n: usize) -> Vec<Ext<F>> {
    (0..n).map(|i| F::ext(&format!("{name}[{i}]"))).collect()
}

/// A proof whose every element is a distinct symbol, with the shape of the given target.
fn sym_proof_like<F: VF>(pt: &ProofWithPublicInputsTarget<2>, tag: &str) -> ProofWithPublicInputs<F, F::Cfg, 2> {
    let p = &pt.proof;
    let o = &p.openings;
    let f = &p.opening_proof;
    let openings = OpeningSet::<F, 2> {
        constants: sym_exts::<F>(&format!("{tag}.o.constants"), o.constants.len()),
        plonk_sigmas: sym_exts::<F>(&format!("{tag}.o.sigmas"), o.plonk_sigmas.len()),
        wires: sym_exts::<F>(&format!("{tag}.o.wires"), o.wires.len()),
        plonk_zs: sym_exts::<F>(&format!("{tag}.o.zs"), o.plonk_zs.len()),
        plonk_zs_next: sym_exts::<F>(&format!("{tag}.o.zs_next"), o.plonk_zs_next.len()),
        partial_products: sym_exts::<F>(&format!("{tag}.o.pps"), o.partial_products.len()),
        quotient_polys: sym_exts::<F>(&format!("{tag}.o.quotient"), o.quotient_polys.len()),
        lookup_zs: sym_exts::<F>(&format!("{tag}.o.lookup_zs"), o.lookup_zs.len()),
        lookup_zs_next: sym_exts::<F>(&format!("{tag}.o.lookup_zs_next"), o.next_lookup_zs.len()),
    };
    let merkle = |name: String, m: &MerkleProofTarget| MerkleProof::<F, H> { siblings: (0..m.siblings.len()).map(|l| sym_hash::<F>(&format!("{name}[{l}]"))).collect() };
    let opening_proof = FriProof::<F, H, 2> {
        commit_phase_merkle_caps: f.commit_phase_merkle_caps.iter().enumerate().map(|(s, c)| sym_cap::<F>(&format!("{tag}.f.ccap{s}"), c)).collect(),
        query_round_proofs: f
            .query_round_proofs
            .iter()
            .enumerate()
            .map(|(q, r)| FriQueryRound {
                initial_trees_proof: FriInitialTreeProof {
                    evals_proofs: r.initial_trees_proof.evals_proofs.iter().enumerate().map(|(oi, (l, m))| ((0..l.len()).map(|i| F::var(&format!("{tag}.f.q{q}.leaf{oi}[{i}]"))).collect(), merkle(format!("{tag}.f.q{q}.sib{oi}"), m))).collect(),
                },
                steps: r.steps.iter().enumerate().map(|(s, st)| FriQueryStep { evals: sym_exts::<F>(&format!("{tag}.f.q{q}.step{s}"), st.evals.len()), merkle_proof: merkle(format!("{tag}.f.q{q}.ssib{s}"), &st.merkle_proof) }).collect(),
            })
            .collect(),
        final_poly: PolynomialCoeffs::new(sym_exts::<F>(&format!("{tag}.f.final"), f.final_poly.0.len())),
        pow_witness: F::var(&format!("{tag}.f.pow")),
    };
    ProofWithPublicInputs {
        proof: Proof {
            wires_cap: sym_cap::<F>(&format!("{tag}.wires_cap"), &p.wires_cap),
            plonk_zs_partial_products_cap: sym_cap::<F>(&format!("{tag}.zs_cap"), &p.plonk_zs_partial_products_cap),
            quotient_polys_cap: sym_cap::<F>(&format!("{tag}.quotient_cap"), &p.quotient_polys_cap),
            openings,
            opening_proof,
        },
        public_inputs: (0..pt.public_inputs.len()).map(|i| F::var(&format!("{tag}.pi[{i}]"))).collect(),
    }
}

/// Every target of a proof-with-public-inputs target, labelled by its field path.
fn flat_t(pt: &ProofWithPublicInputsTarget<2>) -> Vec<(String, Target)> {
    let mut out: Vec<(String, Target)> = vec![];
    let hash = |out: &mut Vec<(String, Target)>, n: String, h: &HashOutTarget| {
        for (k, t) in h.elements.iter().enumerate() {
            out.push((format!("{n}.{k}"), *t));
        }
    };
    let cap = |out: &mut Vec<(String, Target)>, n: &str, c: &MerkleCapTarget| {
        for (k, h) in c.0.iter().enumerate() {
            hash(out, format!("{n}[{k}]"), h);
        }
    };
    let exts = |out: &mut Vec<(String, Target)>, n: &str, v: &[ExtensionTarget<2>]| {
        for (i, e) in v.iter().enumerate() {
            out.push((format!("{n}[{i}].0"), e.0[0]));
            out.push((format!("{n}[{i}].1"), e.0[1]));
        }
    };
    let p = &pt.proof;
    cap(&mut out, "wires_cap", &p.wires_cap);
    cap(&mut out, "plonk_zs_partial_products_cap", &p.plonk_zs_partial_products_cap);
    cap(&mut out, "quotient_polys_cap", &p.quotient_polys_cap);
    let o = &p.openings;
    exts(&mut out, "openings.constants", &o.constants);
    exts(&mut out, "openings.plonk_sigmas", &o.plonk_sigmas);
    exts(&mut out, "openings.wires", &o.wires);
    exts(&mut out, "openings.plonk_zs", &o.plonk_zs);
    exts(&mut out, "openings.plonk_zs_next", &o.plonk_zs_next);
    exts(&mut out, "openings.lookup_zs", &o.lookup_zs);
    exts(&mut out, "openings.lookup_zs_next", &o.next_lookup_zs);
    exts(&mut out, "openings.partial_products", &o.partial_products);
    exts(&mut out, "openings.quotient_polys", &o.quotient_polys);
    let f = &p.opening_proof;
    for (s, c) in f.commit_phase_merkle_caps.iter().enumerate() {
        cap(&mut out, &format!("fri.commit_phase_merkle_caps[{s}]"), c);
    }
    for (q, r) in f.query_round_proofs.iter().enumerate() {
        for (oi, (l, m)) in r.initial_trees_proof.evals_proofs.iter().enumerate() {
            for (i, t) in l.iter().enumerate() {
                out.push((format!("fri.query[{q}].initial[{oi}].leaf[{i}]"), *t));
            }
            for (k, h) in m.siblings.iter().enumerate() {
                hash(&mut out, format!("fri.query[{q}].initial[{oi}].sibling[{k}]"), h);
            }
        }
        for (s, st) in r.steps.iter().enumerate() {
            exts(&mut out, &format!("fri.query[{q}].step[{s}].evals"), &st.evals);
            for (k, h) in st.merkle_proof.siblings.iter().enumerate() {
                hash(&mut out, format!("fri.query[{q}].step[{s}].sibling[{k}]"), h);
            }
        }
    }
    exts(&mut out, "fri.final_poly", &f.final_poly.0);
    out.push(("fri.pow_witness".into(), f.pow_witness));
    for (i, t) in pt.public_inputs.iter().enumerate() {
        out.push((format!("public_inputs[{i}]"), *t));
    }
    out
}

/// Every element of a proof with public inputs, labelled by the same field paths as `flat_t`.
fn flat_v<F: VF>(pp: &ProofWithPublicInputs<F, F::Cfg, 2>) -> Vec<(String, F)> {
    let mut out: Vec<(String, F)> = vec![];
    let hash = |out: &mut Vec<(String, F)>, n: String, h: &HashOut<F>| {
        for (k, t) in h.elements.iter().enumerate() {
            out.push((format!("{n}.{k}"), *t));
        }
    };
    let cap = |out: &mut Vec<(String, F)>, n: &str, c: &MerkleCap<F, H>| {
        for (k, h) in c.0.iter().enumerate() {
            hash(out, format!("{n}[{k}]"), h);
        }
    };
    let exts = |out: &mut Vec<(String, F)>, n: &str, v: &[Ext<F>]| {
        for (i, e) in v.iter().enumerate() {
            let l = limbs::<F>(*e);
            out.push((format!("{n}[{i}].0"), l[0]));
            out.push((format!("{n}[{i}].1"), l[1]));
        }
    };
    let p = &pp.proof;
    cap(&mut out, "wires_cap", &p.wires_cap);
    cap(&mut out, "plonk_zs_partial_products_cap", &p.plonk_zs_partial_products_cap);
    cap(&mut out, "quotient_polys_cap", &p.quotient_polys_cap);
    let o = &p.openings;
    exts(&mut out, "openings.constants", &o.constants);
    exts(&mut out, "openings.plonk_sigmas", &o.plonk_sigmas);
    exts(&mut out, "openings.wires", &o.wires);
    exts(&mut out, "openings.plonk_zs", &o.plonk_zs);
    exts(&mut out, "openings.plonk_zs_next", &o.plonk_zs_next);
    exts(&mut out, "openings.lookup_zs", &o.lookup_zs);
    exts(&mut out, "openings.lookup_zs_next", &o.lookup_zs_next);
    exts(&mut out, "openings.partial_products", &o.partial_products);
    exts(&mut out, "openings.quotient_polys", &o.quotient_polys);
    let f = &p.opening_proof;
    for (s, c) in f.commit_phase_merkle_caps.iter().enumerate() {
        cap(&mut out, &format!("fri.commit_phase_merkle_caps[{s}]"), c);
    }
    for (q, r) in f.query_round_proofs.iter().enumerate() {
        for (oi, (l, m)) in r.initial_trees_proof.evals_proofs.iter().enumerate() {
            for (i, t) in l.iter().enumerate() {
                out.push((format!("fri.query[{q}].initial[{oi}].leaf[{i}]"), *t));
            }
            for (k, h) in m.siblings.iter().enumerate() {
                hash(&mut out, format!("fri.query[{q}].initial[{oi}].sibling[{k}]"), h);
            }
        }
        for (s, st) in r.steps.iter().enumerate() {
            exts(&mut out, &format!("fri.query[{q}].step[{s}].evals"), &st.evals);
            for (k, h) in st.merkle_proof.siblings.iter().enumerate() {
                hash(&mut out, format!("fri.query[{q}].step[{s}].sibling[{k}]"), h);
            }
        }
    }
    exts(&mut out, "fri.final_poly", &f.final_poly.coeffs);
    out.push(("fri.pow_witness".into(), f.pow_witness));
    for (i, t) in pp.public_inputs.iter().enumerate() {
        out.push((format!("public_inputs[{i}]"), *t));
    }
    out
}

/// "fri.query[0].initial[1].leaf[2]" -> "fri.query.initial.leaf"
fn group_of(label: &str) -> String {
    let mut s = String::new();
    let mut depth = 0;
    for ch in label.chars() {
        match ch {
            '[' => depth += 1,
            ']' => depth -= 1,
            _ if depth == 0 => s.push(ch),
            _ => {}
        }
    }
    // drop the limb / lane suffix
    match s.rfind('.') {
        Some(i) if s[i + 1..].chars().all(|c| c.is_ascii_digit()) => s[..i].to_string(),
        _ => s,
    }
}

fn select_proof<F: VF>(ctx: &mut Ctx) {
  for with_lookups in [false, true] {
    for bsel in [false, true] {
        let idp = format!("C20.S.recursion.select.proof.{}b{}", if with_lookups { "lookups." } else { "" }, bsel as u8);
        ctx.guarded(&idp.clone(), SEL_FILES, |ctx| {
            if F::SYMBOLIC {
                crate::reset();
            }
            let (data, _) = tiny_circuit::<F>();
            let mut cd = data.common.clone();
            // three public inputs so that the public-input selection is exercised as well (only
            // the shape of the virtual proof depends on it)
            cd.num_public_inputs = 3;
            if with_lookups {
                // the shape of a circuit with lookup tables: lookup openings at zeta and g*zeta
                cd.num_lookup_polys = 3;
            }
            let cap_height = cd.config.fri_config.cap_height;
            let mut cx = Cx::<F>::new();
            let p0t = cx.b.add_virtual_proof_with_pis(&cd);
            let p1t = cx.b.add_virtual_proof_with_pis(&cd);
            let v0t = cx.b.add_virtual_verifier_data(cap_height);
            let v1t = cx.b.add_virtual_verifier_data(cap_height);
            let p0 = sym_proof_like::<F>(&p0t, "p0");
            let p1 = sym_proof_like::<F>(&p1t, "p1");
            let vd = |tag: &str, t: &VerifierCircuitTarget| VerifierOnlyCircuitData::<F::Cfg, 2> { constants_sigmas_cap: sym_cap::<F>(&format!("{tag}.cap"), &t.constants_sigmas_cap), circuit_digest: sym_hash::<F>(&format!("{tag}.digest")) };
            let (v0, v1) = (vd("v0", &v0t), vd("v1", &v1t));
            // the library's own witness-assignment routines
            cx.pw.set_proof_with_pis_target::<F::Cfg, 2>(&p0t, &p0).expect("set_proof_with_pis_target");
            cx.pw.set_proof_with_pis_target::<F::Cfg, 2>(&p1t, &p1).expect("set_proof_with_pis_target");
            cx.pw.set_verifier_data_target::<F::Cfg, 2>(&v0t, &v0).expect("set_verifier_data_target");
            cx.pw.set_verifier_data_target::<F::Cfg, 2>(&v1t, &v1).expect("set_verifier_data_target");
            let bt = cx.bit(bsel);
            let sel = cx.b.select_proof_with_pis(bt, &p0t, &p1t);
            let selv = cx.b.select_verifier_data(bt, &v0t, &v1t);
            let lt = flat_t(&sel);
            let n_proof = lt.len();
            let mut targets: Vec<Target> = lt.iter().map(|(_, t)| *t).collect();
            // inputs read back as well: the assignment routine put every element at its own target
            let in0 = flat_t(&p0t);
            let in1 = flat_t(&p1t);
            targets.extend(in0.iter().map(|(_, t)| *t));
            targets.extend(in1.iter().map(|(_, t)| *t));
            for h in selv.constants_sigmas_cap.0.iter() {
                targets.extend(h.elements);
            }
            targets.extend(selv.circuit_digest.elements);
            let (vals, rows) = cx.run(&targets);
            let (want_p, want_v) = if bsel { (&p0, &v0) } else { (&p1, &v1) };
            let lv = flat_v::<F>(want_p);
            let bounds = format!(
                "proof shape of the tiny circuit's common data with 3 public inputs{} ({} field elements per proof: caps, openings, 1 FRI query round, final polynomial, pow witness, public inputs); every element of both proofs / verifier data a distinct symbol, assigned by set_proof_with_pis_target / set_verifier_data_target; condition = {} (concrete); circuit {rows} rows",
                if with_lookups { " and 3 lookup polynomials (lookup openings at zeta and g*zeta)" } else { "" }, n_proof, bsel
            );
            // group the element-wise comparisons by field path
            let mut groups: Vec<(String, Vec<A>)> = vec![];
            let mut labels_ok = lt.len() == lv.len();
            for (k, ((la, _), (lb, want))) in lt.iter().zip(&lv).enumerate() {
                labels_ok &= la == lb;
                let g = group_of(la);
                let gi = match groups.iter().position(|(n, _)| *n == g) {
                    Some(i) => i,
                    None => {
                        groups.push((g, vec![]));
                        groups.len() - 1
                    }
                };
                groups[gi].1.push(eq(vals[k], *want));
            }
            for (g, goals) in groups {
                ctx.add(
                    Ob::new(format!("{idp}.{g}"), SEL_FILES, bounds.clone())
                        .sample(format!("value(select_proof_with_pis(b, p0, p1).{g}[..]) == {}.{g}[..]  ({} elements), whatever the other proof is", if bsel { "p0" } else { "p1" }, goals.len()))
                        .assume(OUTSIDE)
                        .goal(A::Bool(labels_ok))
                        .goals(goals)
                        .key(format!("recursion:select-proof-wrong-element:{g}")),
                );
            }
            // assignment: every input target carries the corresponding element
            let mut goals = vec![A::Bool(in0.len() == n_proof && in1.len() == n_proof)];
            for (j, (pin, src)) in [(&in0, &p0), (&in1, &p1)].into_iter().enumerate() {
                let fv = flat_v::<F>(src);
                goals.push(A::Bool(fv.len() == pin.len()));
                for (k, ((la, _), (lb, want))) in pin.iter().zip(&fv).enumerate() {
                    goals.push(A::Bool(la == lb));
                    goals.push(eq(vals[n_proof * (1 + j) + k], *want));
                }
            }
            ctx.add(
                Ob::new(format!("{idp}.assignment"), SEL_FILES, bounds.clone())
                    .sample("after set_proof_with_pis_target(target, proof): value(target.<path>) == proof.<path> for every field path of both proofs")
                    .goals(goals)
                    .key("recursion:witness-assignment-misplaced"),
            );
            // verifier data
            let off = 3 * n_proof;
            let mut goals = vec![A::Bool(vals.len() == off + 4 * want_v.constants_sigmas_cap.0.len() + 4)];
            let mut k = off;
            for h in want_v.constants_sigmas_cap.0.iter().chain(core::iter::once(&want_v.circuit_digest)) {
                for e in h.elements {
                    goals.push(eq(vals[k], e));
                    k += 1;
                }
            }
            ctx.add(
                Ob::new(format!("C20.S.recursion.select.verifier_data.b{}", bsel as u8), SEL_FILES, bounds)
                    .sample(format!("value(select_verifier_data(b, v0, v1)) == {} element-wise (cap, circuit digest)", if bsel { "v0" } else { "v1" }))
                    .goals(goals)
                    .key("recursion:select-verifier-data-wrong-element"),
            );
        });
    }
  }
}

fn select_small<F: VF>(ctx: &mut Ctx) {
    for bsel in [false, true] {
        let idp = format!("C20.S.recursion.select.gadgets.b{}", bsel as u8);
        ctx.guarded(&idp.clone(), SEL_FILES, |ctx| {
            if F::SYMBOLIC {
                crate::reset();
            }
            let (x, y) = (F::var("x"), F::var("y"));
            let (ex, ey) = (F::ext("ex"), F::ext("ey"));
            let (hx, hy) = (sym_hash::<F>("hx"), sym_hash::<F>("hy"));
            let mut cx = Cx::<F>::new();
            let bt = cx.bit(bsel);
            let (xt, yt) = (cx.t(x), cx.t(y));
            let (ext, eyt) = (cx.e(ex), cx.e(ey));
            let (hxt, hyt) = (cx.h(hx), cx.h(hy));
            let s = cx.b.select(bt, xt, yt);
            let se = cx.b.select_ext(bt, ext, eyt);
            let sh = hk::rec_select_hash::<F, 2>(&mut cx.b, bt, hxt, hyt);
            let mut outs = vec![s, se.0[0], se.0[1]];
            outs.extend(sh.elements);
            let (v, rows) = cx.run(&outs);
            let mut want = if bsel { vec![x] } else { vec![y] };
            want.extend(limbs::<F>(if bsel { ex } else { ey }));
            want.extend(if bsel { hx.elements } else { hy.elements });
            let mut goals = vec![A::Bool(v.len() == want.len())];
            goals.extend(v.iter().zip(&want).map(|(a, b)| eq(*a, *b)));
            ctx.add(
                Ob::new(idp.clone(), SEL_FILES, format!("condition = {bsel} (concrete); operands symbolic; circuit {rows} rows"))
                    .sample("select / select_ext / select_hash (b, x, y) == if b { x } else { y }")
                    .goals(goals)
                    .key("recursion:select-gadget-wrong"),
            );
        });
    }
}

const CYC_FILES: &[&str] = &[
    "plonky2/src/recursion/cyclic_recursion.rs::check_cyclic_proof_verifier_data",
    "plonky2/src/recursion/cyclic_recursion.rs::VerifierOnlyCircuitData::from_slice",
];

fn empty_proof<F: VF>() -> Proof<F, F::Cfg, 2> {
    Proof {
        wires_cap: MerkleCap(vec![]),
        plonk_zs_partial_products_cap: MerkleCap(vec![]),
        quotient_polys_cap: MerkleCap(vec![]),
        openings: OpeningSet { constants: vec![], plonk_sigmas: vec![], wires: vec![], plonk_zs: vec![], plonk_zs_next: vec![], partial_products: vec![], quotient_polys: vec![], lookup_zs: vec![], lookup_zs_next: vec![] },
        opening_proof: FriProof { commit_phase_merkle_caps: vec![], query_round_proofs: vec![], final_poly: PolynomialCoeffs::new(vec![]), pow_witness: F::ZERO },
    }
}

fn cyclic<F: VF>(ctx: &mut Ctx) {
    let th = ctx.thorough();
    for (cap_height, lead) in if th { vec![(0usize, 0usize), (1, 3), (2, 1), (4, 2)] } else { vec![(0, 0), (1, 3), (2, 1)] } {
        let idp = format!("C20.S.recursion.cyclic.cap{cap_height}");
        ctx.guarded(&idp.clone(), CYC_FILES, |ctx| {
            if F::SYMBOLIC {
                crate::reset();
            }
            let (data, _) = tiny_circuit::<F>();
            let mut cd = data.common.clone();
            cd.config.fri_config.cap_height = cap_height;
            let ncap = 1usize << cap_height;
            let n = 4 + 4 * ncap;
            let vd = VerifierOnlyCircuitData::<F::Cfg, 2> {
                constants_sigmas_cap: MerkleCap((0..ncap).map(|k| sym_hash::<F>(&format!("vd.cap{k}"))).collect()),
                circuit_digest: sym_hash::<F>("vd.digest"),
            };
            // the layout the property states: [..., circuit_digest, constants_sigmas_cap]
            let mut expect: Vec<F> = vd.circuit_digest.elements.to_vec();
            for h in &vd.constants_sigmas_cap.0 {
                expect.extend(h.elements);
            }
            // symbolic: every public input its own symbol. Native: the model's value where the
            // model names the input (replay of a counterexample), else the matching verifier-data
            // element (vacuity witness: a proof that does carry the verifier data)
            let pis: Vec<F> = (0..lead + n)
                .map(|i| {
                    let name = format!("pi{i}");
                    let named = crate::ctx::MODEL.lock().unwrap().as_ref().map_or(false, |m| m.contains_key(&name));
                    if F::SYMBOLIC || named || i < lead {
                        F::var(&name)
                    } else {
                        expect[i - lead]
                    }
                })
                .collect();
            let run = |pis: &[F]| -> A {
                let pwp = ProofWithPublicInputs::<F, F::Cfg, 2> { proof: empty_proof::<F>(), public_inputs: pis.to_vec() };
                let (ok, atoms) = F::accept(|| check_cyclic_proof_verifier_data::<F, F::Cfg, 2>(&pwp, &vd, &cd));
                A::Accept(ok, atoms)
            };
            let bounds = format!("cap_height {cap_height}: {} leading + {n} trailing public inputs; all public inputs and the verifier data symbolic", lead);
            let acc = run(&pis);
            let eqs: Vec<A> = (0..n).map(|k| eq(pis[lead + k], expect[k])).collect();
            ctx.add(
                Ob::new(format!("{idp}.sound"), CYC_FILES, bounds.clone())
                    .sample("check_cyclic_proof_verifier_data(proof, vd) == Ok  ==>  public_inputs[len-4-4c+k] == (vd.circuit_digest ++ vd.constants_sigmas_cap)[k] for every k")
                    .hyp(acc.clone())
                    .goal(A::Bool(matches!(acc, A::Accept(true, _))))
                    .goals(eqs.clone())
                    .key("recursion:cyclic-verifier-data-check-incomplete"),
            );
            ctx.add(
                Ob::new(format!("{idp}.complete"), CYC_FILES, bounds.clone())
                    .sample("public inputs carry exactly the verifier data  ==>  check_cyclic_proof_verifier_data == Ok (every recorded comparison holds)")
                    .hyps(eqs)
                    .goal(acc.clone())
                    .key("recursion:cyclic-verifier-data-check-rejects-valid"),
            );
            let delta = F::var("delta");
            for k in 0..n {
                let mut p2 = pis.clone();
                p2[lead + k] += delta;
                ctx.add(
                    Ob::new(format!("{idp}.pin.{k}"), CYC_FILES, bounds.clone())
                        .sample(format!("Ok(public inputs) /\\ Ok(public inputs[len-{}+{k}] += delta)  ==>  delta == 0", n))
                        .hyp(acc.clone())
                        .hyp(run(&p2))
                        .goal(eq(delta, F::ZERO))
                        .key("recursion:cyclic-verifier-data-position-unchecked"),
                );
            }
            // too few public inputs are rejected (concrete fact)
            let short = run(&pis[..n - 1]);
            ctx.add(
                Ob::new(format!("{idp}.too-short"), CYC_FILES, bounds)
                    .sample("fewer than 4 + 4*2^cap_height public inputs: Err, no panic")
                    .goal(A::Bool(matches!(short, A::Accept(false, _))))
                    .key("recursion:cyclic-short-public-inputs"),
            );
        });
    }
}

pub fn family<F: VF>(ctx: &mut Ctx) {
    let th = ctx.thorough();
    vanishing::<F>(ctx, "tiny", || tiny_circuit::<F>().0.common, true, false);
    vanishing::<F>(ctx, "multi-gate", || multi_gate_circuit::<F>().common, false, true);
    // circuits with lookup tables: a table that exactly fills its rows (4 and 8 entries for 4 table
    // slots), one that does not, and two tables
    vanishing::<F>(ctx, "lookups-4", || crate::lookup::common_with_lookups::<F>(&[4]), false, true);
    vanishing::<F>(ctx, "lookups-8-3", || crate::lookup::common_with_lookups::<F>(&[8, 3]), false, true);
    if th {
        vanishing::<F>(ctx, "lookups-5", || crate::lookup::common_with_lookups::<F>(&[5]), false, true);
    }
    if th {
        vanishing::<F>(ctx, "tiny-base", || tiny_circuit::<F>().0.common, false, false);
    }
    identity::<F>(ctx, false);
    if th {
        identity::<F>(ctx, true);
    }
    e2e_corruptions(ctx);
    helpers::<F>(ctx);
    fri_combine::<F>(ctx);
    fri_compute_evaluation::<F>(ctx);
    fri_final_poly::<F>(ctx);
    select_proof::<F>(ctx);
    select_small::<F>(ctx);
    cyclic::<F>(ctx);
    cyclic_wiring(ctx);
    conditional_e2e(ctx);
}

// ------------------------------------------------------------------------------------------
// C06, end to end on concrete proofs: the recursive verifier circuit rejects every single-element
// corruption of an accepted proof that the native verifier rejects (and accepts the honest proof).
// This is where in-circuit hashing / Merkle verification / the in-circuit challenger / the
// proof-of-work check are exercised as CHECKED facts. Concrete structure and values: evaluated
// facts on the real builder, prover and verifiers (one outer proof attempt per corruption).
// ------------------------------------------------------------------------------------------

const E2E_FILES: &[&str] = &[
    "plonky2/src/recursion/recursive_verifier.rs::CircuitBuilder::verify_proof",
    "plonky2/src/recursion/recursive_verifier.rs::CircuitBuilder::verify_proof_with_challenges",
    "plonky2/src/fri/recursive_verifier.rs::CircuitBuilder::verify_fri_proof",
    "plonky2/src/fri/recursive_verifier.rs::CircuitBuilder::fri_verifier_query_round",
    "plonky2/src/fri/recursive_verifier.rs::CircuitBuilder::fri_verify_proof_of_work",
    "plonky2/src/fri/recursive_verifier.rs::CircuitBuilder::fri_verify_initial_proof",
    "plonky2/src/hash/merkle_proofs.rs::CircuitBuilder::verify_merkle_proof_to_cap_with_cap_index",
    "plonky2/src/iop/challenger.rs::RecursiveChallenger",
    "plonky2/src/plonk/get_challenges.rs::ProofWithPublicInputsTarget::get_challenges",
    "plonky2/src/plonk/verifier.rs::verify",
];

pub fn e2e_corruptions(ctx: &mut Ctx) {
    use plonky2::plonk::config::PoseidonGoldilocksConfig as C;
    use plonky2_field::goldilocks_field::GoldilocksField as G;
    type P = ProofWithPublicInputs<G, C, 2>;
    if ctx.is_witness_run() || !ctx.wants("C06.S.recursion.e2e.") {
        return;
    }
    let std_cfg = CircuitConfig::standard_recursion_config();
    let mut alt = CircuitConfig::standard_recursion_config();
    alt.fri_config.cap_height = 2;
    alt.fri_config.reduction_strategy = FriReductionStrategy::Fixed(vec![2, 1, 1]);
    alt.fri_config.num_query_rounds = 33;
    // far fewer grinding bits than the outer circuit's own configuration (16)
    alt.fri_config.proof_of_work_bits = 3;
    alt.num_challenges = 3;
    for (cname, inner_cfg) in [("standard", std_cfg.clone()), ("cap2-arity211-3ch", alt)] {
        let setup = std::panic::catch_unwind(std::panic::AssertUnwindSafe(|| {
            // inner circuit: arithmetic + a hash, so that every oracle has several polynomials
            let mut b = CircuitBuilder::<G, 2>::new(inner_cfg.clone());
            let x = b.add_virtual_target();
            let y = b.add_virtual_target();
            let mut z = b.mul(x, y);
            for _ in 0..150 {
                z = b.mul_add(z, y, x);
            }
            let h = b.hash_n_to_hash_no_pad::<PoseidonHash>(vec![x, y, z]);
            b.register_public_input(z);
            b.register_public_inputs(&h.elements);
            let inner = b.build::<C>();
            let mut pw = PartialWitness::<G>::new();
            pw.set_target(x, G::from_canonical_u64(3)).unwrap();
            pw.set_target(y, G::from_canonical_u64(0x1234_5678_9abc)).unwrap();
            let proof = inner.prove(pw).expect("inner proof");
            inner.verify(proof.clone()).expect("inner proof verifies");
            // outer circuit
            let mut ob = CircuitBuilder::<G, 2>::new(CircuitConfig::standard_recursion_config());
            let pt = ob.add_virtual_proof_with_pis(&inner.common);
            let vd = ob.add_virtual_verifier_data(inner.common.config.fri_config.cap_height);
            ob.verify_proof::<C>(&pt, &vd, &inner.common);
            let outer = ob.build::<C>();
            (inner, proof, outer, pt, vd)
        }));
        let Ok((inner, proof, outer, pt, vd)) = setup else {
            ctx.guarded(&format!("C06.S.recursion.e2e.{cname}.setup"), E2E_FILES, |_| panic!("building / proving the inner or outer circuit panicked"));
            continue;
        };
        // does the recursive verifier accept (outer proof exists and verifies)?
        let recursive_accepts = |p: &P, cap: &MerkleCap<G, PoseidonHash>, digest: HashOut<G>| -> bool {
            let r = std::panic::catch_unwind(std::panic::AssertUnwindSafe(|| {
                let mut pw = PartialWitness::<G>::new();
                pw.set_proof_with_pis_target(&pt, p).ok()?;
                pw.set_cap_target(&vd.constants_sigmas_cap, cap).ok()?;
                pw.set_hash_target(vd.circuit_digest, digest).ok()?;
                let op = outer.prove(pw).ok()?;
                outer.verify(op).ok()
            }));
            matches!(r, Ok(Some(())))
        };
        let native_accepts = |p: &P, cap: &MerkleCap<G, PoseidonHash>, digest: HashOut<G>| -> bool {
            let mut vo = inner.verifier_only.clone();
            vo.constants_sigmas_cap = cap.clone();
            vo.circuit_digest = digest;
            let vdata = plonky2::plonk::circuit_data::VerifierCircuitData::<G, C, 2> { verifier_only: vo, common: inner.common.clone() };
            let r = std::panic::catch_unwind(std::panic::AssertUnwindSafe(|| vdata.verify(p.clone())));
            matches!(r, Ok(Ok(())))
        };
        let cap0 = inner.verifier_only.constants_sigmas_cap.clone();
        let dig0 = inner.verifier_only.circuit_digest;
        type M = Box<dyn Fn(&mut P, &mut MerkleCap<G, PoseidonHash>, &mut HashOut<G>)>;
        let one = G::ONE;
        let e1 = <G as Extendable<2>>::Extension::from_basefield_array([G::ZERO, G::ONE]);
        let nq = proof.proof.opening_proof.query_round_proofs.len();
        let nsteps = proof.proof.opening_proof.commit_phase_merkle_caps.len();
        let mut muts: Vec<(String, M)> = vec![
            ("honest".into(), Box::new(|_, _, _| {})),
            ("public_inputs[0]".into(), Box::new(move |p, _, _| p.public_inputs[0] += one)),
            ("public_inputs[last]".into(), Box::new(move |p, _, _| *p.public_inputs.last_mut().unwrap() += one)),
            ("openings.constants[0]".into(), Box::new(move |p, _, _| p.proof.openings.constants[0] += e1)),
            ("openings.plonk_sigmas[last]".into(), Box::new(move |p, _, _| *p.proof.openings.plonk_sigmas.last_mut().unwrap() += e1)),
            ("openings.wires[1]".into(), Box::new(move |p, _, _| p.proof.openings.wires[1] += e1)),
            ("openings.plonk_zs[last]".into(), Box::new(move |p, _, _| *p.proof.openings.plonk_zs.last_mut().unwrap() += e1)),
            ("openings.plonk_zs_next[0]".into(), Box::new(move |p, _, _| p.proof.openings.plonk_zs_next[0] += e1)),
            ("openings.partial_products[last]".into(), Box::new(move |p, _, _| *p.proof.openings.partial_products.last_mut().unwrap() += e1)),
            ("openings.quotient_polys[last]".into(), Box::new(move |p, _, _| *p.proof.openings.quotient_polys.last_mut().unwrap() += e1)),
            ("wires_cap[last]".into(), Box::new(move |p, _, _| p.proof.wires_cap.0.last_mut().unwrap().elements[3] += one)),
            ("zs_cap[0]".into(), Box::new(move |p, _, _| p.proof.plonk_zs_partial_products_cap.0[0].elements[0] += one)),
            ("quotient_cap[1]".into(), Box::new(move |p, _, _| p.proof.quotient_polys_cap.0[1].elements[2] += one)),
            ("fri.final_poly[0]".into(), Box::new(move |p, _, _| p.proof.opening_proof.final_poly.coeffs[0] += e1)),
            ("fri.final_poly[last]".into(), Box::new(move |p, _, _| *p.proof.opening_proof.final_poly.coeffs.last_mut().unwrap() += e1)),
            ("fri.pow_witness".into(), Box::new(move |p, _, _| p.proof.opening_proof.pow_witness += one)),
            ("verifier_data.constants_sigmas_cap[last]".into(), Box::new(move |_, c, _| c.0.last_mut().unwrap().elements[1] += one)),
            ("verifier_data.circuit_digest".into(), Box::new(move |_, _, d| d.elements[3] += one)),
        ];
        for s in 0..nsteps {
            muts.push((format!("fri.commit_cap[{s}][last]"), Box::new(move |p, _, _| p.proof.opening_proof.commit_phase_merkle_caps[s].0.last_mut().unwrap().elements[0] += one)));
            let q = (s + 1) % nq;
            muts.push((format!("fri.query[{q}].steps[{s}].evals[last]"), Box::new(move |p, _, _| *p.proof.opening_proof.query_round_proofs[q].steps[s].evals.last_mut().unwrap() += e1)));
            let q2 = (s + 5) % nq;
            muts.push((format!("fri.query[{q2}].steps[{s}].siblings[last]"), Box::new(move |p, _, _| {
                if let Some(h) = p.proof.opening_proof.query_round_proofs[q2].steps[s].merkle_proof.siblings.last_mut() {
                    h.elements[2] += one;
                } else {
                    p.proof.opening_proof.query_round_proofs[q2].steps[s].evals[0] += e1;
                }
            })));
        }
        for k in 0..4usize {
            let q = (3 * k + 2) % nq;
            muts.push((format!("fri.query[{q}].initial.evals[{k}][last]"), Box::new(move |p, _, _| *p.proof.opening_proof.query_round_proofs[q].initial_trees_proof.evals_proofs[k].0.last_mut().unwrap() += one)));
            let q2 = (3 * k + 7) % nq;
            muts.push((format!("fri.query[{q2}].initial.siblings[{k}][0]"), Box::new(move |p, _, _| p.proof.opening_proof.query_round_proofs[q2].initial_trees_proof.evals_proofs[k].1.siblings[0].elements[1] += one)));
            muts.push((format!("fri.query[{q2}].initial.siblings[{k}][last]"), Box::new(move |p, _, _| p.proof.opening_proof.query_round_proofs[q2].initial_trees_proof.evals_proofs[k].1.siblings.last_mut().unwrap().elements[0] += one)));
        }
        for (name, m) in muts {
            let id = format!("C06.S.recursion.e2e.{cname}.{name}");
            ctx.guarded(&id.clone(), E2E_FILES, |ctx| {
                let (mut p, mut cap, mut dig) = (proof.clone(), cap0.clone(), dig0);
                m(&mut p, &mut cap, &mut dig);
                let nat = native_accepts(&p, &cap, dig);
                let rec = recursive_accepts(&p, &cap, dig);
                ctx.add(
                    Ob::new(id.clone(), E2E_FILES, format!("inner circuit (150 multiply-adds + one Poseidon hash, 5 public inputs) under the {cname} configuration {:?}, one accepted proof with `{name}` altered by one; outer circuit = verify_proof under standard_recursion_config; concrete values", inner.common.config.fri_config))
                        .sample(format!("the recursive verifier circuit is satisfiable (outer prove + verify succeed) exactly when the native verifier accepts; native accepts: {nat}, recursive accepts: {rec}"))
                        .goal(A::Bool(nat == rec))
                        // (a corruption need not be rejected: a cap element or Merkle path no query touches is never
                    // looked at by either verifier; the obligation is the agreement of the two verifiers)
                    .goal(A::Bool(name != "honest" || nat))
                        .key(format!("recursive-verifier:differs-from-native:{}", name.split('[').next().unwrap())),
                );
            });
        }
    }
}


// ------------------------------------------------------------------------------------------
// C20: wiring of the cyclic verifier. The circuit built by the real
// `conditionally_verify_cyclic_proof_or_dummy` must copy-constrain every element of its OWN
// verifier-data public inputs to the verifier data embedded in the inner cyclic proof's public
// inputs (that is what makes every link of a chain use the same circuit). A fact about the
// circuit graph (the builder's disjoint-set forest after `build`), independent of field values.
// ------------------------------------------------------------------------------------------

const CYCW_FILES: &[&str] = &[
    "plonky2/src/recursion/cyclic_recursion.rs::CircuitBuilder::conditionally_verify_cyclic_proof",
    "plonky2/src/recursion/cyclic_recursion.rs::CircuitBuilder::conditionally_verify_cyclic_proof_or_dummy",
    "plonky2/src/plonk/circuit_builder.rs::CircuitBuilder::add_verifier_data_public_inputs",
    "plonky2/src/plonk/circuit_data.rs::VerifierCircuitTarget::from_slice",
    "plonky2/src/plonk/circuit_builder.rs::CircuitBuilder::build",
];

pub fn cyclic_wiring(ctx: &mut Ctx) {
    use plonky2::gates::noop::NoopGate;
    use plonky2::plonk::config::PoseidonGoldilocksConfig as C;
    use plonky2_field::goldilocks_field::GoldilocksField as G;
    if ctx.is_witness_run() {
        return;
    }
    ctx.guarded("C20.S.recursion.cyclic.wiring", CYCW_FILES, |ctx| {
        // the fixed-point common data, as in the library's own cyclic-recursion test
        let config = CircuitConfig::standard_recursion_config();
        let data = CircuitBuilder::<G, 2>::new(config.clone()).build::<C>();
        let mut b = CircuitBuilder::<G, 2>::new(config.clone());
        let proof = b.add_virtual_proof_with_pis(&data.common);
        let vd = b.add_virtual_verifier_data(data.common.config.fri_config.cap_height);
        b.verify_proof::<C>(&proof, &vd, &data.common);
        let data = b.build::<C>();
        let mut b = CircuitBuilder::<G, 2>::new(config.clone());
        let proof = b.add_virtual_proof_with_pis(&data.common);
        let vd = b.add_virtual_verifier_data(data.common.config.fri_config.cap_height);
        b.verify_proof::<C>(&proof, &vd, &data.common);
        while b.num_gates() < 1 << 12 {
            b.add_gate(NoopGate, vec![]);
        }
        let mut common = b.build::<C>().common;

        // the cyclic circuit: a counter plus its own verifier data as public inputs
        let mut b = CircuitBuilder::<G, 2>::new(config);
        let counter = b.add_virtual_public_input();
        let _own_vd = b.add_verifier_data_public_inputs();
        common.num_public_inputs = b.num_public_inputs();
        let cond = b.add_virtual_bool_target_safe();
        let inner = b.add_virtual_proof_with_pis(&common);
        let one = b.one();
        let prev = inner.public_inputs[0];
        let next = b.mul_add(cond.target, prev, one);
        b.connect(counter, next);
        b.conditionally_verify_cyclic_proof_or_dummy::<C>(cond, &inner, &common).expect("cyclic verifier");
        let n_own = b.num_public_inputs();
        let cyc = b.build::<C>();
        let fixed_point = cyc.common == common;
        let k = 4 + 4 * common.config.fri_config.num_cap_elements();
        let own = &cyc.prover_only.public_inputs[n_own - k..];
        let emb = &inner.public_inputs[inner.public_inputs.len() - k..];
        let (nw, deg) = (cyc.common.config.num_wires, cyc.common.degree());
        let rep = |t: Target| cyc.prover_only.representative_map[t.index(nw, deg)];
        let unconnected: Vec<usize> = (0..k).filter(|&i| rep(own[i]) != rep(emb[i])).collect();
        // and nothing is connected crosswise (element i with element j != i)
        let crossed = (0..k).any(|i| (0..k).any(|j| i != j && rep(own[i]) == rep(emb[j])));
        ctx.add(
            Ob::new("C20.S.recursion.cyclic.wiring.verifier-data", CYCW_FILES, format!("cyclic circuit (counter + own verifier data as public inputs, conditionally_verify_cyclic_proof_or_dummy) built with standard_recursion_config on the fixed-point common data (degree 2^{}); {k} verifier-data elements (digest + {} cap hashes)", cyc.common.degree_bits(), common.config.fri_config.num_cap_elements()))
                .sample(format!("every element of the circuit's own verifier-data public inputs is in the same copy class as the corresponding trailing public input of the inner cyclic proof; not connected: {unconnected:?}"))
                .goal(A::Bool(fixed_point))
                .goal(A::Bool(unconnected.is_empty()))
                .goal(A::Bool(!crossed))
                .key("cyclic-verifier:verifier-data-not-bound-to-inner-proof"),
        );
    });
}

// ------------------------------------------------------------------------------------------
// C20, end to end on concrete proofs: `conditionally_verify_proof_or_dummy` accepts exactly when
// the proof selected by the condition is valid, irrespective of the other one; for inner circuit
// shapes whose configuration differs from the outer circuit's (cap height). Concrete values.
// ------------------------------------------------------------------------------------------

const COND_FILES: &[&str] = &[
    "plonky2/src/recursion/conditional_recursive_verifier.rs::CircuitBuilder::conditionally_verify_proof_or_dummy",
    "plonky2/src/recursion/conditional_recursive_verifier.rs::CircuitBuilder::conditionally_verify_proof",
    "plonky2/src/recursion/dummy_circuit.rs::CircuitBuilder::dummy_proof_and_vk",
    "plonky2/src/recursion/dummy_circuit.rs::dummy_circuit",
    "plonky2/src/recursion/dummy_circuit.rs::dummy_proof",
];

pub fn conditional_e2e(ctx: &mut Ctx) {
    use plonky2::plonk::config::PoseidonGoldilocksConfig as C;
    use plonky2_field::goldilocks_field::GoldilocksField as G;
    type P = ProofWithPublicInputs<G, C, 2>;
    if ctx.is_witness_run() || !ctx.wants("C20.S.recursion.conditional.") {
        return;
    }
    let std_cfg = CircuitConfig::standard_recursion_config();
    let mut cap2 = CircuitConfig::standard_recursion_config();
    cap2.fri_config.cap_height = 2;
    // (name, inner configuration, inner circuit uses a lookup table, second branch is the library's dummy proof)
    for (cname, inner_cfg, lookups, dummy) in [("or-dummy.standard", std_cfg.clone(), false, true), ("or-dummy.inner-cap-height-2", cap2.clone(), false, true), ("two-proofs.lookups", std_cfg.clone(), true, false), ("two-proofs.inner-cap-height-2", cap2, false, false)] {
        let idp = format!("C20.S.recursion.conditional.{cname}");
        ctx.guarded(&idp.clone(), COND_FILES, |ctx| {
            let mut b = CircuitBuilder::<G, 2>::new(inner_cfg.clone());
            let x = b.add_virtual_target();
            let y = b.add_virtual_target();
            let mut z = b.mul(x, y);
            for _ in 0..40 {
                z = b.mul_add(z, y, x);
            }
            if lookups {
                let t: Vec<(u16, u16)> = (0..9u16).map(|i| (i, 2 * i + 1)).collect();
                let lut = b.add_lookup_table_from_pairs(std::sync::Arc::new(t));
                let k = b.constant(G::from_canonical_u64(4));
                let o = b.add_lookup_from_index(k, lut);
                z = b.add(z, o);
            }
            b.register_public_input(z);
            let inner = b.build::<C>();
            let prove_inner = |xv: u64| -> P {
                let mut pw = PartialWitness::<G>::new();
                pw.set_target(x, G::from_canonical_u64(xv)).unwrap();
                pw.set_target(y, G::from_canonical_u64(77)).unwrap();
                inner.prove(pw).expect("inner proof")
            };
            let (proof, other) = (prove_inner(3), prove_inner(5));
            let mut ob = CircuitBuilder::<G, 2>::new(CircuitConfig::standard_recursion_config());
            let cond = ob.add_virtual_bool_target_safe();
            let cap_height = inner.common.config.fri_config.cap_height;
            let pt = ob.add_virtual_proof_with_pis(&inner.common);
            let vd = ob.add_virtual_verifier_data(cap_height);
            let second = if dummy {
                ob.conditionally_verify_proof_or_dummy::<C>(cond, &pt, &vd, &inner.common).expect("conditional verifier");
                None
            } else {
                let pt1 = ob.add_virtual_proof_with_pis(&inner.common);
                let vd1 = ob.add_virtual_verifier_data(cap_height);
                ob.conditionally_verify_proof::<C>(cond, &pt, &vd, &pt1, &vd1, &inner.common);
                Some((pt1, vd1))
            };
            let outer = ob.build::<C>();
            let accepts = |c: bool, p: &P, p1: &P| -> bool {
                let r = std::panic::catch_unwind(std::panic::AssertUnwindSafe(|| {
                    let mut pw = PartialWitness::<G>::new();
                    pw.set_bool_target(cond, c).ok()?;
                    pw.set_proof_with_pis_target(&pt, p).ok()?;
                    pw.set_verifier_data_target(&vd, &inner.verifier_only).ok()?;
                    if let Some((pt1, vd1)) = &second {
                        pw.set_proof_with_pis_target(pt1, p1).ok()?;
                        pw.set_verifier_data_target(vd1, &inner.verifier_only).ok()?;
                    }
                    let op = outer.prove(pw).ok()?;
                    outer.verify(op).ok()
                }));
                matches!(r, Ok(Some(())))
            };
            let alter = |p: &P, what: usize| -> P {
                let mut q = p.clone();
                match what {
                    0 => q.proof.openings.wires[0] += <G as Extendable<2>>::Extension::ONE,
                    1 => q.public_inputs[0] += G::ONE,
                    _ => q.proof.opening_proof.query_round_proofs[1].initial_trees_proof.evals_proofs[0].1.siblings[0].elements[0] += G::ONE,
                }
                q
            };
            // (name, condition, first proof, second proof (ignored with the dummy), expected)
            let mut cases: Vec<(String, bool, P, P, bool)> = vec![
                ("cond=true, both valid".into(), true, proof.clone(), other.clone(), true),
                ("cond=false, both valid".into(), false, proof.clone(), other.clone(), true),
            ];
            for (k, what) in ["opening", "public input", "Merkle sibling"].iter().enumerate() {
                cases.push((format!("cond=true, first proof: altered {what}"), true, alter(&proof, k), other.clone(), false));
                cases.push((format!("cond=false, first proof: altered {what} (not selected)"), false, alter(&proof, k), other.clone(), true));
                if !dummy {
                    cases.push((format!("cond=false, second proof: altered {what}"), false, proof.clone(), alter(&other, k), false));
                    cases.push((format!("cond=true, second proof: altered {what} (not selected)"), true, proof.clone(), alter(&other, k), true));
                }
            }
            let mut facts = vec![];
            let mut wrong = vec![];
            let n = cases.len();
            for (name, c, p, p1, want) in cases {
                let got = accepts(c, &p, &p1);
                if got != want {
                    wrong.push(format!("{name}: accepted = {got}"));
                }
                facts.push(A::Bool(got == want));
            }
            ctx.add(
                Ob::new(format!("{idp}.accepts-iff-selected-valid"), COND_FILES, format!("inner circuit (41 multiply-adds{}; cap height {cap_height}); outer circuit under standard_recursion_config calling {}; {n} (condition, proofs) cases; concrete values", if lookups { ", one lookup" } else { "" }, if dummy { "conditionally_verify_proof_or_dummy" } else { "conditionally_verify_proof on two proofs of the inner circuit" }))
                    .sample(format!("the conditional verifier circuit can be built for this inner shape and is satisfiable exactly when the proof selected by the condition is valid (an invalid unselected proof does not matter); wrong: {wrong:?}"))
                    .goals(facts)
                    .key(format!("conditional-verifier:acceptance-differs-from-selected-validity:{}", if dummy { "or-dummy" } else { "two-proofs" })),
            );
        });
    }
}
