//! C08: table lookups (LogUp argument of plonky2) are provable exactly for pairs in the table.
//!
//! Circuits with lookups are built by the real `CircuitBuilder` (`add_lookup_table_from_pairs`,
//! `add_lookup_from_index`, `build` -> `add_all_lookups`, `selectors_lookup`,
//! `selector_ends_lookups`), witnesses by the real `generate_partial_witness` + `set_lookup_wires`,
//! lookup polynomials by the real `compute_lookup_polys` (hook), constraints by the real
//! `check_lookup_constraints` (verifier) / `check_lookup_constraints_batch` (prover).
//!
//! Groups (ids `C08.S.lookup.<group>.<variant>...`):
//!  * `ev`    Ob8.1a  verifier-side evaluator == prover-side evaluator (lookup constraints alone and
//!                    the complete vanishing expression with lookups present)
//!  * `ref`   Ob8.1b  `check_lookup_constraints` / `eval_vanishing_poly` == reference LogUp
//!                    constraint list written here from the doc comment and the LogUp / Tip5 papers
//!  * `rows`  Ob8.2   honest trace + real prover polynomials: every lookup constraint vanishes on
//!                    every row, for symbolic challenges; lookup outputs are the table values
//!  * `sound` Ob8.3   one looking pair not in (its) table: the final-sum constraint is a non-zero
//!                    rational function of the challenges (closed form); and the constraints pin
//!                    the running-sum polynomials (nothing but LastLdc is left to the prover)
//!  * `wiring`        slot arithmetic, table rows "upside down", padding, multiplicities
//!
//! KNOWN FINDING (key `lookup:running-sum-start-unconstrained`; obligations
//! `sound.<v>.determined.s*` and `forgery.<v>.*.no-forgery` are `violated` on the unchanged tree
//! whenever there is more than one partial SLDC polynomial, i.e. for every configuration with
//! `LookupGate::num_slots > max_quotient_degree_factor - 1`, including
//! `standard_recursion_config`): `check_lookup_constraints` pins `SLDC_0` and `RE` to 0 on the zero
//! row after a table (`InitSre * z_x_lookup_sldcs[0]`), but the Sum transition of the first table
//! row continues from `z_gx_lookup_sldcs[num_sldc_polys - 1]`, the *last* SLDC polynomial on that
//! zero row, which no constraint touches. The lookup polynomials are committed after the
//! challenges are known, so a prover can start the running sum at -(Sum - LDC) and satisfy
//! LastLdc for a looking pair that is not in the table. With a single SLDC polynomial
//! (variant `n1-t3`) the start is pinned and `determined` holds.
use std::sync::Arc;

use plonky2::field::zero_poly_coset::ZeroPolyOnCoset;
use plonky2::gates::lookup::LookupGate;
use plonky2::gates::lookup_table::LookupTableGate;
use plonky2::hash::hash_types::HashOut;
use plonky2::iop::generator::generate_partial_witness;
use plonky2::iop::target::Target;
use plonky2::iop::witness::{MatrixWitness, PartialWitness, Witness, WitnessWrite};
use plonky2::plonk::circuit_builder::CircuitBuilder;
use plonky2::plonk::circuit_data::{CircuitConfig, CircuitData, CommonCircuitData};
use plonky2::plonk::prover::set_lookup_wires;
use plonky2::plonk::vars::{EvaluationVars, EvaluationVarsBaseBatch};
use plonky2::verif_hooks as hk;
use plonky2_field::extension::{Extendable, FieldExtension};
use plonky2_field::types::Field;

use crate::ctx::{eq, eq_ext, Ctx, Ob, A, VF};

type Ext<F> = <F as Extendable<2>>::Extension;

fn ext_of<F: VF>(a: F, b: F) -> Ext<F> {
    <Ext<F> as FieldExtension<2>>::from_basefield_array([a, b])
}
fn emb<F: VF>(a: F) -> Ext<F> {
    ext_of::<F>(a, F::ZERO)
}
fn limbs<F: VF>(x: Ext<F>) -> [F; 2] {
    x.to_basefield_array()
}
fn c16<F: VF>(v: u16) -> F {
    F::from_canonical_u64(v as u64)
}

// Reference numbering of the lookup selectors and challenges (from the documentation of
// `LookupSelectors` / `LookupChallenges`; deliberately not imported from the code under test).
const TRANS_SRE: usize = 0;
const TRANS_LDC: usize = 1;
const INIT_SRE: usize = 2;
const LAST_LDC: usize = 3;
const START_END: usize = 4;
const CH_A: usize = 0;
const CH_B: usize = 1;
const CH_ALPHA: usize = 2;
const CH_DELTA: usize = 3;

// -------------------------------------------------------------------------------------------
// circuits

#[derive(Clone, Copy, PartialEq, Eq, Debug)]
enum Shape {
    /// 12 wires, all routed, quotient degree factor 4: 6 looking slots, 4 table slots, 2 partial
    /// SLDC polynomials (chunks of 3 looking / 2 looked slots)
    Narrow,
    /// 12 wires, quotient degree factor 8: a single SLDC polynomial
    Narrow1,
    /// 14 wires, quotient degree factor 4: 7 looking slots, 4 table slots, 3 SLDC polynomials, the
    /// last of which has an *empty* chunk of looked slots
    Narrow3,
    /// standard_recursion_config: 135 wires, 80 routed, 40 looking slots, 26 table slots, 6 SLDCs
    Wide,
}

#[derive(Clone, Copy, Debug)]
enum Size {
    N(usize),
    Slots,
    SlotsPlus1,
}

#[derive(Clone, Debug)]
struct Variant {
    name: &'static str,
    shape: Shape,
    tables: Vec<Size>,
    /// (table index, looked-up input)
    lookups: Vec<(usize, u16)>,
}

fn config_of(shape: Shape) -> CircuitConfig {
    match shape {
        Shape::Narrow => crate::plonk::tiny_config(12, 12, 4),
        Shape::Narrow1 => {
            let mut c = crate::plonk::tiny_config(12, 12, 8);
            c.fri_config.rate_bits = 3;
            c
        }
        Shape::Narrow3 => crate::plonk::tiny_config(14, 14, 4),
        Shape::Wide => CircuitConfig::standard_recursion_config(),
    }
}

/// table `t` of a variant: inputs 0..n, outputs an arbitrary function that differs between tables
fn table_of(n: usize, t: usize) -> Vec<(u16, u16)> {
    (0..n).map(|i| (i as u16, ((i * i * (t + 1) + 5 * i + 3 + 2 * t) % 251) as u16)).collect()
}

struct Built<F: VF> {
    data: CircuitData<F, F::Cfg, 2>,
    tables: Vec<Vec<(u16, u16)>>,
    xs: Vec<Target>,
    outs: Vec<Target>,
    y: Target,
    prod: Target,
}

fn build<F: VF>(v: &Variant) -> Built<F> {
    let config = config_of(v.shape);
    let slots = hk::lookup_table_gate_num_slots(&config);
    let tables: Vec<Vec<(u16, u16)>> = v
        .tables
        .iter()
        .enumerate()
        .map(|(t, s)| {
            table_of(
                match s {
                    Size::N(n) => *n,
                    Size::Slots => slots,
                    Size::SlotsPlus1 => slots + 1,
                },
                t,
            )
        })
        .collect();
    let mut b = CircuitBuilder::<F, 2>::new(config);
    let idx: Vec<usize> = tables.iter().map(|t| b.add_lookup_table_from_pairs(Arc::new(t.clone()))).collect();
    let mut xs = vec![];
    let mut outs = vec![];
    for (t, _) in &v.lookups {
        let x = b.add_virtual_target();
        outs.push(b.add_lookup_from_index(x, idx[*t]));
        xs.push(x);
    }
    // an ordinary gate consuming a lookup output, with a free (symbolic) second operand
    let y = b.add_virtual_target();
    let prod = b.mul(outs[0], y);
    let data = b.build::<F::Cfg>();
    Built { data, tables, xs, outs, y, prod }
}

/// Common data of a narrow-configuration circuit (12 wires, 6 looking slots, 4 table slots, two
/// partial SLDC polynomials) with lookup tables of the given sizes and one lookup into each; used
/// by the in-circuit twin obligations of the recursion family.
pub fn common_with_lookups<F: VF>(table_sizes: &[usize]) -> CommonCircuitData<F, 2> {
    let v = Variant { name: "twin", shape: Shape::Narrow, tables: table_sizes.iter().map(|n| Size::N(*n)).collect(), lookups: (0..table_sizes.len()).map(|t| (t, 0u16)).collect() };
    build::<F>(&v).data.common
}

fn describe<F: VF>(v: &Variant, bt: &Built<F>) -> String {
    let cd = &bt.data.common;
    format!(
        "circuit built by the real CircuitBuilder: {} wires ({} routed), quotient degree factor {}, {} rows, {} looking slots/row, {} table slots/row, {} lookup polynomials (RE + {} partial SLDC), tables of {:?} entries, lookups (table,input) {:?}, one multiplication out_0 * y",
        cd.config.num_wires,
        cd.config.num_routed_wires,
        cd.quotient_degree_factor,
        cd.degree(),
        hk::lookup_gate_num_slots(&cd.config),
        hk::lookup_table_gate_num_slots(&cd.config),
        cd.num_lookup_polys,
        cd.num_lookup_polys.saturating_sub(1),
        bt.tables.iter().map(|t| t.len()).collect::<Vec<_>>(),
        v.lookups
    )
}

fn variants(th: bool) -> Vec<Variant> {
    let mut v = vec![
        // repeated entry 1, unused entry 0, half-filled looking row, 3 of 4 table slots used
        Variant { name: "n-t3", shape: Shape::Narrow, tables: vec![Size::N(3)], lookups: vec![(0, 1), (0, 2), (0, 1)] },
        // table fills its row exactly; 7 lookups = one full looking row + one with a single slot
        Variant { name: "n-slots", shape: Shape::Narrow, tables: vec![Size::Slots], lookups: vec![(0, 0), (0, 1), (0, 2), (0, 3), (0, 0), (0, 1), (0, 3)] },
        // table needs a second row (1 entry + 3 padding slots)
        Variant { name: "n-slots1", shape: Shape::Narrow, tables: vec![Size::SlotsPlus1], lookups: vec![(0, 4), (0, 0)] },
        // two tables of different sizes
        Variant { name: "n-two", shape: Shape::Narrow, tables: vec![Size::N(3), Size::SlotsPlus1], lookups: vec![(0, 2), (1, 4), (1, 1), (0, 0)] },
        // a single SLDC polynomial
        Variant { name: "n1-t3", shape: Shape::Narrow1, tables: vec![Size::N(3)], lookups: vec![(0, 1), (0, 2)] },
        Variant { name: "w-t3", shape: Shape::Wide, tables: vec![Size::N(3)], lookups: vec![(0, 1), (0, 2), (0, 1)] },
        Variant { name: "w-slots", shape: Shape::Wide, tables: vec![Size::Slots], lookups: vec![(0, 25), (0, 0), (0, 7)] },
        Variant { name: "w-two", shape: Shape::Wide, tables: vec![Size::N(3), Size::SlotsPlus1], lookups: vec![(0, 2), (1, 26), (1, 1)] },
    ];
    if th {
        v.push(Variant { name: "n3-t3", shape: Shape::Narrow3, tables: vec![Size::N(3)], lookups: vec![(0, 1), (0, 2), (0, 1)] });
        v.push(Variant { name: "n3-two", shape: Shape::Narrow3, tables: vec![Size::Slots, Size::SlotsPlus1], lookups: vec![(0, 3), (1, 4), (1, 0), (0, 0), (0, 3), (0, 1), (0, 2), (0, 2), (0, 3)] });
        v.push(Variant { name: "n-three", shape: Shape::Narrow, tables: vec![Size::N(1), Size::Slots, Size::N(9)], lookups: vec![(0, 0), (1, 3), (2, 8), (2, 8), (2, 4), (1, 0)] });
        v.push(Variant { name: "w-slots1", shape: Shape::Wide, tables: vec![Size::SlotsPlus1], lookups: vec![(0, 26), (0, 3)] });
        v.push(Variant { name: "w-41", shape: Shape::Wide, tables: vec![Size::N(5)], lookups: (0..41).map(|i| (0usize, (i % 4) as u16)).collect() });
    }
    v
}

// -------------------------------------------------------------------------------------------
// openings

struct Openings<F: VF> {
    constants: Vec<Ext<F>>,
    wires: Vec<Ext<F>>,
    zs: Vec<Ext<F>>,
    zs_next: Vec<Ext<F>>,
    lzs: Vec<Ext<F>>,
    lzs_next: Vec<Ext<F>>,
    pps: Vec<Ext<F>>,
    sigmas: Vec<Ext<F>>,
    pih: HashOut<F>,
    betas: Vec<F>,
    gammas: Vec<F>,
    alphas: Vec<F>,
    /// 4 per challenge round: a, b, alpha, delta
    deltas: Vec<F>,
}

/// `base`: every opening is a base-field symbol (embedded); `wires_base`: only the wires are.
fn sym_openings<F: VF>(cd: &CommonCircuitData<F, 2>, base: bool, wires_base: bool, tag: &str) -> Openings<F> {
    let e = |n: String| if base { emb::<F>(F::var(&n)) } else { F::ext(&n) };
    let ew = |n: String| if base || wires_base { emb::<F>(F::var(&n)) } else { F::ext(&n) };
    let nch = cd.config.num_challenges;
    let nlp = cd.num_lookup_polys;
    Openings {
        constants: (0..cd.num_constants).map(|i| e(format!("{tag}c{i}"))).collect(),
        wires: (0..cd.config.num_wires).map(|i| ew(format!("{tag}w{i}"))).collect(),
        zs: (0..nch).map(|i| e(format!("{tag}z{i}"))).collect(),
        zs_next: (0..nch).map(|i| e(format!("{tag}zn{i}"))).collect(),
        lzs: (0..nch * nlp).map(|i| e(format!("{tag}lz{i}"))).collect(),
        lzs_next: (0..nch * nlp).map(|i| e(format!("{tag}lzn{i}"))).collect(),
        pps: (0..nch * cd.num_partial_products).map(|i| e(format!("{tag}pp{i}"))).collect(),
        sigmas: (0..cd.config.num_routed_wires).map(|i| e(format!("{tag}sg{i}"))).collect(),
        pih: HashOut { elements: core::array::from_fn(|k| F::var(&format!("{tag}pih{k}"))) },
        betas: (0..nch).map(|i| F::var(&format!("beta{i}"))).collect(),
        gammas: (0..nch).map(|i| F::var(&format!("gamma{i}"))).collect(),
        alphas: (0..nch).map(|i| F::var(&format!("alpha{i}"))).collect(),
        deltas: (0..nch).flat_map(|i| ["chA", "chB", "chAlpha", "chDelta"].map(|n| F::var(&format!("{n}{i}")))).collect(),
    }
}

fn lookup_selectors_of<'a, F: VF>(cd: &CommonCircuitData<F, 2>, constants: &'a [Ext<F>]) -> &'a [Ext<F>] {
    let ns = cd.selectors_info.num_selectors();
    &constants[ns..ns + cd.num_lookup_selectors]
}

/// evaluations of the table polynomials at the challenge, computed the way
/// `prover.rs::compute_quotient_polys` does (`get_lut_poly(..).eval(delta)`)
fn lut_re_evals<F: VF>(cd: &CommonCircuitData<F, 2>, d4: &[F]) -> Vec<F> {
    let slots = hk::lookup_table_gate_num_slots(&cd.config);
    (0..cd.luts.len())
        .map(|t| {
            let rows = cd.luts[t].len().div_ceil(slots);
            hk::get_lut_poly_eval::<F, 2>(cd, t, d4, slots * rows, d4[CH_DELTA])
        })
        .collect()
}

// -------------------------------------------------------------------------------------------
// reference (Ob8.1b)

/// Reference list of the LogUp constraints of one challenge round, in protocol order.
///
/// Notation: a row has `S = routed/3` *looked* (table) slots (in_s, out_s, m_s) at wires 3s, 3s+1,
/// 3s+2 and `L = routed/2` *looking* slots (in_s, out_s) at wires 2s, 2s+1. Polynomials: RE and
/// SLDC_0..SLDC_{K-1} with K = ceil(L / (qdf-1)); looked slots are cut into K chunks of
/// ceil(S/K), looking slots into K chunks of qdf-1. With t_s = in_s + a out_s (looked),
/// f_s = in_s + a out_s (looking), prev_0 = SLDC_{K-1}(g x), prev_k = SLDC_{k-1}(x):
///
///   [ LastLdc  * SLDC_{K-1}(x),
///     InitSre  * SLDC_0(x),
///     InitSre  * RE(x),
///     End_t    * (RE(x) - sum_{i<N_t} (in_i + b out_i) delta^{N_t-1-i})      for every table t,
///                     (in_i,out_i) the table padded with its first entry to N_t = S*ceil(n_t/S)
///     TransSre * (RE(x) - (RE(g x) delta^S + sum_{s<S} (in_s + b out_s) delta^{S-1-s})),
///     for k < K:
///       TransSre * ( prod_{s in chunk_k}(alpha - t_s) (SLDC_k(x) - prev_k)
///                    - sum_{s in chunk_k} m_s prod_{s' != s}(alpha - t_s') ),
///       TransLdc * ( prod_{s in lchunk_k}(alpha - f_s) (SLDC_k(x) - prev_k)
///                    + sum_{s in lchunk_k} prod_{s' != s}(alpha - f_s') ) ]
fn reference_lookup_constraints<F: VF>(
    cd: &CommonCircuitData<F, 2>,
    wires: &[Ext<F>],
    lz: &[Ext<F>],
    nlz: &[Ext<F>],
    sel: &[Ext<F>],
    d: &[F],
) -> Vec<Ext<F>> {
    let routed = cd.config.num_routed_wires;
    let (s_looked, s_looking) = (routed / 3, routed / 2);
    let lchunk = cd.quotient_degree_factor - 1;
    let k_polys = s_looking.div_ceil(lchunk);
    let chunk = s_looked.div_ceil(k_polys);
    assert_eq!(lz.len(), k_polys + 1, "reference: number of lookup polynomials");
    let (a, b, alpha, delta) = (emb::<F>(d[CH_A]), emb::<F>(d[CH_B]), emb::<F>(d[CH_ALPHA]), emb::<F>(d[CH_DELTA]));
    let (re, re_next) = (lz[0], nlz[0]);
    let mut out = vec![];
    out.push(sel[LAST_LDC] * lz[k_polys]);
    out.push(sel[INIT_SRE] * lz[1]);
    out.push(sel[INIT_SRE] * re);
    for (t, table) in cd.luts.iter().enumerate() {
        let mut padded: Vec<(u16, u16)> = table.to_vec();
        while padded.len() % s_looked != 0 {
            padded.push(table[0]);
        }
        let n = padded.len();
        let mut val = Ext::<F>::ZERO;
        for (i, (x, y)) in padded.iter().enumerate() {
            val += (emb::<F>(c16(*x)) + b * emb::<F>(c16(*y))) * delta.exp_u64((n - 1 - i) as u64);
        }
        out.push(sel[START_END + t] * (re - val));
    }
    let mut acc = re_next * delta.exp_u64(s_looked as u64);
    for s in 0..s_looked {
        acc += (wires[3 * s] + b * wires[3 * s + 1]) * delta.exp_u64((s_looked - 1 - s) as u64);
    }
    out.push(sel[TRANS_SRE] * (re - acc));
    for k in 0..k_polys {
        let prev = if k == 0 { nlz[k_polys] } else { lz[k] };
        let diff = lz[1 + k] - prev;
        let idx: Vec<usize> = (k * chunk..((k + 1) * chunk).min(s_looked)).collect();
        let dens: Vec<Ext<F>> = idx.iter().map(|&s| alpha - (wires[3 * s] + a * wires[3 * s + 1])).collect();
        let prod: Ext<F> = dens.iter().copied().product();
        let mut sum = Ext::<F>::ZERO;
        for (x, &s) in idx.iter().enumerate() {
            let others: Ext<F> = dens.iter().enumerate().filter(|(y, _)| *y != x).map(|(_, v)| *v).product();
            sum += wires[3 * s + 2] * others;
        }
        out.push(sel[TRANS_SRE] * (prod * diff - sum));
        let idx: Vec<usize> = (k * lchunk..((k + 1) * lchunk).min(s_looking)).collect();
        let dens: Vec<Ext<F>> = idx.iter().map(|&s| alpha - (wires[2 * s] + a * wires[2 * s + 1])).collect();
        let prod: Ext<F> = dens.iter().copied().product();
        let mut sum = Ext::<F>::ZERO;
        for x in 0..idx.len() {
            let others: Ext<F> = dens.iter().enumerate().filter(|(y, _)| *y != x).map(|(_, v)| *v).product();
            sum += others;
        }
        out.push(sel[TRANS_LDC] * (prod * diff + sum));
    }
    out
}

fn real_vanishing<F: VF>(cd: &CommonCircuitData<F, 2>, x: Ext<F>, o: &Openings<F>) -> Vec<Ext<F>> {
    let vars = EvaluationVars { local_constants: &o.constants, local_wires: &o.wires, public_inputs_hash: &o.pih };
    hk::eval_vanishing_poly::<F, 2>(cd, x, vars, &o.zs, &o.zs_next, &o.lzs, &o.lzs_next, &o.pps, &o.sigmas, &o.betas, &o.gammas, &o.alphas, &o.deltas)
}

/// Reference vanishing expression *with lookups* (extends `plonk.rs::reference_vanishing`):
///   terms = [ L_0(x)(Z_i(x) - 1) ]_i ++ [ partial-product checks ]_{i,c}
///        ++ [ reference_lookup_constraints(round i) ]_i ++ [ filtered gate constraints ]_k
///   vanishing_i = sum_k alpha_i^k terms_k
fn reference_vanishing<F: VF>(cd: &CommonCircuitData<F, 2>, x: Ext<F>, o: &Openings<F>) -> Vec<Ext<F>> {
    let n = cd.degree();
    let one = Ext::<F>::ONE;
    let l0 = (x.exp_u64(n as u64) - one) / (Ext::<F>::from_canonical_usize(n) * (x - one));
    let nch = cd.config.num_challenges;
    let nlp = cd.num_lookup_polys;
    let mut z1 = vec![];
    let mut pp = vec![];
    let mut lk = vec![];
    let chunk = cd.quotient_degree_factor;
    let routed = cd.config.num_routed_wires;
    for i in 0..nch {
        z1.push(l0 * (o.zs[i] - one));
        let (beta, gamma) = (emb::<F>(o.betas[i]), emb::<F>(o.gammas[i]));
        let mut accs = vec![o.zs[i]];
        accs.extend_from_slice(&o.pps[i * cd.num_partial_products..(i + 1) * cd.num_partial_products]);
        accs.push(o.zs_next[i]);
        let cols: Vec<usize> = (0..routed).collect();
        for (c, js) in cols.chunks(chunk).enumerate() {
            let mut num = one;
            let mut den = one;
            for &j in js {
                num *= o.wires[j] + beta * emb::<F>(cd.k_is[j]) * x + gamma;
                den *= o.wires[j] + beta * o.sigmas[j] + gamma;
            }
            pp.push(accs[c] * num - accs[c + 1] * den);
        }
        lk.extend(reference_lookup_constraints::<F>(
            cd,
            &o.wires,
            &o.lzs[i * nlp..(i + 1) * nlp],
            &o.lzs_next[i * nlp..(i + 1) * nlp],
            lookup_selectors_of::<F>(cd, &o.constants),
            &o.deltas[4 * i..4 * i + 4],
        ));
    }
    let (sel_idx, groups) = hk::selectors_info_parts(&cd.selectors_info);
    let nsel = groups.len();
    let mut gate_terms = vec![Ext::<F>::ZERO; cd.num_gate_constraints];
    for (g, gate) in cd.gates.iter().enumerate() {
        let s = o.constants[sel_idx[g]];
        let mut filter = one;
        for j in groups[sel_idx[g]].clone() {
            if j != g {
                filter *= Ext::<F>::from_canonical_usize(j) - s;
            }
        }
        if nsel > 1 {
            filter *= Ext::<F>::from_canonical_usize(hk::unused_selector()) - s;
        }
        let consts = &o.constants[nsel + cd.num_lookup_selectors..];
        let vars = EvaluationVars { local_constants: consts, local_wires: &o.wires, public_inputs_hash: &o.pih };
        for (k, c) in gate.0.eval_unfiltered(vars).into_iter().enumerate() {
            gate_terms[k] += filter * c;
        }
    }
    let terms: Vec<Ext<F>> = z1.into_iter().chain(pp).chain(lk).chain(gate_terms).collect();
    o.alphas
        .iter()
        .map(|&a| {
            let a = emb::<F>(a);
            let mut acc = Ext::<F>::ZERO;
            for t in terms.iter().rev() {
                acc = acc * a + *t;
            }
            acc
        })
        .collect()
}

const LC_FILES: &[&str] = &[
    "plonky2/src/plonk/vanishing_poly.rs::check_lookup_constraints",
    "plonky2/src/plonk/vanishing_poly.rs::check_lookup_constraints_batch",
    "plonky2/src/plonk/vanishing_poly.rs::get_lut_poly",
    "plonky2/src/plonk/prover.rs::compute_quotient_polys",
    "plonky2/src/plonk/circuit_builder.rs::CircuitBuilder::build",
    "plonky2/src/gadgets/lookup.rs::add_all_lookups",
];
const VP_FILES: &[&str] = &[
    "plonky2/src/plonk/vanishing_poly.rs::eval_vanishing_poly",
    "plonky2/src/plonk/vanishing_poly.rs::eval_vanishing_poly_base_batch",
    "plonky2/src/plonk/vanishing_poly.rs::check_lookup_constraints",
    "plonky2/src/plonk/vanishing_poly.rs::check_lookup_constraints_batch",
    "plonky2/src/plonk/vanishing_poly.rs::get_lut_poly",
    "plonky2/src/plonk/circuit_builder.rs::CircuitBuilder::build",
];

// -------------------------------------------------------------------------------------------
// group 1: verifier evaluator == prover evaluator (Ob8.1a)

fn ev_constraints<F: VF>(ctx: &mut Ctx, v: &Variant) {
    let idp = format!("C08.S.lookup.ev.{}.constraints", v.name);
    ctx.guarded(&idp.clone(), LC_FILES, |ctx| {
        if F::SYMBOLIC {
            crate::reset();
        }
        let bt = build::<F>(v);
        let cd = &bt.data.common;
        let bs = 2usize;
        let os: Vec<Openings<F>> = (0..bs).map(|k| sym_openings::<F>(cd, true, true, &format!("p{k}"))).collect();
        let d4: [F; 4] = core::array::from_fn(|k| os[0].deltas[k]);
        let base = |x: &Vec<Ext<F>>| -> Vec<F> { x.iter().map(|e| limbs::<F>(*e)[0]).collect() };
        let (nc, nw) = (cd.num_constants, cd.config.num_wires);
        let mut lc = vec![F::ZERO; nc * bs];
        let mut lw = vec![F::ZERO; nw * bs];
        for k in 0..bs {
            for (j, x) in base(&os[k].constants).into_iter().enumerate() {
                lc[j * bs + k] = x;
            }
            for (j, x) in base(&os[k].wires).into_iter().enumerate() {
                lw[j * bs + k] = x;
            }
        }
        let pih = os[0].pih;
        let batch = EvaluationVarsBaseBatch::new(bs, &lc, &lw, &pih);
        let evals = lut_re_evals::<F>(cd, &d4);
        let nlp = cd.num_lookup_polys;
        let ns = cd.selectors_info.num_selectors();
        let want_len = 4 + cd.luts.len() + 2 * (nlp - 1);
        let mut goals = vec![];
        for k in 0..bs {
            let o = &os[k];
            let vars = EvaluationVars { local_constants: &o.constants, local_wires: &o.wires, public_inputs_hash: &o.pih };
            let ext = hk::check_lookup_constraints::<F, 2>(cd, vars, &o.lzs[..nlp], &o.lzs_next[..nlp], lookup_selectors_of::<F>(cd, &o.constants), &d4);
            let sel_b: Vec<F> = base(&o.constants)[ns..ns + cd.num_lookup_selectors].to_vec();
            let bas = hk::check_lookup_constraints_batch::<F, 2>(cd, batch, k, &base(&o.lzs)[..nlp], &base(&o.lzs_next)[..nlp], &sel_b, &d4, &evals);
            goals.push(A::Bool(ext.len() == want_len && bas.len() == want_len));
            for (e, b) in ext.iter().zip(&bas) {
                goals.extend(eq_ext::<F>(*e, emb::<F>(*b)));
            }
        }
        ctx.add(
            Ob::new(idp.clone(), LC_FILES, format!("{}; every opening (constants incl. lookup selectors, wires, lookup_zs, next_lookup_zs) and the four challenges a, b, alpha, delta symbolic base-field values; batch of 2 points", describe(v, &bt)))
                .sample("check_lookup_constraints (verifier, extension field) == check_lookup_constraints_batch (prover; lut_re_poly_evals = get_lut_poly(..).eval(delta) as in compute_quotient_polys) on base-embedded openings, constraint by constraint")
                .goals(goals)
                .key("lookup:prover-verifier-disagree"),
        );
    });
}

fn ev_vanishing<F: VF>(ctx: &mut Ctx, v: &Variant) {
    let idp = format!("C08.S.lookup.ev.{}.vanishing", v.name);
    ctx.guarded(&idp.clone(), VP_FILES, |ctx| {
        if F::SYMBOLIC {
            crate::reset();
        }
        let bt = build::<F>(v);
        let cd = &bt.data.common;
        let qdb = plonky2_util::log2_ceil(cd.quotient_degree_factor);
        let zh = ZeroPolyOnCoset::<F>::new(cd.degree_bits(), qdb);
        let lde_bits = cd.degree_bits() + qdb;
        let g = F::primitive_root_of_unity(lde_bits);
        let bs = 2usize;
        let idxs: Vec<usize> = (0..bs).map(|k| (5 * k + 3) % (1 << lde_bits)).collect();
        let xs: Vec<F> = idxs.iter().map(|&i| F::coset_shift() * g.exp_u64(i as u64)).collect();
        let os: Vec<Openings<F>> = (0..bs).map(|k| sym_openings::<F>(cd, true, true, &format!("p{k}"))).collect();
        let base = |x: &Vec<Ext<F>>| -> Vec<F> { x.iter().map(|e| limbs::<F>(*e)[0]).collect() };
        let (nc, nw) = (cd.num_constants, cd.config.num_wires);
        let mut lc = vec![F::ZERO; nc * bs];
        let mut lw = vec![F::ZERO; nw * bs];
        for k in 0..bs {
            for (j, x) in base(&os[k].constants).into_iter().enumerate() {
                lc[j * bs + k] = x;
            }
            for (j, x) in base(&os[k].wires).into_iter().enumerate() {
                lw[j * bs + k] = x;
            }
        }
        let pih = os[0].pih;
        let vars = EvaluationVarsBaseBatch::new(bs, &lc, &lw, &pih);
        let col = |f: &dyn Fn(&Openings<F>) -> Vec<F>| -> Vec<Vec<F>> { os.iter().map(|o| f(o)).collect() };
        let zsb = col(&|o| base(&o.zs));
        let znb = col(&|o| base(&o.zs_next));
        let lzb = col(&|o| base(&o.lzs));
        let lnb = col(&|o| base(&o.lzs_next));
        let ppb = col(&|o| base(&o.pps));
        let sgb = col(&|o| base(&o.sigmas));
        fn r<T>(v: &[Vec<T>]) -> Vec<&[T]> {
            v.iter().map(|x| x.as_slice()).collect()
        }
        let nch = cd.config.num_challenges;
        let evals: Vec<Vec<F>> = (0..nch).map(|i| lut_re_evals::<F>(cd, &os[0].deltas[4 * i..4 * i + 4])).collect();
        let res = hk::eval_vanishing_poly_base_batch::<F, 2>(
            cd, &idxs, &xs, vars, &r(&zsb), &r(&znb), &r(&lzb), &r(&lnb), &r(&ppb), &r(&sgb), &os[0].betas, &os[0].gammas, &os[0].deltas, &os[0].alphas, &zh, &r(&evals),
        );
        let mut goals = vec![A::Bool(res.len() == bs)];
        for k in 0..bs {
            let mut o = sym_openings::<F>(cd, true, true, &format!("p{k}"));
            o.pih = pih;
            let e = real_vanishing::<F>(cd, emb::<F>(xs[k]), &o);
            goals.push(A::Bool(res[k].len() == e.len()));
            for (a, b) in res[k].iter().zip(&e) {
                goals.extend(eq_ext::<F>(emb::<F>(*a), *b));
            }
        }
        ctx.add(
            Ob::new(idp.clone(), VP_FILES, format!("{}; batch of {bs} LDE-coset points (concrete indices {idxs:?}); all openings and all challenges (beta, gamma, alpha, lookup a/b/alpha/delta per round) symbolic base-field values", describe(v, &bt)))
                .sample("eval_vanishing_poly_base_batch (prover, with lookup polynomials and lut_re_poly_evals) == eval_vanishing_poly (verifier) on base-embedded openings at the same point")
                .goals(goals)
                .key("lookup:prover-verifier-disagree"),
        );
    });
}

// -------------------------------------------------------------------------------------------
// group 2: real == reference (Ob8.1b)

fn ref_constraints<F: VF>(ctx: &mut Ctx, v: &Variant) {
    let idp = format!("C08.S.lookup.ref.{}.constraints", v.name);
    ctx.guarded(&idp.clone(), LC_FILES, |ctx| {
        if F::SYMBOLIC {
            crate::reset();
        }
        let bt = build::<F>(v);
        let cd = &bt.data.common;
        let wide = v.shape == Shape::Wide;
        // wide rows: products of 7 extension-valued factors would blow up the normal form (5^7
        // monomials per limb); the wires are base-field symbols there, everything else extension
        let o = sym_openings::<F>(cd, false, wide, "");
        let nlp = cd.num_lookup_polys;
        let d4: [F; 4] = core::array::from_fn(|k| o.deltas[k]);
        let vars = EvaluationVars { local_constants: &o.constants, local_wires: &o.wires, public_inputs_hash: &o.pih };
        let sel = lookup_selectors_of::<F>(cd, &o.constants);
        let real = hk::check_lookup_constraints::<F, 2>(cd, vars, &o.lzs[..nlp], &o.lzs_next[..nlp], sel, &d4);
        let refc = reference_lookup_constraints::<F>(cd, &o.wires, &o.lzs[..nlp], &o.lzs_next[..nlp], sel, &d4);
        let mut goals = vec![A::Bool(real.len() == refc.len()), A::Bool(cd.num_lookup_selectors == 4 + cd.luts.len())];
        for (a, b) in real.iter().zip(&refc) {
            goals.extend(eq_ext::<F>(*a, *b));
        }
        ctx.add(
            Ob::new(idp.clone(), LC_FILES, format!("{}; lookup selectors, lookup_zs, next_lookup_zs symbolic extension-field values, wires symbolic {} values, challenges a, b, alpha, delta symbolic", describe(v, &bt), if wide { "base-field (embedded)" } else { "extension-field" }))
                .sample("check_lookup_constraints(..)[k] == k-th reference LogUp constraint [LastLdc*SLDC_last, InitSre*SLDC_0, InitSre*RE, End_t*(RE - padded-table polynomial(delta)), TransSre*RE-transition, (TransSre*Sum-chunk_k, TransLdc*LDC-chunk_k)_k] in this (protocol-defining) order")
                .goals(goals)
                .key("lookup:differs-from-reference"),
        );
    });
}

fn ref_vanishing<F: VF>(ctx: &mut Ctx, v: &Variant) {
    let idp = format!("C08.S.lookup.ref.{}.vanishing", v.name);
    ctx.guarded(&idp.clone(), VP_FILES, |ctx| {
        if F::SYMBOLIC {
            crate::reset();
        }
        let bt = build::<F>(v);
        let cd = &bt.data.common;
        let o = sym_openings::<F>(cd, false, false, "");
        let x = F::ext("zeta");
        let real = F::assume_ne(|| real_vanishing::<F>(cd, x, &o));
        let refv = reference_vanishing::<F>(cd, x, &o);
        let gates: Vec<String> = cd.gates.iter().map(|g| g.0.id().chars().take(24).collect()).collect();
        let mut goals = vec![A::Bool(real.len() == refv.len())];
        for (a, b) in real.iter().zip(&refv) {
            goals.extend(eq_ext::<F>(*a, *b));
        }
        ctx.add(
            Ob::new(idp.clone(), VP_FILES, format!("{}; gates {:?}; every opening, challenge and the evaluation point symbolic (extension field)", describe(v, &bt), gates))
                .sample("eval_vanishing_poly(openings incl. lookup_zs, challenges incl. deltas, zeta)[i] == sum_k alpha_i^k * [L_0(Z_i-1) | partial products | reference LogUp constraints per round | filtered gate constraints]_k")
                .goals(goals)
                .key("lookup:vanishing-differs-from-reference"),
        );
    });
}

// -------------------------------------------------------------------------------------------
// honest traces (shared by rows / sound / wiring)

struct Trace<F: VF> {
    bt: Built<F>,
    mw: MatrixWitness<F>,
    /// constants (selectors, lookup selectors, gate constants) per row, read back from the
    /// committed constant polynomials (what the verifier's cap binds)
    consts: Vec<Vec<F>>,
    n: usize,
    /// (witness value of each lookup's output target, the table's value)
    outs: Vec<(F, F)>,
    /// (witness value of out_0 * y, table value * y)
    prod: (F, F),
}

fn honest_trace<F: VF>(v: &Variant) -> Trace<F> {
    let bt = build::<F>(v);
    let y = F::var("y");
    let (mw, outs, prod) = {
        let mut pw = PartialWitness::<F>::new();
        for (x, (_, inp)) in bt.xs.iter().zip(&v.lookups) {
            pw.set_target(*x, c16(*inp)).unwrap();
        }
        pw.set_target(bt.y, y).unwrap();
        let mut wit = F::assume_ne(|| generate_partial_witness(pw, &bt.data.prover_only, &bt.data.common)).expect("witness generation failed");
        set_lookup_wires(&bt.data.prover_only, &bt.data.common, &mut wit).expect("set_lookup_wires failed");
        let table_val = |t: usize, inp: u16| -> F { c16(bt.tables[t].iter().find(|(i, _)| *i == inp).expect("looked-up input is a table entry").1) };
        let outs: Vec<(F, F)> = bt.outs.iter().zip(&v.lookups).map(|(o, (t, inp))| (wit.get_target(*o), table_val(*t, *inp))).collect();
        let prod = (wit.get_target(bt.prod), table_val(v.lookups[0].0, v.lookups[0].1) * y);
        (wit.full_witness(), outs, prod)
    };
    let n = bt.data.common.degree();
    let polys = &bt.data.prover_only.constants_sigmas_commitment.polynomials;
    let nc = bt.data.common.num_constants;
    let consts: Vec<Vec<F>> = (0..n).map(|r| (0..nc).map(|j| polys[j].eval(bt.data.prover_only.subgroup[r])).collect()).collect();
    Trace { bt, mw, consts, n, outs, prod }
}

fn sym_challenges<F: VF>() -> [F; 4] {
    [F::var("chA"), F::var("chB"), F::var("chAlpha"), F::var("chDelta")]
}

fn lookup_selector_row<F: VF>(tr: &Trace<F>, r: usize) -> Vec<F> {
    let cd = &tr.bt.data.common;
    let ns = cd.selectors_info.num_selectors();
    tr.consts[r][ns..ns + cd.num_lookup_selectors].to_vec()
}

/// the verifier-side constraints on row r (next = row r+1 cyclically) for given polynomial values
fn row_constraints<F: VF>(tr: &Trace<F>, mw: &MatrixWitness<F>, polys: &[Vec<F>], d4: &[F; 4], r: usize) -> Vec<Ext<F>> {
    let cd = &tr.bt.data.common;
    let wires: Vec<Ext<F>> = (0..cd.config.num_wires).map(|j| emb::<F>(mw.get_wire(r, j))).collect();
    let consts: Vec<Ext<F>> = tr.consts[r].iter().map(|c| emb::<F>(*c)).collect();
    let pih = HashOut { elements: [F::ZERO; 4] };
    let vars = EvaluationVars { local_constants: &consts, local_wires: &wires, public_inputs_hash: &pih };
    let lz: Vec<Ext<F>> = polys.iter().map(|p| emb::<F>(p[r])).collect();
    let nlz: Vec<Ext<F>> = polys.iter().map(|p| emb::<F>(p[(r + 1) % tr.n])).collect();
    hk::check_lookup_constraints::<F, 2>(cd, vars, &lz, &nlz, lookup_selectors_of::<F>(cd, &consts), d4)
}

/// the prover-side constraints on row r
fn row_constraints_base<F: VF>(tr: &Trace<F>, mw: &MatrixWitness<F>, polys: &[Vec<F>], d4: &[F; 4], r: usize) -> Vec<F> {
    let cd = &tr.bt.data.common;
    let wires: Vec<F> = (0..cd.config.num_wires).map(|j| mw.get_wire(r, j)).collect();
    let pih = HashOut { elements: [F::ZERO; 4] };
    let batch = EvaluationVarsBaseBatch::new(1, &tr.consts[r], &wires, &pih);
    let lz: Vec<F> = polys.iter().map(|p| p[r]).collect();
    let nlz: Vec<F> = polys.iter().map(|p| p[(r + 1) % tr.n]).collect();
    hk::check_lookup_constraints_batch::<F, 2>(cd, batch, 0, &lz, &nlz, &lookup_selector_row(tr, r), d4, &lut_re_evals::<F>(cd, d4))
}

const ROW_FILES: &[&str] = &[
    "plonky2/src/plonk/prover.rs::compute_lookup_polys",
    "plonky2/src/plonk/prover.rs::set_lookup_wires",
    "plonky2/src/plonk/vanishing_poly.rs::check_lookup_constraints",
    "plonky2/src/plonk/vanishing_poly.rs::check_lookup_constraints_batch",
    "plonky2/src/plonk/vanishing_poly.rs::get_lut_poly",
    "plonky2/src/gadgets/lookup.rs::add_all_lookups",
    "plonky2/src/gates/lookup.rs::LookupGenerator",
    "plonky2/src/gates/lookup_table.rs::LookupTableGenerator",
    "plonky2/src/gates/selectors.rs::selectors_lookup",
    "plonky2/src/gates/selectors.rs::selector_ends_lookups",
    "plonky2/src/iop/generator.rs::generate_partial_witness",
];

// -------------------------------------------------------------------------------------------
// group 3: row semantics (Ob8.2)

fn rows<F: VF>(ctx: &mut Ctx, v: &Variant) {
    let idp = format!("C08.S.lookup.rows.{}", v.name);
    ctx.guarded(&idp.clone(), ROW_FILES, |ctx| {
        if F::SYMBOLIC {
            crate::reset();
        }
        let tr = honest_trace::<F>(v);
        let cd = &tr.bt.data.common;
        let desc = describe(v, &tr.bt);
        let lrows = &tr.bt.data.prover_only.lookup_rows;

        // lookups output the table's value; the consuming gate sees it
        let mut goals: Vec<A> = tr.outs.iter().map(|(g, w)| eq(*g, *w)).collect();
        goals.push(eq(tr.prod.0, tr.prod.1));
        ctx.add(
            Ob::new(format!("{idp}.outputs"), ROW_FILES, format!("{desc}; looked-up inputs concrete table entries, y symbolic"))
                .sample("witness value of add_lookup_from_index(x, t) == table_t[x] for every lookup; out_0 * y == table[x_0] * y")
                .goals(goals)
                .key("lookup:wrong-output"),
        );

        // lookup selectors read from the committed constants == documented domains
        let mut ok = cd.num_lookup_selectors == 4 + lrows.len();
        for r in 0..tr.n {
            let s = lookup_selector_row(&tr, r);
            let ind = |b: bool| if b { F::ONE } else { F::ZERO };
            ok &= s[TRANS_SRE] == ind(lrows.iter().any(|w| w.last_lut_gate <= r && r <= w.first_lut_gate));
            ok &= s[TRANS_LDC] == ind(lrows.iter().any(|w| w.last_lu_gate <= r && r < w.last_lut_gate));
            ok &= s[INIT_SRE] == ind(lrows.iter().any(|w| r == w.first_lut_gate + 1));
            ok &= s[LAST_LDC] == ind(lrows.iter().any(|w| r == w.last_lu_gate));
            for (t, w) in lrows.iter().enumerate() {
                ok &= s[START_END + t] == ind(r == w.last_lut_gate);
            }
        }
        ctx.add(
            Ob::new(format!("{idp}.selectors"), ROW_FILES, format!("{desc}; lookup_rows {:?}", lrows.iter().map(|w| (w.last_lu_gate, w.last_lut_gate, w.first_lut_gate)).collect::<Vec<_>>()))
                .sample("lookup selector columns of the committed constants == indicators of [last_lut,first_lut] (TransSre), [last_lu,last_lut) (TransLdc), {first_lut+1} (InitSre), {last_lu} (LastLdc), {last_lut of table t} (End_t)")
                .goal(A::Bool(ok))
                .key("lookup:selector-domains"),
        );

        let d4 = sym_challenges::<F>();
        let polys = F::assume_ne(|| hk::compute_lookup_polys::<F, F::Cfg, 2>(&tr.mw, &d4, &tr.bt.data.prover_only, cd));
        let mut inactive_ok = polys.len() == cd.num_lookup_polys;
        let mut inactive = vec![];
        let mut active_rows: Vec<(usize, Vec<A>, Vec<&str>)> = vec![];
        for r in 0..tr.n {
            let cs = row_constraints::<F>(&tr, &tr.mw, &polys, &d4, r);
            let cb = row_constraints_base::<F>(&tr, &tr.mw, &polys, &d4, r);
            let len_ok = cs.len() == 4 + cd.luts.len() + 2 * (cd.num_lookup_polys - 1) && cb.len() == cs.len();
            // symbolic run: rows whose constraints are the literal constant 0 (all selectors zero,
            // or the zero row after a table) are collected into one obligation
            let concrete_zero = cs.iter().all(|c| limbs::<F>(*c).iter().all(|x| x.to_op() == crate::Op::C(0))) && cb.iter().all(|x| x.to_op() == crate::Op::C(0));
            let active = lookup_selector_row(&tr, r).iter().any(|s| *s != F::ZERO);
            if !active || (F::SYMBOLIC && concrete_zero) {
                inactive.push(r);
                inactive_ok &= len_ok && concrete_zero;
                continue;
            }
            let mut goals = vec![A::Bool(len_ok)];
            for c in &cs {
                goals.extend(eq_ext::<F>(*c, Ext::<F>::ZERO));
            }
            for c in &cb {
                goals.push(eq(*c, F::ZERO));
            }
            let role: Vec<&str> = lookup_selector_row(&tr, r)
                .iter()
                .enumerate()
                .filter(|(_, s)| **s != F::ZERO)
                .map(|(i, _)| match i {
                    TRANS_SRE => "table row (Sum/RE transition)",
                    TRANS_LDC => "looking row (LDC transition)",
                    INIT_SRE => "zero row after the table (initial values)",
                    LAST_LDC => "last looking row (final sum)",
                    _ => "last table row (RE == table polynomial)",
                })
                .collect();
            active_rows.push((r, goals, role));
        }
        ctx.add(
            Ob::new(format!("{idp}.zero-rows"), ROW_FILES, format!("{desc}; rows {inactive:?} (all lookup selectors zero, or the zero row after a table where the prover's polynomials are 0)"))
                .sample("on rows outside the lookup regions, and on the zero row after each table, every lookup constraint of both evaluators is the constant 0")
                .goal(A::Bool(inactive_ok))
                .key("lookup:honest-trace-rejected"),
        );
        for (r, goals, role) in active_rows {
            ctx.add(
                Ob::new(format!("{idp}.r{r}"), ROW_FILES, format!("{desc}; honest witness (real generators + set_lookup_wires), lookup polynomials from the real compute_lookup_polys; challenges a, b, alpha, delta symbolic; y symbolic; row {r}: {role:?}"))
                    .sample(format!("every constraint of check_lookup_constraints and of check_lookup_constraints_batch is 0 at (local = row {r}, next = row {}) of the honest trace, for all challenges", (r + 1) % tr.n))
                    .goals(goals)
                    .key("lookup:honest-trace-rejected"),
            );
        }
    });
}

// -------------------------------------------------------------------------------------------
// group 4: soundness core (Ob8.3)

const SOUND_FILES: &[&str] = &[
    "plonky2/src/plonk/vanishing_poly.rs::check_lookup_constraints",
    "plonky2/src/plonk/prover.rs::compute_lookup_polys",
    "plonky2/src/gates/selectors.rs::selectors_lookup",
    "plonky2/src/gadgets/lookup.rs::add_all_lookups",
];

#[derive(Clone, Copy, PartialEq, Eq, Debug)]
enum Bad {
    /// output wire of the looking pair += delta (symbolic)
    Out,
    /// input wire of the looking pair += delta (symbolic)
    In,
    /// output replaced by the value another table has for this input (concrete)
    OtherTable(usize),
}

/// (row, slot) of the j-th lookup of table t: full `LookupGate` rows first, the remainder after
fn lu_position<F: VF>(tr: &Trace<F>, v: &Variant, j: usize) -> (usize, usize, usize) {
    let (t, _) = v.lookups[j];
    let nth = v.lookups[..j].iter().filter(|(tt, _)| *tt == t).count();
    let slots = hk::lookup_gate_num_slots(&tr.bt.data.common.config);
    let w = &tr.bt.data.prover_only.lookup_rows[t];
    (w.last_lu_gate + nth / slots, nth % slots, t)
}

/// alter looking pair j of the honest trace; returns (altered witness, honest combo parts (in,out), delta)
fn bad_trace<F: VF>(tr: &Trace<F>, v: &Variant, j: usize, bad: Bad, delta: F) -> (MatrixWitness<F>, F, F, F) {
    let (row, slot, t) = lu_position(tr, v, j);
    let (ci, co) = (LookupGate::wire_ith_looking_inp(slot), LookupGate::wire_ith_looking_out(slot));
    let (inp, out) = (tr.mw.get_wire(row, ci), tr.mw.get_wire(row, co));
    assert!(inp == c16(v.lookups[j].1), "looking pair {j} is not where the documentation places it");
    let mut mw = tr.mw.clone();
    let d = match bad {
        Bad::Out => {
            hk::matrix_witness_set(&mut mw, row, co, out + delta);
            delta
        }
        Bad::In => {
            hk::matrix_witness_set(&mut mw, row, ci, inp + delta);
            delta
        }
        Bad::OtherTable(t2) => {
            assert!(t2 != t);
            let other = c16::<F>(tr.bt.tables[t2].iter().find(|(i, _)| *i == v.lookups[j].1).expect("input present in the other table").1);
            assert!(other != out, "tables agree on this input");
            assert!(!tr.bt.tables[t].contains(&(v.lookups[j].1, tr.bt.tables[t2].iter().find(|(i, _)| *i == v.lookups[j].1).unwrap().1)));
            hk::matrix_witness_set(&mut mw, row, co, other);
            other - out
        }
    };
    (mw, inp, out, d)
}

/// `forgery == false`: closed form of the final sum for a bad pair (+ it is the only rejecting
/// constraint); `forgery == true`: the shifted-running-sum forgery attempt (emitted last: its
/// queries are the expensive ones).
fn sound_closed_form<F: VF>(ctx: &mut Ctx, v: &Variant, j: usize, bad: Bad, forgery: bool) {
    let tag = match bad {
        Bad::Out => "out".to_string(),
        Bad::In => "in".to_string(),
        Bad::OtherTable(t) => format!("table{t}-pair"),
    };
    let idp = format!("C08.S.lookup.{}.{}.{}", if forgery { "forgery" } else { "sound" }, v.name, tag);
    ctx.guarded(&idp.clone(), SOUND_FILES, |ctx| {
        if F::SYMBOLIC {
            crate::reset();
        }
        let tr = honest_trace::<F>(v);
        let cd = &tr.bt.data.common;
        let delta = F::var("delta");
        let (mw, inp, out, d) = bad_trace::<F>(&tr, v, j, bad, delta);
        let (_, _, t) = lu_position(&tr, v, j);
        let w = &tr.bt.data.prover_only.lookup_rows[t];
        let d4 = sym_challenges::<F>();
        let polys = F::assume_ne(|| hk::compute_lookup_polys::<F, F::Cfg, 2>(&mw, &d4, &tr.bt.data.prover_only, cd));
        // the final-sum constraint: constraint 0 on the last looking row (LastLdc = 1 there)
        let cs = row_constraints::<F>(&tr, &mw, &polys, &d4, w.last_lu_gate);
        let fin = limbs::<F>(cs[0]);
        let (a, alpha) = (d4[CH_A], d4[CH_ALPHA]);
        let honest = inp + a * out;
        // Sum - LDC: everything cancels except 1/(alpha - honest combo) - 1/(alpha - altered combo)
        let shift = if bad == Bad::In { d } else { a * d };
        let closed = -shift * (alpha - honest).inverse() * (alpha - honest - shift).inverse();
        let what = match bad {
            Bad::Out => format!("looking pair {j} of table {t}: output wire += delta (delta symbolic)"),
            Bad::In => format!("looking pair {j} of table {t}: input wire += delta (delta symbolic; multiplicities as for the honest input)"),
            Bad::OtherTable(t2) => format!("looking pair {j} of table {t}: output replaced by table {t2}'s value for the same input (a pair that only table {t2} contains)"),
        };
        if !forgery {
        ctx.add(
            Ob::new(format!("{idp}.closed-form"), SOUND_FILES, format!("{}; {what}; everything else honest; lookup polynomials recomputed by the real compute_lookup_polys; challenges symbolic", describe(v, &tr.bt)))
                .sample("the LastLdc constraint (constraint 0 of check_lookup_constraints on the last looking row) == 1/(alpha - (in + a out)) - 1/(alpha - (in' + a out')) = -shift / ((alpha - c)(alpha - c - shift)), shift = a*delta (output altered) or delta (input altered): as a rational function of the challenges it is the difference of two distinct simple poles")
                .goal(eq(fin[0], closed))
                .goal(eq(fin[1], F::ZERO))
                .key("lookup:bad-pair-final-sum"),
        );
        // ... which vanishes only if a*delta == 0
        let mut ob = Ob::new(format!("{idp}.nonzero"), SOUND_FILES, format!("{}; {what}; poles alpha = combo excluded (inverted quantities non-zero)", describe(v, &tr.bt)))
            .sample("closed form of the final-sum constraint == 0  ==>  a == 0 or delta == 0 (i.e. for a pair not in the table the LastLdc constraint fails unless the challenge a is 0 or alpha hits a pole)")
            .hyp(eq(closed, F::ZERO))
            .key("lookup:bad-pair-final-sum");
        ob = match bad {
            Bad::Out => ob.goal(A::AnyEq(vec![(a.to_op(), crate::Op::C(0)), (delta.to_op(), crate::Op::C(0))])),
            Bad::In => ob.goal(eq(delta, F::ZERO)),
            Bad::OtherTable(_) => ob.goal(eq(a, F::ZERO)),
        };
        ctx.add(ob);
        // every *other* constraint still holds on every row: LastLdc is the only thing that rejects
        let mut rest = vec![];
        for r in 0..tr.n {
            let cs = row_constraints::<F>(&tr, &mw, &polys, &d4, r);
            for (k, c) in cs.iter().enumerate() {
                if !(r == w.last_lu_gate && k == 0) {
                    rest.extend(eq_ext::<F>(*c, Ext::<F>::ZERO));
                }
            }
        }
        ctx.add(
            Ob::new(format!("{idp}.only-final-sum-rejects"), SOUND_FILES, format!("{}; {what}", describe(v, &tr.bt)))
                .sample("on the altered trace with the prover's polynomials every lookup constraint other than LastLdc on the last looking row is 0 on every row (so the rejection rests on that one constraint)")
                .goals(rest)
                .key("lookup:bad-pair-other-constraints"),
        );
        }
        // A cheating prover knows the challenges before committing the lookup polynomials. The
        // running sum starts from SLDC_last on the zero row after the table (prev_0 of the first
        // table row); shift the whole running sum of this table by c = -(Sum - LDC) from there on.
        // A sound constraint system must reject these polynomials on some row.
        let nlp = cd.num_lookup_polys;
        if forgery && nlp > 2 {
            let c = shift * (alpha - honest).inverse() * (alpha - honest - shift).inverse();
            let mut forged = polys.clone();
            for p in 1..nlp {
                for r in w.last_lu_gate..=w.first_lut_gate {
                    forged[p][r] += c;
                }
                if p == nlp - 1 {
                    forged[p][w.first_lut_gate + 1] = c;
                }
            }
            let mut pairs = vec![];
            for r in 0..tr.n {
                for cst in row_constraints::<F>(&tr, &mw, &forged, &d4, r) {
                    for x in limbs::<F>(cst) {
                        pairs.push((x.to_op(), crate::Op::C(0)));
                    }
                }
            }
            let mut ob = Ob::new(format!("{idp}.no-forgery"), SOUND_FILES, format!("{}; {what}; lookup polynomials = the prover's, with c = shift/((alpha-c0)(alpha-c0-shift)) added to SLDC_0..SLDC_last on rows {}..={} of this table and SLDC_last := c on the zero row {}; challenges symbolic", describe(v, &tr.bt), w.last_lu_gate, w.first_lut_gate, w.first_lut_gate + 1))
                .sample("a != 0, delta != 0 (the pair is not in the table)  ==>  some lookup constraint is non-zero on some row for the shifted polynomials (InitSre pins only SLDC_0 and RE on the zero row; the Sum transition of the first table row starts from SLDC_last of that row)")
                .goal(A::AnyNe(pairs))
                .key("lookup:running-sum-start-unconstrained");
            ob = match bad {
                Bad::Out => ob.hyp(crate::ctx::ne(a, F::ZERO)).hyp(crate::ctx::ne(delta, F::ZERO)),
                Bad::In => ob.hyp(crate::ctx::ne(delta, F::ZERO)),
                Bad::OtherTable(_) => ob.hyp(crate::ctx::ne(a, F::ZERO)),
            };
            ctx.add(ob);
        }
    });
}

fn seeded<F: VF>(seed: u64) -> [F; 4] {
    core::array::from_fn(|k| {
        let mut h = (seed + 1).wrapping_mul(0x9E37_79B9_7F4A_7C15) ^ ((k as u64 + 1) << 32);
        h ^= h >> 31;
        h = h.wrapping_mul(0xD6E8_FEB8_6659_FD93);
        F::from_canonical_u64(h % 0xFFFF_FFFF_0000_0001)
    })
}

/// The constraints (all but LastLdc) must determine the running sums: for fixed challenges the
/// lookup-polynomial values are free symbols on every row; if every constraint other than
/// LastLdc vanishes everywhere, SLDC_last on the last looking row of each table is the value the
/// real prover routine computes (Sum - LDC), whose non-vanishing for a bad pair is `.closed-form`.
fn sound_determined<F: VF>(ctx: &mut Ctx, v: &Variant, j: usize, seed: u64) {
    let idp = format!("C08.S.lookup.sound.{}.determined.s{seed}", v.name);
    ctx.guarded(&idp.clone(), SOUND_FILES, |ctx| {
        if F::SYMBOLIC {
            crate::reset();
        }
        let tr = honest_trace::<F>(v);
        let cd = &tr.bt.data.common;
        let (mw, _, _, _) = bad_trace::<F>(&tr, v, j, Bad::Out, F::ONE);
        let d4 = seeded::<F>(seed);
        let honest_polys = hk::compute_lookup_polys::<F, F::Cfg, 2>(&mw, &d4, &tr.bt.data.prover_only, cd);
        let nlp = cd.num_lookup_polys;
        let z: Vec<Vec<F>> = (0..nlp).map(|p| (0..tr.n).map(|r| F::var(&format!("Z{p}_{r}"))).collect()).collect();
        let mut hyps = vec![];
        for r in 0..tr.n {
            let cs = row_constraints::<F>(&tr, &mw, &z, &d4, r);
            for (k, c) in cs.iter().enumerate() {
                if k == 0 {
                    continue; // LastLdc
                }
                let l = limbs::<F>(*c);
                for x in l {
                    // (symbolic run: constraints that are the literal constant 0 are skipped)
                    if !F::SYMBOLIC || x.to_op() != crate::Op::C(0) {
                        hyps.push(eq(x, F::ZERO));
                    }
                }
            }
        }
        let lrows = &tr.bt.data.prover_only.lookup_rows;
        let goals: Vec<A> = lrows.iter().map(|w| eq(z[nlp - 1][w.last_lu_gate], honest_polys[nlp - 1][w.last_lu_gate])).collect();
        ctx.add(
            Ob::new(idp.clone(), SOUND_FILES, format!("{}; looking pair {j}: output wire += 1 (not a table entry); challenges fixed to seeded constants (seed {seed}: a, b, alpha, delta = {:?}); the {} x {} lookup-polynomial values Z[p][row] free symbols", describe(v, &tr.bt), d4.iter().map(|x| x.to_op()).collect::<Vec<_>>(), nlp, tr.n))
                .sample("every constraint of check_lookup_constraints except LastLdc is 0 on every row  ==>  SLDC_last(last looking row of table t) == the prover's value Sum_t - LDC_t, for every table t.  (The challenges are known before the lookup polynomials are committed, so a cheating prover may choose Z freely: if the constraints leave the running sum's start undetermined, LastLdc can be satisfied for a pair that is not in the table.)")
                .hyps(hyps)
                .goals(goals)
                .key("lookup:running-sum-start-unconstrained"),
        );
    });
}

// -------------------------------------------------------------------------------------------
// group 5: slot arithmetic, padding, multiplicities

const WIRE_FILES: &[&str] = &[
    "plonky2/src/gates/lookup.rs::LookupGate",
    "plonky2/src/gates/lookup_table.rs::LookupTableGate",
    "plonky2/src/gates/lookup_table.rs::LookupTableGenerator",
    "plonky2/src/plonk/prover.rs::set_lookup_wires",
    "plonky2/src/gadgets/lookup.rs::add_all_lookups",
];

fn wiring<F: VF>(ctx: &mut Ctx, v: &Variant) {
    let idp = format!("C08.S.lookup.wiring.{}", v.name);
    ctx.guarded(&idp.clone(), WIRE_FILES, |ctx| {
        if F::SYMBOLIC {
            crate::reset();
        }
        let tr = honest_trace::<F>(v);
        let cd = &tr.bt.data.common;
        let desc = describe(v, &tr.bt);
        let routed = cd.config.num_routed_wires;
        let (s_lu, s_lut) = (hk::lookup_gate_num_slots(&cd.config), hk::lookup_table_gate_num_slots(&cd.config));
        // slot arithmetic: slots are disjoint, in routed wires, and as documented
        let mut used = std::collections::BTreeSet::new();
        let mut ok = s_lu == routed / 2 && s_lut == routed / 3;
        for s in 0..s_lu {
            ok &= LookupGate::wire_ith_looking_inp(s) == 2 * s && LookupGate::wire_ith_looking_out(s) == 2 * s + 1;
            ok &= used.insert(LookupGate::wire_ith_looking_inp(s)) && used.insert(LookupGate::wire_ith_looking_out(s));
        }
        ok &= used.iter().all(|w| *w < routed) && used.len() == 2 * s_lu;
        let mut used = std::collections::BTreeSet::new();
        for s in 0..s_lut {
            ok &= LookupTableGate::wire_ith_looked_inp(s) == 3 * s && LookupTableGate::wire_ith_looked_out(s) == 3 * s + 1 && LookupTableGate::wire_ith_multiplicity(s) == 3 * s + 2;
            for w in [LookupTableGate::wire_ith_looked_inp(s), LookupTableGate::wire_ith_looked_out(s), LookupTableGate::wire_ith_multiplicity(s)] {
                ok &= used.insert(w);
            }
        }
        ok &= used.iter().all(|w| *w < routed) && used.len() == 3 * s_lut;
        ctx.add(
            Ob::new(format!("{idp}.slots"), WIRE_FILES, format!("{desc}"))
                .sample("looking slot s = wires (2s, 2s+1), looked slot s = wires (3s, 3s+1, 3s+2); pairwise disjoint, all routed; slot counts routed/2 and routed/3")
                .goal(A::Bool(ok))
                .key("lookup:slot-arithmetic"),
        );
        // placement: rows upside down, zero row after each table, padding with the first entry,
        // multiplicities = number of looking slots (lookups + padding) holding that entry
        let lrows = &tr.bt.data.prover_only.lookup_rows;
        let mut place_ok = lrows.len() == tr.bt.tables.len();
        let mut mult_ok = true;
        let mut lu_ok = true;
        let mut zero_ok = true;
        let mut prev_end = None;
        for (t, w) in lrows.iter().enumerate() {
            let table = &tr.bt.tables[t];
            let mine: Vec<u16> = v.lookups.iter().filter(|(tt, _)| *tt == t).map(|(_, i)| *i).collect();
            let n_lu_rows = mine.len().div_ceil(s_lu);
            let n_lut_rows = table.len().div_ceil(s_lut);
            place_ok &= w.last_lut_gate == w.last_lu_gate + n_lu_rows && w.first_lut_gate + 1 == w.last_lut_gate + n_lut_rows && w.first_lut_gate + 1 < tr.n;
            if let Some(p) = prev_end {
                place_ok &= w.last_lu_gate == p + 2; // the zero row separates consecutive tables
            }
            prev_end = Some(w.first_lut_gate);
            // looking rows: lookups in order, unused slots of the last row padded with entry 0
            let mut looking: Vec<(u16, u16)> = mine.iter().map(|i| *table.iter().find(|(x, _)| x == i).unwrap()).collect();
            while looking.len() % s_lu != 0 {
                looking.push(table[0]);
            }
            for (q, (i, o)) in looking.iter().enumerate() {
                let (row, s) = (w.last_lu_gate + q / s_lu, q % s_lu);
                lu_ok &= tr.mw.get_wire(row, LookupGate::wire_ith_looking_inp(s)) == c16(*i) && tr.mw.get_wire(row, LookupGate::wire_ith_looking_out(s)) == c16(*o);
            }
            // table rows: entry q sits in row first_lut - q / S, slot q % S; padded with entry 0
            let mut padded = table.clone();
            while padded.len() % s_lut != 0 {
                padded.push(table[0]);
            }
            for (q, (i, o)) in padded.iter().enumerate() {
                let (row, s) = (w.first_lut_gate - q / s_lut, q % s_lut);
                place_ok &= tr.mw.get_wire(row, LookupTableGate::wire_ith_looked_inp(s)) == c16(*i) && tr.mw.get_wire(row, LookupTableGate::wire_ith_looked_out(s)) == c16(*o);
                let want = if q < table.len() { looking.iter().filter(|p| **p == table[q]).count() } else { 0 };
                mult_ok &= tr.mw.get_wire(row, LookupTableGate::wire_ith_multiplicity(s)) == F::from_canonical_usize(want);
            }
            // the row after the table is all zero (NoopGate)
            for col in 0..cd.config.num_wires {
                zero_ok &= tr.mw.get_wire(w.first_lut_gate + 1, col) == F::ZERO;
            }
        }
        ctx.add(
            Ob::new(format!("{idp}.placement"), WIRE_FILES, format!("{desc}; lookup_rows {:?}", lrows.iter().map(|w| (w.last_lu_gate, w.last_lut_gate, w.first_lut_gate)).collect::<Vec<_>>()))
                .sample("per table: ceil(#lookups/L) looking rows, then ceil(n/S) table rows, then a zero row; table entry q in row first_lut - q/S, slot q%S; unused table slots hold the first entry; looking slots hold the lookups in order, unused ones the first entry; multiplicity of entry q == number of looking slots holding it (padding counted on entry 0), 0 on padded table slots")
                .goals(vec![A::Bool(place_ok), A::Bool(lu_ok), A::Bool(mult_ok), A::Bool(zero_ok)])
                .key("lookup:placement-or-multiplicities"),
        );
    });
}

pub fn family<F: VF>(ctx: &mut Ctx) {
    let th = ctx.thorough();
    let vs = variants(th);
    let narrow = |v: &Variant| v.shape != Shape::Wide;
    for v in &vs {
        ev_constraints::<F>(ctx, v);
        if narrow(v) && (th || ["n-t3", "n-two"].contains(&v.name)) {
            ev_vanishing::<F>(ctx, v);
        }
    }
    for v in &vs {
        ref_constraints::<F>(ctx, v);
        // (Narrow1: a partial-product chunk of 8 extension-valued factors blows up the normal form)
        if narrow(v) && v.shape != Shape::Narrow1 && (th || ["n-t3", "n-two"].contains(&v.name)) {
            ref_vanishing::<F>(ctx, v);
        }
    }
    for v in &vs {
        rows::<F>(ctx, v);
    }
    for v in &vs {
        match v.name {
            "n-t3" | "w-t3" => {
                sound_closed_form::<F>(ctx, v, 1, Bad::Out, false);
                sound_closed_form::<F>(ctx, v, 0, Bad::In, false);
            }
            "n-two" | "w-two" => {
                // pair 0 looks up input 2 in table 0; table 1 has a different value for input 2
                sound_closed_form::<F>(ctx, v, 0, Bad::OtherTable(1), false);
            }
            "n1-t3" => sound_closed_form::<F>(ctx, v, 0, Bad::Out, false),
            _ => {}
        }
    }
    for v in &vs {
        if ["n-t3", "n1-t3", "n-two", "w-t3"].contains(&v.name) || (th && v.tables.len() == 1) {
            for seed in 0..(if th { 3 } else { 2 }) {
                sound_determined::<F>(ctx, v, 0, seed);
            }
        }
    }
    for v in &vs {
        wiring::<F>(ctx, v);
    }
    // forgery attempts through the start value of the running sum (only where there is more than
    // one SLDC polynomial; with a single one InitSre pins the start and `determined` holds)
    for v in &vs {
        match v.name {
            "n-t3" | "w-t3" => sound_closed_form::<F>(ctx, v, 1, Bad::Out, true),
            "n-two" => sound_closed_form::<F>(ctx, v, 0, Bad::OtherTable(1), true),
            "w-two" | "n3-t3" if th => sound_closed_form::<F>(ctx, v, 0, if v.tables.len() > 1 { Bad::OtherTable(1) } else { Bad::Out }, true),
            _ => {}
        }
    }
}
