//! Engine S: a term-recording field type that the *real* generic plonky2 / starky code is
//! instantiated with.  `SymF` is either a concrete Goldilocks element (folded eagerly with the
//! real `GoldilocksField` operators) or a handle into a hash-consed term arena.
//!
//! Comparisons of symbolic values never silently pick a branch: they are either *recorded*
//! (accept-path mode: the atom becomes part of the verifier's acceptance condition) or *decided*
//! by the solver under the current path hypotheses.
use core::fmt::{self, Debug, Display, Formatter};
use core::hash::{Hash, Hasher};
use core::iter::{Product, Sum};
use core::ops::{Add, AddAssign, Div, DivAssign, Mul, MulAssign, Neg, Sub, SubAssign};
use std::collections::HashMap;
use std::sync::Mutex;

use num::BigUint;
use plonky2::hash::hash_types::RichField;
use plonky2::hash::poseidon::Poseidon;
use plonky2_field::extension::quadratic::QuadraticExtension;
use plonky2_field::extension::{Extendable, Frobenius};
use plonky2_field::goldilocks_field::GoldilocksField as G;
use plonky2_field::types::{Field, Field64, PrimeField, PrimeField64, Sample};
use serde::{Deserialize, Serialize};

pub mod algebra;
pub mod codec;
pub mod ctx;
pub mod poly;
pub mod fri;
pub mod gates;
pub mod lookup;
pub mod merkle;
pub mod modelsearch;
pub mod plonk;
pub mod plonkv;
pub mod transcript;
pub mod recursion;
pub mod smt;
pub mod stark;

pub const P: u64 = 0xFFFF_FFFF_0000_0001;

#[derive(Copy, Clone, Serialize, Deserialize)]
pub struct SymF {
    /// 0 = concrete (val holds a Goldilocks representation), 1 = symbolic (id indexes the arena)
    k: u32,
    id: u32,
    val: u64,
}

#[derive(Clone, PartialEq, Eq, Hash, Debug)]
pub enum Node {
    Var(String),
    Add(Op, Op),
    Sub(Op, Op),
    Mul(Op, Op),
    Neg(Op),
    /// multiplicative inverse of a term assumed non-zero
    Inv(Op),
    /// i-th output of the Poseidon permutation applied to a (partly) symbolic state:
    /// a free function symbol
    Perm(u8, Vec<Op>),
}

#[derive(Copy, Clone, PartialEq, Eq, Hash, Debug, PartialOrd, Ord)]
pub enum Op {
    /// canonical concrete value
    C(u64),
    /// arena node
    N(u32),
}

#[derive(Clone, Debug, PartialEq, Eq)]
pub enum Atom {
    Eq(Op, Op),
    /// definitional equality `symbol == term` (used as a rewrite rule for linear occurrences)
    Def(Op, Op),
    Ne(Op, Op),
    /// at least one of the pairs differs
    AnyNe(Vec<(Op, Op)>),
    /// all pairs equal (a conjunction that may be negated as a unit)
    AllEq(Vec<(Op, Op)>),
    /// at least one of the pairs is equal (zero-product law applied to a product term)
    AnyEq(Vec<(Op, Op)>),
    False,
}

#[derive(Copy, Clone, PartialEq, Eq, Debug)]
pub enum EqMode {
    /// ask the solver (default)
    Decide,
    /// record `lhs == rhs` as an acceptance atom and continue on the equal branch
    Record,
}

#[derive(Copy, Clone, PartialEq, Eq, Debug)]
pub enum Unknown {
    /// an undetermined comparison aborts the obligation (panic -> inconclusive)
    Panic,
    /// an undetermined comparison is taken as "not equal" and `a != b` is added to the path
    /// hypotheses (used for `is_zero` guards in front of inversions)
    AssumeNe,
}

#[derive(Default)]
pub struct Arena {
    pub nodes: Vec<Node>,
    pub index: HashMap<Node, u32>,
    /// path hypotheses used by decided comparisons (and exported with every obligation)
    pub path: Vec<Atom>,
    /// atoms recorded in accept-path mode
    pub recorded: Vec<(Op, Op)>,
    pub mode: Option<EqMode>,
    pub unknown: Option<Unknown>,
    pub placeholders: bool,
    pub decided: usize,
    pub decide_seconds: f64,
    pub assumed_ne: Vec<(Op, Op)>,
    var_counter: u64,
}

pub static ARENA: Mutex<Option<Arena>> = Mutex::new(None);

pub fn with<R>(f: impl FnOnce(&mut Arena) -> R) -> R {
    let mut g = ARENA.lock().unwrap_or_else(|e| e.into_inner());
    if g.is_none() {
        *g = Some(Arena::default());
    }
    f(g.as_mut().unwrap())
}

/// Forget all terms. Only call when no `SymF` value created before is used afterwards.
pub fn reset() {
    let mut g = ARENA.lock().unwrap_or_else(|e| e.into_inner());
    *g = Some(Arena::default());
    poly::reset_norm();
}

pub fn set_mode(m: EqMode) -> EqMode {
    with(|a| a.mode.replace(m).unwrap_or(EqMode::Decide))
}
pub fn set_unknown(u: Unknown) -> Unknown {
    with(|a| a.unknown.replace(u).unwrap_or(Unknown::Panic))
}
pub fn set_placeholders(b: bool) -> bool {
    with(|a| core::mem::replace(&mut a.placeholders, b))
}
pub fn push_path(at: Atom) {
    with(|a| a.path.push(at));
}
pub fn node_of(i: u32) -> Node {
    with(|a| a.nodes[i as usize].clone())
}

impl SymF {
    pub const fn c(v: u64) -> Self {
        SymF { k: 0, id: 0, val: v }
    }
    pub fn var(name: &str) -> Self {
        Self::mk(Node::Var(name.to_string()))
    }
    pub fn fresh(prefix: &str) -> Self {
        let n = with(|a| {
            a.var_counter += 1;
            a.var_counter
        });
        Self::var(&format!("{}~{}", prefix, n))
    }
    pub fn from_op(op: Op) -> Self {
        match op {
            Op::C(v) => SymF::c(v),
            Op::N(i) => SymF { k: 1, id: i, val: 0 },
        }
    }
    fn mk(n: Node) -> Self {
        // light, sound simplifications (field identities) to keep terms small and shared
        let n = match n {
            Node::Add(a, b) => {
                if a == Op::C(0) {
                    return Self::from_op(b);
                }
                if b == Op::C(0) {
                    return Self::from_op(a);
                }
                if a <= b {
                    Node::Add(a, b)
                } else {
                    Node::Add(b, a)
                }
            }
            Node::Sub(a, b) => {
                if b == Op::C(0) {
                    return Self::from_op(a);
                }
                if a == b {
                    return SymF::c(0);
                }
                Node::Sub(a, b)
            }
            Node::Mul(a, b) => {
                if a == Op::C(0) || b == Op::C(0) {
                    return SymF::c(0);
                }
                if a == Op::C(1) {
                    return Self::from_op(b);
                }
                if b == Op::C(1) {
                    return Self::from_op(a);
                }
                if a <= b {
                    Node::Mul(a, b)
                } else {
                    Node::Mul(b, a)
                }
            }
            other => other,
        };
        with(|a| {
            if let Some(&i) = a.index.get(&n) {
                return SymF { k: 1, id: i, val: 0 };
            }
            let i = a.nodes.len() as u32;
            assert!((i as u64) < (u32::MAX as u64) - 2, "arena overflow");
            a.nodes.push(n.clone());
            a.index.insert(n, i);
            SymF { k: 1, id: i, val: 0 }
        })
    }
    pub fn op(&self) -> Op {
        if self.k == 0 {
            Op::C(G(self.val).to_canonical_u64())
        } else {
            Op::N(self.id)
        }
    }
    pub fn is_concrete(&self) -> bool {
        self.k == 0
    }
    fn g(&self) -> G {
        assert!(self.k == 0, "concretisation of a symbolic field element");
        G(self.val)
    }
    fn lift(g: G) -> Self {
        SymF::c(g.0)
    }
}

/// Rebuild `op` with every node in `map` replaced (children first; `root_keep` is not replaced
/// itself even if it is in the map, so that a cut node's own definition can be obtained).
pub fn subst(op: Op, map: &HashMap<u32, Op>, root_keep: bool) -> Op {
    fn go(op: Op, map: &HashMap<u32, Op>, memo: &mut HashMap<u32, Op>, top: bool, keep: bool) -> Op {
        let i = match op {
            Op::C(_) => return op,
            Op::N(i) => i,
        };
        if !(top && keep) {
            if let Some(r) = map.get(&i) {
                return *r;
            }
            if let Some(r) = memo.get(&i) {
                return *r;
            }
        }
        let node = node_of(i);
        let f = |o: Op, memo: &mut HashMap<u32, Op>| SymF::from_op(go(o, map, memo, false, false));
        let r = match node {
            Node::Var(_) => op,
            Node::Add(a, b) => (f(a, memo) + f(b, memo)).op(),
            Node::Sub(a, b) => (f(a, memo) - f(b, memo)).op(),
            Node::Mul(a, b) => (f(a, memo) * f(b, memo)).op(),
            Node::Neg(a) => (-f(a, memo)).op(),
            Node::Inv(a) => {
                let x = f(a, memo);
                if x.is_concrete() {
                    x.inverse().op()
                } else {
                    SymF::mk(Node::Inv(x.op())).op()
                }
            }
            Node::Perm(k, st) => {
                let st2: Vec<Op> = st.iter().map(|o| go(*o, map, memo, false, false)).collect();
                SymF::mk(Node::Perm(k, st2)).op()
            }
        };
        if !(top && keep) {
            memo.insert(i, r);
        }
        r
    }
    let mut memo = HashMap::new();
    go(op, map, &mut memo, true, root_keep)
}

/// Multiplicative factors of a term (through `Mul` and `Neg` nodes): t == 0 iff some factor == 0.
pub fn factors(op: Op) -> Vec<Op> {
    let mut out = vec![];
    let mut stack = vec![op];
    while let Some(o) = stack.pop() {
        match o {
            Op::C(_) => out.push(o),
            Op::N(i) => match node_of(i) {
                Node::Mul(a, b) => {
                    stack.push(a);
                    stack.push(b);
                }
                Node::Neg(a) => stack.push(a),
                _ => out.push(o),
            },
        }
    }
    out
}

/// Does the term DAG of `op` contain node `target`?
pub fn mentions(op: Op, target: u32) -> bool {
    let mut seen = std::collections::HashSet::new();
    let mut stack = vec![op];
    while let Some(o) = stack.pop() {
        if let Op::N(i) = o {
            if i == target {
                return true;
            }
            if !seen.insert(i) {
                continue;
            }
            match node_of(i) {
                Node::Var(_) => {}
                Node::Add(a, b) | Node::Sub(a, b) | Node::Mul(a, b) => {
                    stack.push(a);
                    stack.push(b);
                }
                Node::Neg(a) | Node::Inv(a) => stack.push(a),
                Node::Perm(_, st) => stack.extend(st),
            }
        }
    }
    false
}

impl PartialEq for SymF {
    fn eq(&self, o: &Self) -> bool {
        if self.k == 0 && o.k == 0 {
            return self.g() == o.g();
        }
        let (a, b) = (self.op(), o.op());
        if a == b {
            return true;
        }
        let mode = with(|ar| ar.mode.unwrap_or(EqMode::Decide));
        match mode {
            EqMode::Record => {
                with(|ar| ar.recorded.push((a, b)));
                true
            }
            EqMode::Decide => smt::decide_eq(a, b),
        }
    }
}
impl Eq for SymF {}
impl Hash for SymF {
    fn hash<H: Hasher>(&self, s: &mut H) {
        self.op().hash(s)
    }
}
impl Default for SymF {
    fn default() -> Self {
        Self::ZERO
    }
}
impl Debug for SymF {
    fn fmt(&self, f: &mut Formatter<'_>) -> fmt::Result {
        write!(f, "{:?}", self.op())
    }
}
impl Display for SymF {
    fn fmt(&self, f: &mut Formatter<'_>) -> fmt::Result {
        write!(f, "{:?}", self.op())
    }
}
impl Sample for SymF {
    fn sample<R: rand::RngCore + ?Sized>(rng: &mut R) -> Self {
        Self::lift(G::sample(rng))
    }
}

macro_rules! binop {
    ($tr:ident, $f:ident, $node:ident, $tra:ident, $fa:ident) => {
        impl $tr for SymF {
            type Output = Self;
            fn $f(self, r: Self) -> Self {
                if self.k == 0 && r.k == 0 {
                    Self::lift(self.g().$f(r.g()))
                } else {
                    Self::mk(Node::$node(self.op(), r.op()))
                }
            }
        }
        impl $tra for SymF {
            fn $fa(&mut self, r: Self) {
                *self = (*self).$f(r);
            }
        }
    };
}
binop!(Add, add, Add, AddAssign, add_assign);
binop!(Sub, sub, Sub, SubAssign, sub_assign);
binop!(Mul, mul, Mul, MulAssign, mul_assign);
impl Neg for SymF {
    type Output = Self;
    fn neg(self) -> Self {
        if self.k == 0 {
            Self::lift(-self.g())
        } else {
            Self::mk(Node::Neg(self.op()))
        }
    }
}
impl Div for SymF {
    type Output = Self;
    fn div(self, r: Self) -> Self {
        self * r.inverse()
    }
}
impl DivAssign for SymF {
    fn div_assign(&mut self, r: Self) {
        *self = *self / r;
    }
}
impl Sum for SymF {
    fn sum<I: Iterator<Item = Self>>(i: I) -> Self {
        i.fold(Self::ZERO, |a, x| a + x)
    }
}
impl Product for SymF {
    fn product<I: Iterator<Item = Self>>(i: I) -> Self {
        i.fold(Self::ONE, |a, x| a * x)
    }
}

impl Field for SymF {
    const ZERO: Self = SymF::c(0);
    const ONE: Self = SymF::c(1);
    const TWO: Self = SymF::c(2);
    const NEG_ONE: Self = SymF::c(G::NEG_ONE.0);
    const TWO_ADICITY: usize = G::TWO_ADICITY;
    const CHARACTERISTIC_TWO_ADICITY: usize = G::CHARACTERISTIC_TWO_ADICITY;
    const MULTIPLICATIVE_GROUP_GENERATOR: Self = SymF::c(G::MULTIPLICATIVE_GROUP_GENERATOR.0);
    const POWER_OF_TWO_GENERATOR: Self = SymF::c(G::POWER_OF_TWO_GENERATOR.0);
    const BITS: usize = 64;
    fn order() -> BigUint {
        G::order()
    }
    fn characteristic() -> BigUint {
        G::order()
    }
    fn try_inverse(&self) -> Option<Self> {
        if self.k == 0 {
            self.g().try_inverse().map(Self::lift)
        } else {
            // real implementations return None for zero. A term whose normal form is the zero
            // polynomial is zero; anything else is assumed non-zero: the normaliser registers it
            // as a denominator atom and every query carries the hypothesis "denominator != 0".
            let f = poly::NORM.with(|n| n.borrow_mut().of(self.op()));
            if f.num.is_zero() {
                return None;
            }
            Some(Self::mk(Node::Inv(self.op())))
        }
    }
    fn from_noncanonical_biguint(n: BigUint) -> Self {
        Self::lift(G::from_noncanonical_biguint(n))
    }
    fn from_canonical_u64(n: u64) -> Self {
        if n >= P {
            // placeholder handed out by to_canonical_u64 for a symbolic element
            let ok = with(|a| a.placeholders && ((n - P) as usize) < a.nodes.len());
            assert!(ok, "from_canonical_u64 of a non-canonical value {n}");
            return SymF { k: 1, id: (n - P) as u32, val: 0 };
        }
        Self::lift(G::from_canonical_u64(n))
    }
    fn from_noncanonical_u128(n: u128) -> Self {
        Self::lift(G::from_noncanonical_u128(n))
    }
    fn from_noncanonical_u64(n: u64) -> Self {
        if n >= P {
            // placeholder handed out by to_canonical_u64 (HashOut::from_bytes reduces with
            // from_noncanonical_u64)
            let ok = with(|a| a.placeholders && ((n - P) as usize) < a.nodes.len());
            if ok {
                return SymF { k: 1, id: (n - P) as u32, val: 0 };
            }
        }
        Self::lift(G::from_noncanonical_u64(n))
    }
    fn from_noncanonical_i64(n: i64) -> Self {
        Self::lift(G::from_noncanonical_i64(n))
    }
}
impl PrimeField for SymF {
    fn to_canonical_biguint(&self) -> BigUint {
        self.g().to_canonical_biguint()
    }
}
impl Field64 for SymF {
    const ORDER: u64 = G::ORDER;
}
impl PrimeField64 for SymF {
    fn to_canonical_u64(&self) -> u64 {
        if self.k == 1 {
            // Only the identity round trip `from_canonical_u64(to_canonical_u64(x))` is
            // meaningful for a symbolic x (Hasher::hash_or_noop); obligations enable this
            // explicitly and make every other integer-valued input concrete.
            let ok = with(|a| a.placeholders);
            assert!(ok, "to_canonical_u64 of a symbolic field element (unexpected concretisation)");
            return P + self.id as u64;
        }
        self.g().to_canonical_u64()
    }
    fn to_noncanonical_u64(&self) -> u64 {
        if self.k == 1 {
            return self.to_canonical_u64();
        }
        self.g().to_noncanonical_u64()
    }
}
impl Frobenius<1> for SymF {}
impl Extendable<2> for SymF {
    type Extension = QuadraticExtension<Self>;
    const W: Self = SymF::c(7);
    const DTH_ROOT: Self = SymF::c(<G as Extendable<2>>::DTH_ROOT.0);
    const EXT_MULTIPLICATIVE_GROUP_GENERATOR: [Self; 2] = [
        SymF::c(<G as Extendable<2>>::EXT_MULTIPLICATIVE_GROUP_GENERATOR[0].0),
        SymF::c(<G as Extendable<2>>::EXT_MULTIPLICATIVE_GROUP_GENERATOR[1].0),
    ];
    const EXT_POWER_OF_TWO_GENERATOR: [Self; 2] = [
        SymF::c(<G as Extendable<2>>::EXT_POWER_OF_TWO_GENERATOR[0].0),
        SymF::c(<G as Extendable<2>>::EXT_POWER_OF_TWO_GENERATOR[1].0),
    ];
}
use plonky2_field::extension::quartic as _q4;
use plonky2_field::extension::quintic as _q5;
impl Extendable<4> for SymF {
    type Extension = _q4::QuarticExtension<Self>;
    const W: Self = SymF::c(<G as Extendable<4>>::W.0);
    const DTH_ROOT: Self = SymF::c(<G as Extendable<4>>::DTH_ROOT.0);
    const EXT_MULTIPLICATIVE_GROUP_GENERATOR: [Self; 4] = {
        let g = <G as Extendable<4>>::EXT_MULTIPLICATIVE_GROUP_GENERATOR;
        [SymF::c(g[0].0), SymF::c(g[1].0), SymF::c(g[2].0), SymF::c(g[3].0)]
    };
    const EXT_POWER_OF_TWO_GENERATOR: [Self; 4] = {
        let g = <G as Extendable<4>>::EXT_POWER_OF_TWO_GENERATOR;
        [SymF::c(g[0].0), SymF::c(g[1].0), SymF::c(g[2].0), SymF::c(g[3].0)]
    };
}
impl Extendable<5> for SymF {
    type Extension = _q5::QuinticExtension<Self>;
    const W: Self = SymF::c(<G as Extendable<5>>::W.0);
    const DTH_ROOT: Self = SymF::c(<G as Extendable<5>>::DTH_ROOT.0);
    const EXT_MULTIPLICATIVE_GROUP_GENERATOR: [Self; 5] = {
        let g = <G as Extendable<5>>::EXT_MULTIPLICATIVE_GROUP_GENERATOR;
        [SymF::c(g[0].0), SymF::c(g[1].0), SymF::c(g[2].0), SymF::c(g[3].0), SymF::c(g[4].0)]
    };
    const EXT_POWER_OF_TWO_GENERATOR: [Self; 5] = {
        let g = <G as Extendable<5>>::EXT_POWER_OF_TWO_GENERATOR;
        [SymF::c(g[0].0), SymF::c(g[1].0), SymF::c(g[2].0), SymF::c(g[3].0), SymF::c(g[4].0)]
    };
}

impl Poseidon for SymF {
    const MDS_MATRIX_CIRC: [u64; 12] = <G as Poseidon>::MDS_MATRIX_CIRC;
    const MDS_MATRIX_DIAG: [u64; 12] = <G as Poseidon>::MDS_MATRIX_DIAG;
    const FAST_PARTIAL_FIRST_ROUND_CONSTANT: [u64; 12] =
        <G as Poseidon>::FAST_PARTIAL_FIRST_ROUND_CONSTANT;
    const FAST_PARTIAL_ROUND_CONSTANTS: [u64; 22] = <G as Poseidon>::FAST_PARTIAL_ROUND_CONSTANTS;
    const FAST_PARTIAL_ROUND_VS: [[u64; 11]; 22] = <G as Poseidon>::FAST_PARTIAL_ROUND_VS;
    const FAST_PARTIAL_ROUND_W_HATS: [[u64; 11]; 22] = <G as Poseidon>::FAST_PARTIAL_ROUND_W_HATS;
    const FAST_PARTIAL_ROUND_INITIAL_MATRIX: [[u64; 11]; 11] =
        <G as Poseidon>::FAST_PARTIAL_ROUND_INITIAL_MATRIX;
    /// The u64-level layer kernels are replaced by their algebraic `_field` twins (their
    /// equivalence for all u64 states is engine M's obligation, C13).
    fn mds_layer(state: &[Self; 12]) -> [Self; 12] {
        Self::mds_layer_field::<Self, 1>(state)
    }
    fn mds_partial_layer_fast(state: &[Self; 12], r: usize) -> [Self; 12] {
        Self::mds_partial_layer_fast_field::<Self, 1>(state, r)
    }
    /// On a symbolic state the permutation is a free function symbol (12 `Perm` nodes).
    fn poseidon(input: [Self; 12]) -> [Self; 12] {
        if input.iter().all(|x| x.k == 0) {
            let out = <G as Poseidon>::poseidon(input.map(|x| x.g()));
            out.map(Self::lift)
        } else {
            let ops: Vec<Op> = input.iter().map(|x| x.op()).collect();
            core::array::from_fn(|i| Self::mk(Node::Perm(i as u8, ops.clone())))
        }
    }
}
impl RichField for SymF {}
